"""Parts (see parts.py) that bring the remaining public surface of nutree into the model:

  MAPPER     (host C14)  common.call_mapper and its call sites                         Forest/MiscMapper.v      Cases/CaseMiscMapper.v
  COMMONMISC (host C14)  check_python_version, PYTHON_VERSION, the exception hierarchy  Forest/MiscCommon.v      Cases/CaseMiscCommon.v
  WRAP       (host C02)  common.DictWrapper                                            Forest/MiscWrap.v        Cases/CaseMiscWrap.v
  NODEMISC   (host C10)  Node.path/get_children/is_system_root/__repr__, Tree.__eq__/get_random_node/system_root/len/bool/count/
                         first_child/last_child/__repr__, TypedNode.__repr__           Forest/MiscNode.v        Cases/CaseMiscNode.v
  FORWARD    (host C10)  Node.__getattr__ (forward_attrs)                              Forest/MiscForward.v     Cases/CaseMiscForward.v
  REMOVED    (host C01)  what Tree._unregister(clear=True) leaves on a removed node, every public accessor of it
                                                                                       Forest/MiscRemoved.v     Cases/CaseMiscRemoved.v
  SELFCHECK  (host C01)  Tree._self_check on the pointer-level state                   Mut/MiscSelfCheck.v      Cases/CaseMiscSelfCheck.v
  PRINT      (host C16)  Tree.print, the default rendering templates                   Forest/MiscPrint.v, MiscRender.v   Cases/CaseMiscPrint.v
  MERMAIDDEF (host C17)  to_mermaid_flowchart without options (signature defaults)     Forest/MiscMermaid.v     Cases/CaseMiscMermaid.v
  WRITERS    (host C17)  to_dotfile / to_mermaid_flowchart as writers (stream, path, format=, partial output)
                                                                                       Forest/MiscWriters.v     Cases/CaseMiscWriters.v
  ZIPIO      (host C05)  open_as_compressed_output_stream / open_as_uncompressed_input_stream   Forest/MiscZipIO.v   Cases/CaseMiscZipIO.v

Every part: generator (incl. unusual inputs), observation of the implementation, Coq input term, and an oracle written from
the statement, independent of the Coq model (identity checks on the real objects).  Theorems: at the end of the host's
coq/Properties/Cxx.v; proofs in the matching Misc*Proofs.v."""
from __future__ import annotations

import copy
import decimal
import io
import json
import random

import common as H
from common import Case, Tree, TypedTree
from nutree.common import DictWrapper, call_mapper

# ---------------------------------------------------------------------------------------------------------------------
# Python values <-> desc encoding <-> pv terms / sx observations
# ---------------------------------------------------------------------------------------------------------------------


class Falsy:
    """an object that is falsy without being a container or a number"""

    def __bool__(self):
        return False

    def __repr__(self):
        return "Falsy"


#: "any other object": only bool(obj) and the tag are known to the model (POpaque); the tag is the object's repr()
_OPAQUE_OBJS = [0.0, frozenset(), b"", range(0), decimal.Decimal(0), Falsy(), 1.5, H.PlainObj(1), b"x"]
OPAQUE = {repr(o): o for o in _OPAQUE_OBJS}
assert len(OPAQUE) == len(_OPAQUE_OBJS) and "Decimal('0')" in OPAQUE and "range(0, 0)" in OPAQUE and "P1" in OPAQUE


def val_of(e):
    """desc encoding -> real Python value.  None | int | str | {"b":bool} | {"t":[..]} | {"l":[..]} | {"d":[[k,v]..]} | {"o":tag}"""
    if e is None or isinstance(e, (int, str)) and not isinstance(e, bool):
        return e
    if "b" in e:
        return bool(e["b"])
    if "t" in e:
        return tuple(val_of(x) for x in e["t"])
    if "l" in e:
        return [val_of(x) for x in e["l"]]
    if "d" in e:
        return {k: val_of(v) for k, v in e["d"]}
    if "o" in e:
        return OPAQUE[e["o"]]
    raise ValueError(e)


def pv_obs(v):
    """real Python value -> observation (nested lists, rendered by common.sx), mirror of MiscMapper.sx_pv"""
    if v is None:
        return [0]
    if isinstance(v, bool):
        return [1, v]
    if isinstance(v, int):
        return [2, v]
    if isinstance(v, str):
        return [3, v]
    if isinstance(v, tuple):
        return [4, [pv_obs(x) for x in v]]
    if isinstance(v, list):
        return [5, [pv_obs(x) for x in v]]
    if isinstance(v, dict):
        return [6, [[str(k), pv_obs(x)] for k, x in v.items()]]
    for tag, o in OPAQUE.items():
        if o is v or (type(o) is type(v) and o == v):
            return [7, bool(v), tag]
    return [7, bool(v), "?" + type(v).__name__]


def pv_coq(e) -> str:
    """desc encoding -> Coq term of type pv"""
    if e is None:
        return "PNone"
    if isinstance(e, int) and not isinstance(e, bool):
        return f"(PInt {H.z(e)})"
    if isinstance(e, str):
        return f"(PStr {H.coq_text(e)})"
    if "b" in e:
        return f"(PBool {H.coq_bool(e['b'])})"
    if "t" in e:
        return "(PTuple " + H.coq_list(pv_coq(x) for x in e["t"]) + ")"
    if "l" in e:
        return "(PList " + H.coq_list(pv_coq(x) for x in e["l"]) + ")"
    if "d" in e:
        return "(PDict " + dict_coq(e["d"]) + ")"
    if "o" in e:
        return f"(POpaque {H.coq_bool(bool(OPAQUE[e['o']]))} {H.coq_text(e['o'])})"
    raise ValueError(e)


def dict_coq(pairs) -> str:
    return H.coq_list(f"({H.coq_text(k)}, {pv_coq(v)})" for k, v in pairs)


def enc_of(v):
    """real (JSON-like) Python value -> desc encoding (inverse of val_of on the values the library builds)"""
    if v is None or isinstance(v, (int, str)) and not isinstance(v, bool):
        return v
    if isinstance(v, bool):
        return {"b": v}
    if isinstance(v, tuple):
        return {"t": [enc_of(x) for x in v]}
    if isinstance(v, list):
        return {"l": [enc_of(x) for x in v]}
    if isinstance(v, dict):
        return {"d": [[str(k), enc_of(x)] for k, x in v.items()]}
    for tag, o in OPAQUE.items():
        if o is v or (type(o) is type(v) and o == v):
            return {"o": tag}
    raise ValueError(v)


def dict_obs(d):
    return [[str(k), pv_obs(x)] for k, x in d.items()]


ERR_CLS = {3: ValueError, 4: KeyError, 7: TypeError, 8: RuntimeError}


# ---------------------------------------------------------------------------------------------------------------------
# MAPPER: common.call_mapper
# ---------------------------------------------------------------------------------------------------------------------
#: mutation statements of a callback body: ["set",k,v] ["del",k] ["clear"] ["ren",k,k2]
def mop_coq(m) -> str:
    if m[0] == "set":
        return f"(MSet {H.coq_text(m[1])} {pv_coq(m[2])})"
    if m[0] == "del":
        return f"(MDel {H.coq_text(m[1])})"
    if m[0] == "clear":
        return "MClear"
    if m[0] == "ren":
        return f"(MRename {H.coq_text(m[1])} {H.coq_text(m[2])})"
    raise ValueError(m)


def ret_coq(r) -> str:
    if r == "none":
        return "RNone"
    if r == "same":
        return "RSame"
    if r[0] == "raise":
        return f"(RRaise {r[1]})"
    return f"(RVal {pv_coq(r[1])})"


class Callback:
    """a real mapper built from a script; records what it saw and what it handed back (by identity)"""

    def __init__(self, body, ret):
        self.body, self.ret = body, ret
        self.calls = 0
        self.data = None        # the dict object it was handed
        self.before = None      # its content on entry
        self.returned = None    # the object it returned (None: returned None / raised)

    def __call__(self, node, data):
        self.calls += 1
        self.data = data
        self.before = copy.deepcopy(data)
        for m in self.body:
            if m[0] == "set":
                data[m[1]] = val_of(m[2])
            elif m[0] == "del":
                data.pop(m[1], None)
            elif m[0] == "clear":
                data.clear()
            elif m[0] == "ren":
                if m[1] in data:
                    data[m[2]] = data.pop(m[1])
        r = self.ret
        if r == "none":
            return None
        if r == "same":
            self.returned = data
            return data
        if r[0] == "raise":
            raise ERR_CLS[r[1]]("callback fault")
        self.returned = val_of(r[1])
        return self.returned


def spec_pairs(pairs, body):
    """independent specification of a callback body on a list of [key, value-encoding] pairs (no dict involved)"""
    ps = [[k, v] for k, v in pairs]
    for m in body:
        if m[0] == "set":
            hit = [p for p in ps if p[0] == m[1]]
            if hit:
                hit[0][1] = m[2]
            else:
                ps.append([m[1], m[2]])
        elif m[0] == "del":
            ps = [p for p in ps if p[0] != m[1]]
        elif m[0] == "clear":
            ps = []
        elif m[0] == "ren":
            hit = [p for p in ps if p[0] == m[1]]
            if hit:
                ps = [p for p in ps if p[0] != m[1]]
                old = [p for p in ps if p[0] == m[2]]
                if old:
                    old[0][1] = hit[0][1]
                else:
                    ps.append([m[2], hit[0][1]])
    return ps


VALUES = [0, "", {"t": []}, {"b": False}, {"l": []}, {"d": []}, {"o": "0.0"}, {"o": "frozenset()"}, {"o": "b''"}, {"o": "range(0, 0)"},
          {"o": "Decimal('0')"}, {"o": "Falsy"},
          1, -3, "x", "None", {"t": [0]}, {"t": [None]}, {"b": True}, {"l": [0]}, {"l": [{"l": []}]}, {"d": [["k", 0]]},
          {"d": [["data", "y"], ["data_id", 9]]}, {"o": "1.5"}, {"o": "P1"}, {"o": "b'x'"}]
RETS = ["none", "same", ["raise", 3], ["raise", 4]] + [["val", v] for v in VALUES]
BODIES = [[], [["set", "k", 1]], [["set", "data", ""]], [["del", "data"]], [["clear"]], [["ren", "data", "str"]],
          [["set", "a", {"l": []}], ["del", "a"], ["set", "b", None], ["set", "data", {"t": []}]],
          [["ren", "data", "data_id"], ["set", "z", {"d": []}], ["ren", "nope", "q"]]]
DICTS = [[], [["data", "x"]], [["data", "x"], ["data_id", 7], ["n", None], ["e", {"d": []}]]]
#: bodies used at the library call sites (never remove "data_id": an unhashable data object needs it)
SITE_BODIES = [[], [["set", "data_id", "g"], ["set", "k", 0]], [["ren", "data", "d2"], ["set", "data_id", 12]]]


class MapperPart:
    tag = "MAPPER"
    case_module = "CaseMiscMapper"
    case_vo = "theories/Cases/CaseMiscMapper.vo"
    run_fn = "run_misc_mapper"
    rule = ("common.call_mapper: callbacks are scripts (dict mutations: set/del/clear/rename, then return None | the dict itself | "
            "one of 26 values, 12 of them falsy but not None (0, '', (), False, [], {}, 0.0, frozenset(), b'', range(0), Decimal(0), "
            "an object with __bool__ False) | raise) x 8 bodies x 3 dicts on the direct call, and the same return values through "
            "the call sites Tree.from_dict, Node.to_dict, Node.to_list_iter, Tree.load; thorough adds random scripts; "
            "oracle: identity of the object handed back (`is`) and an independent list-of-pairs specification of the dict content")

    def descs(self, tier, rng):
        for r in RETS:
            for b in BODIES:
                for d in DICTS:
                    yield dict(site=0, body=b, ret=r, dict=d)
            for site in (1, 2, 3, 4):
                for b in SITE_BODIES:
                    yield dict(site=site, body=b, ret=r, dict=None)
        for d in DICTS:
            yield dict(site=0, body=None, ret=None, dict=d)
        keys = ["data", "data_id", "k", "str", "a"]
        for _ in range(0 if tier == "quick" else 1500):
            body = []
            for _ in range(rng.randint(0, 6)):
                op = rng.choice(["set", "set", "del", "clear", "ren"])
                if op == "set":
                    body.append(["set", rng.choice(keys), rng.choice(VALUES + [None])])
                elif op == "del":
                    body.append(["del", rng.choice(keys)])
                elif op == "ren":
                    body.append(["ren", rng.choice(keys), rng.choice(keys)])
                else:
                    body.append(["clear"])
            d = [[k, rng.choice(VALUES + [None])] for k in rng.sample(keys, rng.randint(0, 4))]
            yield dict(site=0, body=body, ret=rng.choice(RETS), dict=d)

    def shrink_candidates(self, desc):
        if desc.get("body"):
            for i in range(len(desc["body"])):
                yield dict(desc, body=desc["body"][:i] + desc["body"][i + 1:])

    # one case --------------------------------------------------------------------------------------------------
    def run(self, desc) -> Case:
        site = desc["site"]
        cb = None if desc["body"] is None else Callback(desc["body"], desc["ret"])
        res = err = None
        did_obs = []
        if site == 0:
            data = {k: val_of(v) for k, v in desc["dict"]}
            before = desc["dict"]
            try:
                res = call_mapper(cb, None, data)
            except Exception as e:  # noqa: BLE001
                err = e
        else:
            data, before, res, err, did_obs = self.run_site(site, cb)
        if err is not None and (cb is None or cb.calls != 1 or not (isinstance(desc["ret"], list) and desc["ret"][0] == "raise")):
            # an exception that is not the callback's own: report, do not hide
            return Case(desc=desc, coq_input=self.coq(site, desc, before or []), impl_obs=[[-1, H.err_class(err), []], []],
                        oracle_fail=f"call_mapper: unexpected {type(err).__name__}: {err}", key=H.digest(desc))
        if err is not None:
            obs = [-1, H.err_class(err), dict_obs(data)]
        else:
            obs = [res is data, pv_obs(res), dict_obs(data)]
        fail = self.oracle(desc, cb, data, before, res, err)
        ret = desc["ret"]
        falsy = isinstance(ret, list) and ret[0] == "val" and not val_of(ret[1])
        return Case(desc=desc, coq_input=self.coq(site, desc, before), impl_obs=[obs, did_obs], oracle_fail=fail,
                    nontrivial=cb is not None, key=H.digest(desc),
                    stats=dict(site=site, ret=("None-fn" if cb is None else ret if isinstance(ret, str) else ret[0] + ("-falsy" if falsy else ""))))

    def coq(self, site, desc, before):
        fn = "(@None callback)" if desc["body"] is None else f"(Some (CB {H.coq_list(mop_coq(m) for m in desc['body'])} {ret_coq(desc['ret'])}))"
        return f"(({site}, {fn}, {dict_coq(before)}) : Z * option callback * dict)"

    def run_site(self, site, cb):
        """call_mapper as the library calls it; returns (data dict object, its content before, value used, exception, data_id obs)"""
        res = err = None
        did_obs = []
        try:
            if site == 1:       # Node.from_dict through Tree.from_dict
                item = {"data": "x", "data_id": 7}
                try:
                    t = Tree.from_dict([item], mapper=cb)
                    n = t.first_child()
                    res = n.data
                    did_obs = [pv_obs(n.data_id)]
                except Exception:
                    did_obs = [pv_obs(item["data_id"])] if "data_id" in item else []
                    raise
            elif site == 2:     # Node.to_dict on a leaf with a custom data_id
                t = Tree()
                n = t.add("x", data_id="cid")
                res = n.to_dict(mapper=cb)
            elif site == 3:     # Node.to_list_iter: a non-str data object gives a dict entry
                t = Tree()
                t.add(5, data_id="k")
                rows = list(t.to_list_iter(mapper=cb))
                assert len(rows) == 1 and rows[0][0] == 0, rows
                res = rows[0][1]
            elif site == 4:     # Tree._from_list through Tree.load
                doc = {"meta": {"$generator": "nutree/test", "$format_version": "1.0"}, "nodes": [[0, {"data_id": 7, "v": [1, None]}]]}
                did_obs = [pv_obs(7)]
                t = Tree.load(io.StringIO(json.dumps(doc)), mapper=cb)
                n = t.first_child()
                res = n.data
                did_obs = [pv_obs(n.data_id)]
        except Exception as e:  # noqa: BLE001
            err = e
        if cb.calls != 1:
            raise AssertionError(f"site {site}: the mapper was called {cb.calls} times")
        return cb.data, [[k, enc_of(v)] for k, v in cb.before.items()], res, err, did_obs

    # the statement, on the real objects --------------------------------------------------------------------------
    def oracle(self, desc, cb, data, before, res, err):
        if cb is None:
            if res is not data:
                return "call_mapper: without a mapper the dict itself must come back"
            if dict_obs(data) != [[k, pv_obs(val_of(v))] for k, v in before]:
                return "call_mapper: without a mapper the dict must be untouched"
            return None
        exp = spec_pairs(before, desc["body"])
        if dict_obs(data) != [[k, pv_obs(val_of(v))] for k, v in exp]:
            return f"call_mapper: content of the dict after the callback: {dict_obs(data)}, specified {exp}"
        ret = desc["ret"]
        if isinstance(ret, list) and ret[0] == "raise":
            if err is None or not isinstance(err, ERR_CLS[ret[1]]):
                return f"call_mapper: the callback's exception must propagate (got {res!r})"
            return None
        if err is not None:
            return f"call_mapper: raised {type(err).__name__}"
        if cb.returned is None:
            if res is not data:
                return f"call_mapper: the callback returned None, so the (mutated) dict must be used, got {res!r}"
        elif res is not cb.returned:
            return f"call_mapper: the callback returned {cb.returned!r} (not None), which must be used as is, got {res!r}"
        return None


MAPPER = MapperPart()


# ---------------------------------------------------------------------------------------------------------------------
# WRAP: common.DictWrapper
# ---------------------------------------------------------------------------------------------------------------------
#: ops of a script (indices refer to the dict / wrapper objects in allocation order):
#:   ["newdict", pairs]  ["wrap", None|"none"|["d",di]|["other",kind], pairs]  ["set",wi,k,v]  ["get",wi,k]  ["setd",di,k,v]
#:   ["eq",wi,wj]  ["eqdict",wi]  ["hash",wi]  ["repr",wi]  ["ser",wi]  ["deser",di]
NON_DICTS = {"list": [], "str": "", "int0": 0, "tuple": (), "false": False, "pairs": [("a", 1)], "set": set()}


def wop_coq(o) -> str:
    k = o[0]
    if k == "newdict":
        return f"(ONewDict {dict_coq(o[1])})"
    if k == "wrap":
        a = o[1]
        arg = "CNone" if a in (None, "none") else f"(CDict {a[1]})" if a[0] == "d" else "COther"
        return f"(OWrap {arg} {dict_coq(o[2])})"
    if k == "set":
        return f"(OSet {o[1]} {H.coq_text(o[2])} {pv_coq(o[3])})"
    if k == "get":
        return f"(OGet {o[1]} {H.coq_text(o[2])})"
    if k == "setd":
        return f"(OSetDirect {o[1]} {H.coq_text(o[2])} {pv_coq(o[3])})"
    if k == "eq":
        return f"(OEq {o[1]} {o[2]})"
    return {"eqdict": "OEqDict", "hash": "OHash", "repr": "ORepr", "ser": "OSer", "deser": "ODeser"}[k] + f" {o[1]}"


WRAP_AIMED = [
    # equal-but-distinct dicts; two wrappers of one dict
    [["newdict", [["a", 1]]], ["newdict", [["a", 1]]], ["wrap", ["d", 0], []], ["wrap", ["d", 1], []], ["wrap", ["d", 0], []],
     ["eq", 0, 1], ["eq", 0, 2], ["eq", 1, 1], ["eqdict", 0], ["hash", 0], ["hash", 1], ["hash", 2],
     ["set", 2, "b", 5], ["get", 0, "b"], ["get", 1, "b"], ["setd", 1, "c", None], ["get", 1, "c"], ["get", 0, "c"]],
    # an EMPTY dict passed positionally is wrapped by reference, not replaced
    [["newdict", []], ["wrap", ["d", 0], []], ["set", 0, "k", {"t": []}], ["wrap", ["d", 0], []], ["get", 1, "k"], ["eq", 0, 1],
     ["wrap", None, []], ["wrap", "none", []], ["eq", 2, 3], ["eq", 0, 2], ["repr", 0], ["repr", 2]],
    # constructor refusals: non-dicts (falsy ones included), dict + keywords
    [["newdict", [["a", 1]]]] + [["wrap", ["other", k], []] for k in NON_DICTS] + [["wrap", ["other", "int0"], [["a", 1]]],
     ["wrap", ["d", 0], [["b", 2]]], ["wrap", ["d", 0], []], ["get", 0, "b"], ["get", 0, "a"], ["wrap", ["other", "wrapper"], []]],
    # keyword names that collide with the parameter names (positional-only `dict_inst`)
    [["wrap", None, [["dict_inst", 1], ["self", 2], ["values", {"d": []}], ["cls", None]]], ["get", 0, "dict_inst"], ["get", 0, "self"],
     ["repr", 0], ["ser", 0], ["deser", 1], ["get", 1, "dict_inst"], ["eq", 0, 1], ["wrap", "none", [["dict_inst", {"d": [["x", 1]]}]]], ["repr", 2]],
    # mapper pair: copy out, build back, independence of the three dict objects
    [["wrap", None, [["a", 1], ["t", "x"]]], ["ser", 0], ["deser", 1], ["eq", 0, 1], ["set", 1, "a", 2], ["get", 0, "a"], ["setd", 1, "z", 0],
     ["get", 0, "z"], ["get", 1, "z"], ["ser", 1], ["hash", 0], ["hash", 1], ["repr", 1]],
    # repr of awkward strings
    [["wrap", None, [["q", "it's"], ["d", 'say "hi"'], ["b", "a\\b"], ["n", "l1\nl2\t."], ["e", ""], ["m", "it's \"x\""], ["c", "\x01\x7f"]]],
     ["repr", 0], ["wrap", None, [["t1", {"t": [1]}], ["t0", {"t": []}], ["t2", {"t": [1, "a"]}], ["l", {"l": [None, {"b": True}, -12]}],
                                 ["o", {"o": "Decimal('0')"}], ["neg", -7], ["big", 12345678901234567890]]], ["repr", 1]],
]
WKEYS = ["a", "b", "k", "dict_inst", "it's", ""]
WVALS = [0, 1, -5, "", "x", "it's", None, {"b": True}, {"b": False}, {"t": []}, {"t": [1]}, {"l": [1, "a"]}, {"d": [["k", 0]]}, {"o": "0.0"}, {"o": "P1"}]


def random_wrap_script(rng, n):
    ops, nd, nw = [], 0, 0
    for _ in range(n):
        ch = rng.random()
        pairs = [[k, rng.choice(WVALS)] for k in rng.sample(WKEYS, rng.randint(0, 3))]
        if nd == 0 or ch < 0.12:
            ops.append(["newdict", rng.choice([pairs, [], [["a", 1]]])])
            nd += 1
        elif ch < 0.32 or nw == 0:
            a = rng.choice([None, "none", ["d", rng.randrange(nd)], ["d", rng.randrange(nd)], ["d", rng.randrange(nd)], ["other", rng.choice(list(NON_DICTS))]])
            if a not in (None, "none") and rng.random() < 0.8:
                pairs = []
            ops.append(["wrap", a, pairs])
            if a in (None, "none"):
                nd += 1
                nw += 1
            elif a[0] == "d" and not pairs:
                nw += 1
        elif ch < 0.47:
            ops.append(["set", rng.randrange(nw), rng.choice(WKEYS), rng.choice(WVALS)])
        elif ch < 0.57:
            ops.append(["get", rng.randrange(nw), rng.choice(WKEYS)])
        elif ch < 0.63:
            ops.append(["setd", rng.randrange(nd), rng.choice(WKEYS), rng.choice(WVALS)])
        elif ch < 0.75:
            ops.append(["eq", rng.randrange(nw), rng.randrange(nw)])
        elif ch < 0.78:
            ops.append(["eqdict", rng.randrange(nw)])
        elif ch < 0.83:
            ops.append(["hash", rng.randrange(nw)])
        elif ch < 0.88:
            ops.append(["repr", rng.randrange(nw)])
        elif ch < 0.94:
            ops.append(["ser", rng.randrange(nw)])
            nd += 1
        else:
            ops.append(["deser", rng.randrange(nd)])
            nd += 1
            nw += 1
    return ops


class WrapPart:
    tag = "WRAP"
    case_module = "CaseMiscWrap"
    case_vo = "theories/Cases/CaseMiscWrap.vo"
    run_fn = "run_misc_wrap"
    rule = ("common.DictWrapper: scripts over dict and wrapper objects (new dict, DictWrapper(None|dict|non-dict, **kw) incl. an empty "
            "dict passed positionally, falsy non-dicts, keyword names dict_inst/self/values/cls, w[k]=v, w[k], d[k]=v behind the wrapper, "
            "==, == with the dict itself, hash, repr, serialize_mapper through Tree.to_list_iter, deserialize_mapper); 6 aimed scripts + "
            "seeded random scripts of 4..14 ops; after the script: every dict's content, every wrapper's dict, the full == matrix, hashes, "
            "and data_id / clone groups of one node per wrapper in a real tree; oracle on object identity (`is`, id())")

    def descs(self, tier, rng):
        for s in WRAP_AIMED:
            yield dict(ops=s)
        for _ in range(90 if tier == "quick" else 1500):
            yield dict(ops=random_wrap_script(rng, rng.randint(4, 14)))

    def shrink_candidates(self, desc):
        # dropping an op shifts indices: only trailing ops are dropped
        if len(desc["ops"]) > 1:
            yield dict(ops=desc["ops"][:-1])

    def run(self, desc) -> Case:
        dicts, wraps, results, fails = [], [], [], []

        def bad(msg):
            fails.append(msg)

        def snapshot():
            return [list(d.items()) for d in dicts]

        for o in desc["ops"]:
            k = o[0]
            before = snapshot()
            touched = None
            try:
                if k == "newdict":
                    dicts.append({kk: val_of(v) for kk, v in o[1]})
                    results.append([0, len(dicts) - 1])
                elif k == "wrap":
                    kw = {kk: val_of(v) for kk, v in o[2]}
                    a = o[1]
                    if a is None:
                        w = DictWrapper(**kw)
                    elif a == "none":
                        w = DictWrapper(None, **kw)
                    elif a[0] == "d":
                        w = DictWrapper(dicts[a[1]], **kw)
                    else:
                        arg = (wraps[0] if wraps else DictWrapper()) if a[1] == "wrapper" else NON_DICTS[a[1]]
                        w = DictWrapper(arg, **kw)
                    if a in (None, "none"):
                        if any(w._dict is d for d in dicts):
                            bad("DictWrapper(**kw): the wrapped dict must be a new object")
                        if list(w._dict.items()) != list(kw.items()):
                            bad("DictWrapper(**kw): the wrapped dict must hold exactly the keywords")
                        dicts.append(w._dict)
                    elif a[0] == "d":
                        if w._dict is not dicts[a[1]]:
                            bad("DictWrapper(d): must hold a reference to that very dict (an empty one included)")
                        if kw:
                            bad("DictWrapper(d, **kw) must raise ValueError")
                    else:
                        bad("DictWrapper(<not a dict>) must raise TypeError")
                        dicts.append(w._dict)
                    wraps.append(w)
                    results.append([1, len(wraps) - 1])
                elif k == "set":
                    w = wraps[o[1]]
                    touched = next(i for i, d in enumerate(dicts) if d is w._dict)
                    w[o[2]] = val_of(o[3])
                    results.append([2])
                    for j, w2 in enumerate(wraps):
                        if w2._dict is w._dict and (o[2] not in w2._dict or w2[o[2]] is not w._dict[o[2]]):
                            bad(f"w[k] = v is not visible through wrapper {j} of the same dict")
                elif k == "get":
                    results.append([3, pv_obs(wraps[o[1]][o[2]])])
                elif k == "setd":
                    touched = o[1]
                    dicts[o[1]][o[2]] = val_of(o[3])
                    results.append([2])
                elif k == "eq":
                    r = wraps[o[1]] == wraps[o[2]]
                    if (wraps[o[1]] != wraps[o[2]]) == r:
                        bad("== and != agree")
                    results.append([4, r])
                elif k == "eqdict":
                    results.append([4, wraps[o[1]] == wraps[o[1]]._dict])
                elif k == "hash":
                    results.append([5, hash(wraps[o[1]])])
                elif k == "repr":
                    r = repr(wraps[o[1]])
                    if r != "DictWrapper<" + str(wraps[o[1]]._dict) + ">":
                        bad(f"repr: {r}")
                    results.append([6, r])
                elif k == "ser":
                    w = wraps[o[1]]
                    t = Tree("ser")
                    t.add(w)
                    rows = list(t.to_list_iter(mapper=DictWrapper.serialize_mapper))
                    r = rows[0][1]
                    if not isinstance(r, dict) or any(r is d for d in dicts) or list(r.items()) != list(w._dict.items()):
                        bad("serialize_mapper: must hand out a new dict with the content of the wrapped dict")
                    dicts.append(r)
                    results.append([0, len(dicts) - 1])
                elif k == "deser":
                    src = dicts[o[1]]
                    w = DictWrapper.deserialize_mapper(None, src)
                    if not isinstance(w, DictWrapper) or any(w._dict is d for d in dicts) or list(w._dict.items()) != list(src.items()):
                        bad("deserialize_mapper: must build a wrapper of a NEW dict with the content of `data`")
                    if any(w == w2 for w2 in wraps):
                        bad("deserialize_mapper: the new wrapper equals an existing one")
                    dicts.append(w._dict)
                    wraps.append(w)
                    results.append([1, len(wraps) - 1])
            except Exception as e:  # noqa: BLE001
                results.append([-1, H.err_class(e)])
                if k == "wrap" and o[1] not in (None, "none"):
                    want = TypeError if o[1][0] == "other" else ValueError
                    if not isinstance(e, want) or (o[1][0] == "d" and not o[2]):
                        bad(f"DictWrapper({o[1]}, **{o[2]}): {type(e).__name__}")
                elif not (k == "get" and isinstance(e, KeyError) and o[2] not in wraps[o[1]]._dict):
                    bad(f"{o}: unexpected {type(e).__name__}: {e}")
            # frame: only the dict written to may change
            after = snapshot()
            for i, b in enumerate(before):
                if i != touched and after[i] != b:
                    bad(f"{o}: the content of dict {i} changed")
        # ---- final dump
        def didx(d):
            return next((i for i, x in enumerate(dicts) if x is d), -1)

        tree = Tree("W")
        nodes = []
        for i, w in enumerate(wraps):
            nodes.append(tree.add(f"p{i}").add(w))
        eqm = [[a == b for b in wraps] for a in wraps]
        dump = [[dict_obs(d) for d in dicts], [didx(w._dict) for w in wraps], eqm, [hash(w) for w in wraps],
                [n.data_id for n in nodes], [[j for j, m in enumerate(nodes) if any(m is c for c in n.get_clones(add_self=True))] for n in nodes]]
        # ---- the statement on the real objects
        for i, a in enumerate(wraps):
            if hash(a) != id(a._dict):
                bad(f"hash(w{i}) is not the identity of its dict")
            if nodes[i].data_id != id(a._dict):
                bad(f"data_id of the node holding w{i} is not the identity of its dict")
            for j, b in enumerate(wraps):
                same = a._dict is b._dict
                if eqm[i][j] != same:
                    bad(f"w{i} == w{j} is {eqm[i][j]} but they {'do' if same else 'do not'} wrap the same dict object")
                if (nodes[j] in [c for c in nodes if any(c is x for x in nodes[i].get_clones(add_self=True))]) != same:
                    bad(f"nodes of w{i}, w{j}: clones iff same dict violated")
        addrs = [id(d) for d in dicts]
        coq = f"(({H.coq_list(H.z(a) for a in addrs)}, {H.coq_list(wop_coq(o) for o in desc['ops'])}) : list Z * list MiscWrap.op)"
        kinds = sorted({o[0] for o in desc["ops"]})
        return Case(desc=desc, coq_input=coq, impl_obs=[results, dump], oracle_fail=("DictWrapper: " + fails[0]) if fails else None,
                    nontrivial=len(wraps) >= 2, key=H.digest(desc),
                    stats=dict(wrappers=len(wraps), shared=sum(1 for i in range(len(wraps)) for j in range(i) if wraps[i]._dict is wraps[j]._dict) > 0,
                               kinds=len(kinds)))


WRAP = WrapPart()


# ---------------------------------------------------------------------------------------------------------------------
# NODEMISC: Node.path / get_children / is_system_root / __repr__, Tree.__eq__ / system_root / len / count / bool /
#           first_child / last_child / __repr__ / get_random_node, TypedNode.__repr__
# ---------------------------------------------------------------------------------------------------------------------
import contextlib  # noqa: E402

import build as B  # noqa: E402
import nav_hist as NH  # noqa: E402
import nutree.tree as _nutree_tree  # noqa: E402
from common import ANY_KIND  # noqa: E402


class MyTree(Tree):
    """a subclass: __repr__ must print ITS class name"""


class MyTypedTree(TypedTree):
    pass


TREE_CLASSES = {"Tree": Tree, "TypedTree": TypedTree, "MyTree": MyTree, "MyTypedTree": MyTypedTree}


class StreamRandom:
    """stands in for the module object `random` inside nutree.tree: choice(seq) = seq[next draw mod len(seq)]"""

    def __init__(self, draws):
        self.draws = list(draws)
        self.calls = []

    def choice(self, seq):
        d = self.draws.pop(0)
        self.calls.append(list(seq))
        if not len(seq):
            raise IndexError("Cannot choose from an empty sequence")
        return seq[d % len(seq)]


@contextlib.contextmanager
def patched_random(stream):
    old = _nutree_tree.random
    _nutree_tree.random = stream
    try:
        yield stream
    finally:
        _nutree_tree.random = old


def _err(fn):
    try:
        return fn()
    except Exception as e:  # noqa: BLE001
        return ("ERR", H.err_class(e), e)


def unique_siblings(nodes, univ, path="u"):
    """generator hygiene: the library refuses two siblings with one data_id, so a generated sibling list never holds two
    nodes whose (data, explicit data_id) pairs would give the same data_id: equal-comparing data without an explicit id
    (equal universe specs; identity-hashed `p:`/`w:` objects: the same universe entry), or the same explicit id.  The
    later one gets a fresh explicit str id.  Deterministic; applied inside descs(), so the desc stays the replay."""
    seen = set()
    out = []
    for j, (lbl, kind, did, kids) in enumerate(nodes):
        spec = univ[lbl % len(univ)]
        if did is not None:
            key = ("id", type(did).__name__, did)
        elif spec[:2] == "i:":
            key = ("id", "int", int(spec[2:]))          # hash(n) == n for the small ints of the universes
        elif spec[:2] in ("p:", "w:"):
            key = ("obj", lbl % len(univ))
        else:
            key = ("val", spec)
        if key in seen:
            did = f"{path}{j}"
            key = ("id", "str", did)
        seen.add(key)
        out.append([lbl, kind, did, unique_siblings(kids, univ, f"{path}{j}_")])
    return out


NM_UNIV = ["s:a", "s:it's", "s:q\"d", "s:back\\slash", "s:", "s:x y", "i:7", "i:-3", "e:1", "t:1,2", "s:tab\there", "s:both'\"", "p:4", "s:a"]
NM_TREE_NAMES = ["T", "it's", "a\"b", "", "x\\y", "both'\""]


class NodeMiscPart:
    tag = "NODEMISC"
    case_module = "CaseMiscNode"
    case_vo = "theories/Cases/CaseMiscNode.vo"
    run_fn = "run_misc_node"
    rule = ("node/tree miscellany: every ordered forest with <= 4 nodes (5 thorough) + seeded random trees up to 10 nodes, plain and "
            "typed, incl. the empty tree, trees reached through creation orders / histories (registry order differs from pre-order), "
            "names and tree names with quotes, backslashes, control characters and the empty string, int / str / negative data_ids, "
            "Tree subclasses; on the system root and every node: is_system_root, children, repr, path, get_children; Tree.__eq__/__ne__ "
            "with 7 arguments, len/count/bool, first/last child, repr, system_root; get_random_node under a stream reader for the "
            "draws 0..n+1, -1 and two large ones (every node must come exactly once for 0..n-1); oracle by pointer walks and identity")

    def descs(self, tier, rng):
        nmax = 4 if tier == "quick" else 5
        yield dict(typed=False, univ=NM_UNIV, nodes=[], cls="Tree", name="T")
        yield dict(typed=True, univ=NM_UNIV, nodes=[], cls="TypedTree", name="it's")
        k = 0
        for n in range(1, nmax + 1):
            for shape in H.forests(n):
                for typed in (False, True):
                    k += 1
                    nodes = B.shape_to_nodes(shape, lambda i, d, s, k=k: ((i * 5 + k) % len(NM_UNIV), ["a", "b b", "it's"][(i + k) % 3] if typed else None,
                                                                        [None, f"id{i}", 100 + i, "it's", -5 - i][(i + k) % 5] if (i + k) % 2 else None))
                    nodes = unique_siblings(nodes, NM_UNIV)
                    yield dict(typed=typed, univ=NM_UNIV, nodes=nodes, cls=("My" if k % 3 == 0 else "") + ("TypedTree" if typed else "Tree"),
                               name=NM_TREE_NAMES[k % len(NM_TREE_NAMES)])
        for j in range(50 if tier == "quick" else 600):
            n = rng.randint(2, 10)
            typed = rng.random() < 0.4
            shape = H.random_shape(rng, n, deep=rng.choice([0.2, 0.5, 0.8]))
            nodes = B.shape_to_nodes(shape, lambda i, d, s: (rng.randrange(len(NM_UNIV)), rng.choice(["a", "b b", "it's"]) if typed else None, f"id{i}"))
            nodes = unique_siblings(nodes, NM_UNIV)
            d = dict(typed=typed, univ=NM_UNIV, nodes=nodes)
            if j % 2:
                yield dict(d, order_seed=rng.randrange(10 ** 6), hist=NH.random_hist(rng, n, len(NM_UNIV), typed, rng.randint(0, 4)))
            else:
                yield dict(d, cls=rng.choice(["My", ""]) + ("TypedTree" if typed else "Tree"), name=rng.choice(NM_TREE_NAMES))

    def shrink_candidates(self, desc):
        if "hist" in desc:
            yield from NH.shrink_hist(desc)
        else:
            for nodes in B.drop_one_node(desc["nodes"]):
                yield dict(desc, nodes=nodes)

    def run(self, desc) -> Case:
        typed = bool(desc.get("typed"))
        tree = None
        if "hist" in desc:
            try:
                tree, U, _objs, _sh, _errors = NH.build_hist(desc)
            except Exception:  # noqa: BLE001   (a clash inside the generated labelling: the plain build below keeps what can be built)
                tree = None
        if tree is None:
            U = B.make_universe(desc["univ"])
            tree = TREE_CLASSES[desc.get("cls") or ("TypedTree" if typed else "Tree")](desc.get("name", "T"))
            try:
                B.add_nodes(tree._root, desc["nodes"], U, typed)
            except Exception:  # noqa: BLE001   (refused by the library: the tree built so far is the case)
                pass
        root = tree._root
        nodes = B.all_nodes(root)
        n = len(nodes)
        fails = []

        def ids(l):
            return [H.nid(x) for x in l]

        def txt(x):
            return [-1, x[1]] if isinstance(x, tuple) and x and x[0] == "ERR" else x

        ent_obs = []
        for e in [tree.system_root] + nodes:
            extra = []
            if e is not root:
                gc = _err(lambda: e.get_children(ANY_KIND) if typed else e.get_children())
                extra = [txt(_err(lambda: e.path)), ids(gc) if isinstance(gc, list) else txt(gc)]
                if not (isinstance(gc, list) and len(gc) == len(e._children or []) and all(a is b for a, b in zip(gc, e._children or []))):
                    fails.append(f"get_children of node {H.nid(e)} is not its child list")
                # path: "/" + "/".join(names up the _parent chain)
                chain, p = [], e
                while p._parent is not None:
                    chain.append(f"{p._data}")
                    p = p._parent
                if extra[0] != "/" + "/".join(reversed(chain)):
                    fails.append(f"path of node {H.nid(e)}: {extra[0]!r}")
            isr = _err(lambda: e.is_system_root())
            if isr is not (e is root):
                fails.append(f"is_system_root() of {'the system root' if e is root else 'node %d' % H.nid(e)} answers {isr!r}")
            r = _err(lambda: repr(e))
            # the documented text, from the attributes
            if typed:
                want = f"{type(e).__name__}<kind={e._kind}, {e._data}, data_id={e._data_id!r}>"
            else:
                want = f"{type(e).__name__}<{str(e._data)!r}, data_id={e._data_id}>"
            if r != want:
                fails.append(f"repr: {r!r}, documented {want!r}")
            ent_obs.append([txt(isr), ids(e.children), txt(r), extra])
        if tree.system_root is not root or root._parent is not None:
            fails.append("system_root is not the root object")
        # ---- tree level
        other = Tree("other")
        eq_args = [None, tree, other, 0, "T", (nodes[0] if nodes else root), [tree]]
        eq_obs = [-1, 5]
        for a in eq_args:
            for op, f in (("==", lambda: tree == a), ("!=", lambda: tree != a)):
                x = _err(f)
                if not (isinstance(x, tuple) and x[0] == "ERR" and isinstance(x[2], NotImplementedError)):
                    fails.append(f"tree {op} {a!r} must raise NotImplementedError, got {x!r}")
                    eq_obs = txt(x) if isinstance(x, tuple) else bool(x)
        ln, cnt, bl = len(tree), tree.count, bool(tree)
        if not (ln == cnt == n) or bl != (n > 0):
            fails.append(f"len={ln} count={cnt} bool={bl} for a tree with {n} reachable nodes")
        fc, lc = (tree.first_child(ANY_KIND), tree.last_child(ANY_KIND)) if typed else (tree.first_child(), tree.last_child())
        tl = root._children or []
        if fc is not (tl[0] if tl else None) or lc is not (tl[-1] if tl else None):
            fails.append("Tree.first_child/last_child are not the ends of the top-level list")
        tr = repr(tree)
        if tr != f"{type(tree).__name__}<{tree.name!r}>":
            fails.append(f"repr(tree): {tr}")
        tree_obs = [eq_obs, ln, cnt, bl, [] if fc is None else [H.nid(fc)], [] if lc is None else [H.nid(lc)], tr]
        # ---- get_random_node with `random` replaced by a stream reader
        draws = list(range(n + 2)) + [-1, 10 ** 6 + 3, -(10 ** 9) - 7]
        reg_nodes = list(tree._node_by_id.values())
        rnd_obs = []
        got = []
        for d in draws:
            with patched_random(StreamRandom([d])) as st:
                x = _err(lambda: tree.get_random_node())
            if isinstance(x, tuple):
                rnd_obs.append([-1, x[1]])
                if n > 0 or not isinstance(x[2], IndexError):
                    fails.append(f"get_random_node raised {type(x[2]).__name__} on a tree with {n} nodes")
            else:
                rnd_obs.append(H.nid(x))
                got.append(x)
                if not any(x is y for y in nodes):
                    fails.append("get_random_node returned an object that is not a node of the tree")
                elif len(st.calls) != 1 or x is not reg_nodes[d % n]:
                    fails.append(f"get_random_node with draw {d}: not the node at position {d % n} of the registry")
        if n and sorted(H.nid(x) for x in got[:n]) != sorted(ids(nodes)):
            fails.append("get_random_node: the draws 0..n-1 do not reach every node exactly once")
        # the real random module: always a node of the tree / IndexError when empty
        for _ in range(3):
            x = _err(lambda: tree.get_random_node())
            if n == 0:
                if not (isinstance(x, tuple) and isinstance(x[2], IndexError)):
                    fails.append("get_random_node on an empty tree must raise IndexError")
            elif isinstance(x, tuple) or not any(x is y for y in nodes):
                fails.append("get_random_node (real random) did not return a node of the tree")
        # ---- Node.__eq__ / hash(node): == compares the data objects, nodes are unhashable
        eqm = [[txt(_err(lambda a=a, b=b: a == b)) for b in nodes] for a in nodes]
        for i, a in enumerate(nodes):
            for j, b in enumerate(nodes):
                want = a._data == b._data
                if eqm[i][j] is not want or (a != b) is want:
                    fails.append(f"node {H.nid(a)} == node {H.nid(b)} answers {eqm[i][j]!r}, the data objects compare {want}")
        own = [txt(_err(lambda a=a: a == a._data)) for a in nodes]
        if any(x is not True for x in own):
            fails.append("a node does not equal its own data object")
        hs = _err(lambda: hash(nodes[0] if nodes else root))
        if not (isinstance(hs, tuple) and isinstance(hs[2], TypeError)):
            fails.append(f"hash(node) = {hs!r}: a class with __eq__ and without __hash__ is unhashable")
        eq_node_obs = [eqm, own, txt(hs) if isinstance(hs, tuple) else hs]
        names = [type(nodes[0]).__name__ if nodes else ("TypedNode" if typed else "Node"), type(root).__name__, type(tree).__name__, tree.name]
        coq = (f"(MC {H.coq_forest(root, U)} {H.coq_list(H.z(H.nid(x)) for x in reg_nodes)} {H.coq_list(H.z(d) for d in draws)} "
               f"{H.coq_bool(typed)} {H.coq_list(H.coq_text(s) for s in names)})")
        return Case(desc=desc, coq_input=coq, impl_obs=[ent_obs, tree_obs, rnd_obs, eq_node_obs], oracle_fail=("misc: " + fails[0]) if fails else None,
                    nontrivial=n >= 1, key=H.digest(desc),
                    stats=dict(nodes=n, reg_is_preorder=ids(reg_nodes) == ids(nodes), typed=typed))


NODEMISC = NodeMiscPart()


# ---------------------------------------------------------------------------------------------------------------------
# REMOVED: what Tree._unregister(clear=True) leaves on a removed node; every public accessor of a removed node
# ---------------------------------------------------------------------------------------------------------------------
RM_UNIV = ["s:a", "s:b", "s:it's", "i:7", "e:1", "e:1", "s:c", "p:3", "s:a"]


def _ans(fn, lid):
    """one accessor call -> observation (mirror of MiscRemoved.sx_ans) + the raw value (for the oracle)"""
    from nutree import Node as _Node
    try:
        v = fn()
    except Exception as e:  # noqa: BLE001
        return [-1, H.err_class(e)], e
    if v is None:
        return [0], v
    if isinstance(v, bool):
        return [1, v], v
    if isinstance(v, int):
        return [2, v], v
    if isinstance(v, str):
        return [3, v], v
    if isinstance(v, _Node):
        return [5, lid(v)], v
    if isinstance(v, (list, tuple)):
        return [6, [lid(x) for x in v]], v
    if isinstance(v, Tree):
        return [7], v
    return [9, str(v)], v


def removed_probes(n, typed, others):
    """the accessor calls, in the order of CaseMiscRemoved.accs"""
    P = [lambda: n.name, lambda: n.data, lambda: n.data_id, lambda: n.node_id, lambda: n.meta, lambda: n.tree,
         (lambda: n.kind) if typed else (lambda: None),
         lambda: n.parent, lambda: n.children, lambda: n.is_system_root(), lambda: n.is_top(), lambda: n.is_leaf(), lambda: n.is_clone(),
         lambda: n.depth(), lambda: n.calc_depth(), lambda: n.calc_height(), lambda: n.count_descendants(),
         lambda: n.count_descendants(leaves_only=True), lambda: list(n.iterator()), lambda: list(n.iterator(add_self=True)), lambda: n.get_top(),
         lambda: n.get_parent_list(), lambda: n.get_parent_list(add_self=True), lambda: n.get_parent_list(bottom_up=True),
         lambda: n.get_parent_list(add_self=True, bottom_up=True),
         lambda: n.path, lambda: n.get_path(), lambda: n.get_path(add_self=False), lambda: n.up(), lambda: n.up(0), lambda: n.up(2),
         lambda: n.get_meta("k"), lambda: n.get_clones(), lambda: n.get_clones(add_self=True), lambda: repr(n)]
    if not typed:
        P += [lambda: n.get_children(), lambda: n.first_child(), lambda: n.last_child(), lambda: n.has_children(), lambda: n.is_first_sibling(),
              lambda: n.is_last_sibling(), lambda: n.get_siblings(), lambda: n.get_siblings(add_self=True), lambda: n.first_sibling(),
              lambda: n.last_sibling(), lambda: n.prev_sibling(), lambda: n.next_sibling(), lambda: n.get_index()]
    for o in others:
        P += [lambda o=o: n.is_descendant_of(o), lambda o=o: n.is_ancestor_of(o), lambda o=o: n.get_common_ancestor(o)]
    return P


class RemovedPart:
    tag = "REMOVED"
    case_module = "CaseMiscRemoved"
    case_vo = "theories/Cases/CaseMiscRemoved.vo"
    run_fn = "run_misc_removed"
    rule = ("removed nodes: plain and typed trees (all forests <= 4 nodes with clones + seeded random trees up to 9 nodes, metadata on every "
            "second node) x one removal route on every node: remove, remove(keep_children), remove_children, remove(with_clones), "
            "Tree.clear, del tree[data], in-place filter; every node object that left the tree is probed with 48 (plain) / 35 (typed) "
            "accessor calls + is_descendant_of / is_ancestor_of / get_common_ancestor against a live node, a removed node and itself; "
            "the model predicts the slots from the slots BEFORE the removal (clear flag and tag lifted from the source); oracle: raw "
            "slots of the removed object, and no answer mentions a node that is still in the tree")

    def descs(self, tier, rng):
        nmax = 3 if tier == "quick" else 4
        k = 0
        for n in range(1, nmax + 1):
            for shape in H.forests(n):
                for typed in (False, True):
                    k += 1
                    nodes = B.shape_to_nodes(shape, lambda i, d, s, k=k: ((i + d * 3 + k) % len(RM_UNIV), ["a", "b"][(i + k) % 2] if typed else None, None))
                    nodes = unique_siblings(nodes, RM_UNIV)
                    routes = [[r, i] for i in range(n) for r in ("remove", "remove_keep", "remove_children", "remove_clones", "del", "filter")] + [["clear", 0]]
                    if tier == "quick":
                        routes = rng.sample(routes, min(len(routes), 4))
                    for r in routes:
                        yield dict(typed=typed, univ=RM_UNIV, nodes=nodes, route=r)
        for _ in range(60 if tier == "quick" else 800):
            n = rng.randint(3, 9)
            typed = rng.random() < 0.4
            shape = H.random_shape(rng, n, deep=rng.choice([0.3, 0.6, 0.9]))
            nodes = B.shape_to_nodes(shape, lambda i, d, s: (rng.randrange(len(RM_UNIV)), rng.choice(["a", "b"]) if typed else None, None))
            nodes = unique_siblings(nodes, RM_UNIV)
            yield dict(typed=typed, univ=RM_UNIV, nodes=nodes,
                       route=[rng.choice(["remove", "remove", "remove_keep", "remove_children", "remove_clones", "del", "filter", "clear"]), rng.randrange(n)])

    def shrink_candidates(self, desc):
        return []

    def run(self, desc) -> Case:
        import nutree.tree as NT
        typed = bool(desc.get("typed"))
        U = B.make_universe(desc["univ"])
        tree = B.new_tree(desc)
        try:
            B.add_nodes(tree._root, desc["nodes"], U, typed)
        except Exception:  # noqa: BLE001   (a sibling clash in a generated labelling: build what can be built)
            pass
        root = tree._root
        before = B.all_nodes(root)
        local = {id(x): i + 1 for i, x in enumerate(before)}
        local[id(root)] = 0

        def lid(x):
            return local.get(id(x), 999999)

        for i, x in enumerate(before):
            if i % 2:
                x.set_meta("k", 5)
        slots = {}
        for x in before:
            slots[id(x)] = dict(parent=lid(x._parent), children=None if x._children is None else [lid(c) for c in x._children],
                                name=f"{x._data}", did=x._data_id, node_id=x._node_id, meta=x._meta and dict(x._meta), kind=getattr(x, "_kind", None))
        kind, i = desc["route"]
        target = before[i % len(before)] if before else None
        err = None
        try:
            if kind == "clear" or target is None:
                tree.clear()
            elif kind == "remove":
                target.remove()
            elif kind == "remove_keep":
                target.remove(keep_children=True)
            elif kind == "remove_children":
                target.remove_children()
            elif kind == "remove_clones":
                target.remove(with_clones=True)
            elif kind == "del":
                del tree[target.data]
            elif kind == "filter":
                keep = {id(x) for j, x in enumerate(before) if (j + i) % 3 == 0}
                tree.filter(lambda nd: id(nd) in keep)
        except Exception as e:  # noqa: BLE001   (refused: nothing is removed)
            err = e
        live = B.all_nodes(root)
        live_ids = {id(x) for x in live}
        removed = [x for x in before if id(x) not in live_ids]
        others = ([live[0]] if live else []) + ([removed[0], removed[-1]] if removed else [])
        fails = []
        obs = []
        reg = list(tree._node_by_id.values())
        idx = [c for l in tree._nodes_by_data_id.values() for c in l]
        for r in removed:
            # raw slots: what _unregister(clear=True) assigns
            if not (r._parent is None and r._tree is None and r._children is None and r._meta is None and r._data_id is None
                    and r._node_id is None and r._data is NT._DELETED_TAG):
                fails.append(f"removed node {lid(r)}: slots not cleared")
            if any(r is x for x in reg) or any(r is x for x in idx):
                fails.append(f"removed node {lid(r)} is still registered")
            row = []
            for fn in removed_probes(r, typed, others):
                o, v = _ans(fn, lid)
                row.append(o)
                from nutree import Node as _Node
                mentioned = [v] if isinstance(v, _Node) else [x for x in v if isinstance(x, _Node)] if isinstance(v, (list, tuple)) else []
                if any(id(m) in live_ids or m is root for m in mentioned):
                    fails.append(f"an accessor of removed node {lid(r)} returned a node that is still in the tree")
                if isinstance(v, Tree):
                    fails.append(f"removed node {lid(r)} still names its tree")
            obs.append(row)

        def slots_coq(s):
            ch = "None" if s["children"] is None else "(Some " + H.coq_list(f"{c}%nat" for c in s["children"]) + ")"
            meta = "None" if not s["meta"] else f"(Some {H.coq_meta(s['meta'])})"
            return (f"(SL (Some {s['parent']}%nat) (Some 1%nat) {ch} {H.coq_text(s['name'])} (Some {H.coq_did(s['did'])}) (Some {H.z(s['node_id'])}) "
                    f"{meta} {H.coq_opt(s['kind'], H.coq_text)})")

        coq = (f"(RC {H.coq_bool(typed)} {H.coq_text('TypedNode' if typed else 'Node')} "
               f"{H.coq_list(f'({lid(x)}, {lid(x._parent)})' for x in live)} "
               f"{H.coq_list(f'({lid(r)}, {slots_coq(slots[id(r)])})' for r in removed)} {H.coq_list(str(lid(o)) for o in others)})")
        return Case(desc=desc, coq_input=coq, impl_obs=obs, oracle_fail=("removed: " + fails[0]) if fails else None,
                    nontrivial=bool(removed), key=H.digest(desc),
                    stats=dict(route=kind, removed=len(removed), live=len(live), refused=err is not None))


REMOVED = RemovedPart()


# ---------------------------------------------------------------------------------------------------------------------
# PRINT: Tree.print = print(self.format(<same arguments>), file=file)
# ---------------------------------------------------------------------------------------------------------------------
import contextlib as _ctx  # noqa: E402

PR_UNIV = ["s:a", "s: b", "s:\u2502 c", "i:7", "s:e e", "e:1", "t:1,2", "s:`-", "s:", "s:it's", "s:q\"d\\"]
PR_STYLES = [["default"], ["name", "round43"], ["name", "list"], ["name", "ascii11"], ["name", "space2"], ["name", "nope"], ["name", ""],
             ["custom", ["  ", "| ", "`-", "+-"]], ["custom", ["a", "b"]]]
PR_TITLES = [None, False, True, "My \u2514 title", ""]
PR_JOINS = ["\n", ", ", "", "\u2502\n"]


def pr_style_arg(st):
    return None if st[0] == "default" else st[1] if st[0] == "name" else tuple(st[1])


def pr_coq_style(st):
    return "StDefault" if st[0] == "default" else f"(StName {H.coq_text(st[1])})" if st[0] == "name" else f"(StCustom {H.coq_list(H.coq_text(s) for s in st[1])})"


def pr_coq_title(t):
    return "TiDefault" if t is None else "TiFalse" if t is False else "TiTrue" if t is True else f"(TiText {H.coq_text(t)})"


class PrintPart:
    tag = "PRINT"
    case_module = "CaseMiscPrint"
    case_vo = "theories/Cases/CaseMiscPrint.vo"
    run_fn = "run_misc_print"
    rule = ("Tree.print: plain and typed trees (every forest <= 3 nodes, the empty tree, seeded random trees up to 12 nodes) x 8 calls each "
            "drawn from 9 style arguments (names, unknown name -> ValueError, custom tuples, malformed tuple) x 5 title settings x 4 join "
            "strings x file given / sys.stdout, repr default or a format string; stdout is captured; oracle: the text written is "
            "format(<same arguments>) + newline on the requested stream, nothing on the other one, and an exception of format() is the exception of print() with nothing written")

    def descs(self, tier, rng):
        def calls(k):
            return [[rng.choice(PR_STYLES), rng.choice(PR_TITLES), rng.choice(PR_JOINS), rng.random() < 0.5] for _ in range(k)]
        i = 0
        for n in range(0, 4):
            for shape in H.forests(n):
                for typed in (False, True):
                    i += 1
                    nodes = B.shape_to_nodes(shape, lambda k, d, s, i=i: ((k * 5 + i) % len(PR_UNIV), ("k%d" % (k % 2)) if typed else None, f"id{k}"))
                    nodes = unique_siblings(nodes, PR_UNIV)
                    yield dict(typed=typed, univ=PR_UNIV, nodes=nodes, name="T%d" % (i % 3), repr=["fmt", "default"][i % 2],
                               calls=[[["default"], None, "\n", False], [["default"], None, "\n", True]] + calls(6))
        for j in range(25 if tier == "quick" else 300):
            n = rng.randint(3, 12)
            typed = rng.random() < 0.4
            shape = H.random_shape(rng, n, deep=rng.choice([0.2, 0.5, 0.8]))
            nodes = B.shape_to_nodes(shape, lambda k, d, s: (rng.randrange(len(PR_UNIV)), ("k%d" % (k % 2)) if typed else None, f"id{k}"))
            nodes = unique_siblings(nodes, PR_UNIV)
            yield dict(typed=typed, univ=PR_UNIV, nodes=nodes, name="T%d" % (j % 3), repr=["fmt", "default"][j % 2], calls=calls(8))

    def shrink_candidates(self, desc):
        if len(desc["calls"]) > 1:
            for k in range(len(desc["calls"])):
                yield dict(desc, calls=[desc["calls"][k]])
        for nodes in B.drop_one_node(desc["nodes"]):
            yield dict(desc, nodes=nodes)

    def run(self, desc) -> Case:
        import io as _io
        typed = bool(desc.get("typed"))
        U = B.make_universe(desc["univ"])
        tree = (TypedTree if typed else Tree)(desc["name"])
        try:
            B.add_nodes(tree._root, desc["nodes"], U, typed)
        except Exception:  # noqa: BLE001   (refused by the library: the tree built so far is the case)
            pass
        nodes = B.all_nodes(tree._root)
        if desc["repr"] == "fmt":
            rarg = "{node.data}"
            rend = {id(n): f"{n._data}" for n in nodes}
        else:
            rarg = None
            rend = {id(n): (f"{n.kind} \u2192 {n._data}" if typed else f"{n._data!r}") for n in nodes}
        obs, fails = [], []
        for st, title, join, fg in desc["calls"]:
            a = pr_style_arg(st)
            out, fobj = _io.StringIO(), _io.StringIO()
            err = None
            with _ctx.redirect_stdout(out):
                try:
                    r = tree.print(repr=rarg, style=a, title=title, join=join, **({"file": fobj} if fg else {}))
                    if r is not None:
                        fails.append("print returned a value")
                except Exception as e:  # noqa: BLE001
                    err = e
            written, other = (fobj.getvalue(), out.getvalue()) if fg else (out.getvalue(), fobj.getvalue())
            # the statement: print(format(same arguments)) on the requested stream
            try:
                want, werr = tree.format(repr=rarg, style=a, title=title, join=join), None
            except Exception as e:  # noqa: BLE001
                want, werr = None, e
            if other:
                fails.append(f"print wrote to the wrong stream (file given: {fg})")
            if werr is not None:
                if err is None or type(err) is not type(werr) or written:
                    fails.append(f"format raises {type(werr).__name__}; print: {type(err).__name__ if err else 'no exception'}, wrote {written!r}")
            elif err is not None or written != want + "\n":
                fails.append(f"print(style={a!r}, title={title!r}, join={join!r}) wrote {written!r}, format gives {want!r}")
            obs.append([-1, H.err_class(err)] if err is not None else [0, 1 if fg else 0, written])
        # the two default templates on every node (a plain node has no `kind`: AttributeError)
        from nutree import Node as _Node
        from nutree.typed_tree import TypedNode as _TypedNode
        robs = []
        for n in nodes:
            row = []
            for templ in (_Node.DEFAULT_RENDER_REPR, _TypedNode.DEFAULT_RENDER_REPR):
                try:
                    row.append([0, templ.format(node=n)])
                except AttributeError:
                    row.append([-1])
            robs.append(row)
            if row[0] != [0, repr(n._data)] or (typed and row[1] != [0, f"{n._kind} \u2192 {n._data}"]) or (not typed and row[1] != [-1]):
                fails.append(f"default rendering of node {H.nid(n)}: {row}")
        obs = [obs, robs]
        rends = H.coq_list(f"({H.nid(n)}, {H.coq_text(rend[id(n)])})" for n in nodes)
        reprs = H.coq_list(f"({H.nid(n)}, {H.coq_text(repr(n._data))})" for n in nodes if not (isinstance(n._data, str) and n._data.isascii()))
        calls = H.coq_list(f"({pr_coq_style(st)}, {pr_coq_title(t)}, {H.coq_text(j)}, {H.coq_bool(fg)})" for st, t, j, fg in desc["calls"])
        coq = f"(PC {H.coq_forest(tree._root, U)} {rends} {H.coq_text('TypedTree' if typed else 'Tree')} {H.coq_text(desc['name'])} {calls} {reprs})"
        return Case(desc=desc, coq_input=coq, impl_obs=obs, oracle_fail=("print: " + fails[0]) if fails else None,
                    nontrivial=len(nodes) >= 1, key=H.digest(desc),
                    stats=dict(nodes=len(nodes), typed=typed, errors=sum(1 for o in obs[0] if o[0] == -1)))


PRINT = PrintPart()


# ---------------------------------------------------------------------------------------------------------------------
# MERMAIDDEF: to_mermaid_flowchart called without options (the defaults of the signatures, mermaid.DEFAULT_DIRECTION)
# ---------------------------------------------------------------------------------------------------------------------
MD_UNIV = ["s:a", "s:b", "e:1", "e:1", "i:7", "s:c d", "s:a"]


class MermaidDefaultsPart:
    tag = "MERMAIDDEF"
    case_module = "CaseMiscMermaid"
    case_vo = "theories/Cases/CaseMiscMermaid.vo"
    run_fn = "run_misc_mermaid"
    rule = ("to_mermaid_flowchart(stream) with NO keyword argument, through Tree and through every node (plain and typed trees: every "
            "forest <= 3 nodes with clones, seeded random trees up to 9 nodes); oracle: identical to the call with every default spelled "
            "out (direction = mermaid.DEFAULT_DIRECTION) and line 8 is 'flowchart ' + DEFAULT_DIRECTION")

    def descs(self, tier, rng):
        i = 0
        for n in range(0, 4):
            for shape in H.forests(n):
                for typed in (False, True):
                    i += 1
                    nodes = B.shape_to_nodes(shape, lambda k, d, s, i=i: ((k * 3 + i) % len(MD_UNIV), ("k%d" % (k % 2)) if typed else None, None))
                    nodes = unique_siblings(nodes, MD_UNIV)
                    yield dict(typed=typed, univ=MD_UNIV, nodes=nodes)
        for _ in range(15 if tier == "quick" else 200):
            n = rng.randint(3, 9)
            typed = rng.random() < 0.4
            shape = H.random_shape(rng, n, deep=rng.choice([0.2, 0.5, 0.8]))
            nodes = B.shape_to_nodes(shape, lambda k, d, s: (rng.randrange(len(MD_UNIV)), ("k%d" % (k % 2)) if typed else None, None))
            nodes = unique_siblings(nodes, MD_UNIV)
            yield dict(typed=typed, univ=MD_UNIV, nodes=nodes)

    def shrink_candidates(self, desc):
        for nodes in B.drop_one_node(desc["nodes"]):
            yield dict(desc, nodes=nodes)

    def run(self, desc) -> Case:
        import io as _io
        import nutree.mermaid as NM
        typed = bool(desc.get("typed"))
        U = B.make_universe(desc["univ"])
        tree = B.new_tree(desc)
        try:
            B.add_nodes(tree._root, desc["nodes"], U, typed)
        except Exception:  # noqa: BLE001   (sibling clash of a generated labelling: keep what was built)
            pass
        nodes = B.all_nodes(tree._root)
        fails, obs = [], []
        for st in [None] + nodes:
            buf, buf2 = _io.StringIO(), _io.StringIO()
            try:
                if st is None:
                    tree.to_mermaid_flowchart(buf)
                    tree.to_mermaid_flowchart(buf2, as_markdown=True, direction=NM.DEFAULT_DIRECTION, title=True, format=None, mmdc_options=None,
                                              add_root=True, unique_nodes=True, headers=None, node_mapper=None, edge_mapper=None)
                else:
                    st.to_mermaid_flowchart(buf)
                    st.to_mermaid_flowchart(buf2, as_markdown=True, direction=NM.DEFAULT_DIRECTION, title=True, format=None, mmdc_options=None,
                                            add_self=True, unique_nodes=True, headers=None, node_mapper=None, edge_mapper=None)
            except Exception as e:  # noqa: BLE001
                fails.append(f"the default call raised {type(e).__name__}: {e}")
                obs.append(-1)
                continue
            text = buf.getvalue()
            if text != buf2.getvalue():
                fails.append("the call without options differs from the call with the documented defaults spelled out")
            lines = text[:-1].split("\n") if text.endswith("\n") else text.split("\n")
            if len(lines) < 8 or lines[7] != "flowchart " + NM.DEFAULT_DIRECTION or lines[0] != "```mermaid" or lines[-1] != "```":
                fails.append(f"default chart: head {lines[:8]!r}")
            obs.append(lines)
        coq = f"(({H.coq_rt(tree._root, U)}, {H.coq_list(H.z(0 if s is None else H.nid(s)) for s in [None] + nodes)}) : rt * list Z)"
        return Case(desc=desc, coq_input=coq, impl_obs=obs, oracle_fail=("mermaid defaults: " + fails[0]) if fails else None,
                    nontrivial=len(nodes) >= 1, key=H.digest(desc), stats=dict(nodes=len(nodes), typed=typed))


MERMAIDDEF = MermaidDefaultsPart()


# ---------------------------------------------------------------------------------------------------------------------
# SELFCHECK: Tree._self_check on the observed pointer-level state (healthy trees after histories, and hand-corrupted ones)
# ---------------------------------------------------------------------------------------------------------------------
SC_UNIV = ["s:a", "s:b", "s:c", "s:d", "i:7", "e:1", "e:2", "p:3", "s:e", "t:1,2"]
#: corruptions of a real tree that the public API cannot produce; each aims at one assertion of _self_check
CORRUPTIONS = ["none", "drop_reg", "stale_in_group", "other_in_group", "wrong_did", "drop_group", "no_tree", "unlink_child", "extra_reg",
               "twice_in_list", "no_parent", "swap_groups"]


class SelfCheckPart:
    tag = "SELFCHECK"
    case_module = "CaseMiscSelfCheck"
    case_vo = "theories/Cases/CaseMiscSelfCheck.vo"
    run_fn = "run_misc_selfcheck"
    rule = ("Tree._self_check: seeded random trees up to 9 nodes with clones, reached through creation orders and mutation histories "
            "(nav_hist), then left healthy or corrupted by hand in one of 11 ways (registry entry dropped / added, stale or foreign node "
            "in a clone group, data_id changed behind the index, group dropped, _tree or _parent cleared, child unlinked or listed "
            "twice, two nodes swapped between clone groups); the model evaluates the method on the OBSERVED pointers, registry and index; oracle: a healthy tree passes, a "
            "corrupted one does not return True")

    def descs(self, tier, rng):
        for j in range(70 if tier == "quick" else 900):
            n = rng.randint(2, 9)
            shape = H.random_shape(rng, n, deep=rng.choice([0.2, 0.5, 0.8]))
            def lab(sh):     # siblings carry different data; the same data may sit below different parents (clones)
                ls = rng.sample(range(len(SC_UNIV)), len(sh))
                return [[ls[q], None, f"d{ls[q]}", lab(t)] for q, t in enumerate(sh)]
            nodes = lab(shape) if all(len(x) <= len(SC_UNIV) for x in [shape]) else []
            yield dict(typed=False, univ=SC_UNIV, nodes=nodes, order_seed=rng.randrange(10 ** 6),
                       hist=NH.random_hist(rng, n, len(SC_UNIV), False, rng.randint(0, 4)),
                       corrupt=CORRUPTIONS[j % len(CORRUPTIONS)] if j % 3 else "none", pick=rng.randrange(1000))

    def shrink_candidates(self, desc):
        if desc.get("hist"):
            yield dict(desc, hist=desc["hist"][:-1])

    def run(self, desc) -> Case:
        try:
            tree, U, objs, _sh, _errors = NH.build_hist(desc)
        except Exception:  # noqa: BLE001   (a sibling clash of the generated labelling)
            tree, U, objs = Tree("T"), B.make_universe(desc["univ"]), []
        root = tree._root
        live = B.all_nodes(root)
        stale_pool = [x for x in objs if x is not None and all(x is not y for y in live)]
        k, pick = desc["corrupt"], desc["pick"]
        applied = "none"
        if live and k != "none":
            n = live[pick % len(live)]
            m = live[(pick // 7) % len(live)]
            if k == "drop_reg":
                del tree._node_by_id[n._node_id]
            elif k == "stale_in_group" and stale_pool:
                tree._nodes_by_data_id[n._data_id].append(stale_pool[0])
            elif k == "other_in_group" and m is not n:
                tree._nodes_by_data_id[n._data_id].append(m)
            elif k == "wrong_did":
                n._data_id = "zzz"
            elif k == "drop_group":
                del tree._nodes_by_data_id[n._data_id]
            elif k == "no_tree":
                n._tree = None
            elif k == "unlink_child":
                pc = n._parent._children
                for i, x in enumerate(pc):
                    if x is n:
                        pc.pop(i)
                        break
                if not pc and n._parent is not root:
                    n._parent._children = None
            elif k == "extra_reg":
                ghost = Tree("ghost").add("ghost")
                tree._node_by_id[ghost._node_id] = ghost
                stale_pool.append(ghost)
            elif k == "twice_in_list":
                n._parent._children.append(n)
            elif k == "no_parent":
                n._parent = None
            elif k == "swap_groups" and n._data_id != m._data_id:
                # n and m change places in the clone index: every count stays right, only `node._data_id == data_id` can notice
                ga, gb = tree._nodes_by_data_id[n._data_id], tree._nodes_by_data_id[m._data_id]
                ia = next(i for i, x in enumerate(ga) if x is n)
                ib = next(i for i, x in enumerate(gb) if x is m)
                ga[ia], gb[ib] = m, n
            else:
                k = "none"
            applied = k
        # ---- what the method does
        try:
            res = tree._self_check()
            err = None
        except RecursionError:
            raise
        except Exception as e:  # noqa: BLE001
            res, err = None, e
        passed = res is True
        fail = None
        if applied == "none" and not passed:
            fail = f"_self_check fails on a tree reached through the public API: {type(err).__name__}: {err}"
        elif applied != "none" and passed:
            fail = f"_self_check returns True on a tree corrupted by {applied}"
        # ---- observation of the pointer-level state (by identity; every object that is referenced from anywhere gets a number)
        seen, order = {}, []

        def num(x):
            if x is root:
                return 0
            if id(x) not in seen:
                seen[id(x)] = len(order) + 1
                order.append(x)
            return seen[id(x)]

        def walk(x, depth=0):
            num(x)
            if depth < 50:
                for c in (x._children or []):
                    walk(c, depth + 1)

        for c in (root._children or []):
            walk(c)
        for x in list(tree._node_by_id.values()) + [c for l in tree._nodes_by_data_id.values() for c in l]:
            num(x)
        i = 0
        while i < len(order):          # parents / children of everything numbered so far
            x = order[i]
            i += 1
            if x._parent is not None:
                num(x._parent)
            for c in (x._children or []):
                num(c)

        def did_of(x):
            d = x._data_id
            return H.coq_did(d) if isinstance(d, (int, str)) and not isinstance(d, bool) else "(DStr [0])"

        rows = []
        for x in order:
            par = "(@None Z)" if x._parent is None else f"(Some {num(x._parent)})"
            rows.append(f"({num(x)}, ({par}, {H.coq_list(str(num(c)) for c in (x._children or []))}, {H.coq_bool(x._tree is tree)}, {did_of(x)}))")
        idx = H.coq_list(f"({H.coq_did(d)}, {H.coq_list(str(num(c)) for c in l)})" for d, l in tree._nodes_by_data_id.items())
        coq = (f"(SC {H.coq_list(rows)} {H.coq_list(str(num(c)) for c in (root._children or []))} "
               f"{H.coq_list(str(num(x)) for x in tree._node_by_id.values())} {idx})")
        return Case(desc=desc, coq_input=coq, impl_obs=passed, oracle_fail=("self_check: " + fail) if fail else None,
                    nontrivial=len(live) >= 2, key=H.digest(desc), stats=dict(corruption=applied, passed=passed, nodes=len(live)))


SELFCHECK = SelfCheckPart()


# ---------------------------------------------------------------------------------------------------------------------
# WRITERS: dot.tree_to_dotfile / mermaid.node_to_mermaid_flowchart – stream vs path, format=, partial output of a failing mapper
# ---------------------------------------------------------------------------------------------------------------------
WR_UNIV = ["s:a", "s:b", "e:1", "i:7", "s:c d", "s:a"]
WR_CHART_OPTS = [
    dict(md=True, dir="TD", title=True, headers=None, add=True, uniq=True, nt=None, et=None),
    dict(md=False, dir="LR", title="My chart", headers=["%% one"], add=False, uniq=True, nt=None, et=None),
    dict(md=True, dir="BT", title=False, headers=[], add=True, uniq=False, nt="<{node.name}>", et="{from_id}>{to_id}|{to_node.name}"),
    # failing mappers: unknown field in the node template / `kind` is not passed to a str edge template
    dict(md=True, dir="TD", title=True, headers=None, add=True, uniq=True, nt="{nope}", et=None),
    dict(md=False, dir="TD", title="t", headers=None, add=False, uniq=True, nt=None, et='{from_id}-- "{kind}" -->{to_id}'),
    dict(md=True, dir="TD", title=True, headers=None, add=True, uniq=False, nt="{node.name}", et="{to_id}<{nope}"),
]
WR_DOT_OPTS = [
    dict(add=True, uniq=True, g=[], n=[], e=[], nm=None, em=None),
    dict(add=False, uniq=True, g=[["rankdir", "LR"]], n=[["style", "filled"]], e=[], nm=["color", "red"], em=None),
    dict(add=True, uniq=True, g=[["a", "b"]], n=[], e=[["c", "d"]], nm=["shape", "circle"], em=["label", "L"]),
]


class WritersPart:
    tag = "WRITERS"
    case_module = "CaseMiscWriters"
    case_vo = "theories/Cases/CaseMiscWriters.vo"
    run_fn = "run_misc_writers"
    rule = ("to_mermaid_flowchart / to_dotfile as WRITERS: plain and typed trees (forests <= 3 nodes, seeded random trees up to 8 nodes), "
            "start = the tree and every third node, 6 chart options (3 with a failing str mapper) and 3 DOT options x target stream / "
            "path x format None / 'png'; observed: the text in the stream or in the file that was written (the path itself or the path "
            "with the replaced suffix), refusal, and the PARTIAL text a failing mapper leaves behind; the external converters are not run "
            "as part of the observation; oracle: text = lines of the iterator API + newline each, refusal writes nothing")

    def descs(self, tier, rng):
        i = 0
        for n in range(0, 4):
            for shape in H.forests(n):
                for typed in (False, True):
                    i += 1
                    nodes = B.shape_to_nodes(shape, lambda k, d, s, i=i: ((k * 2 + i) % len(WR_UNIV), ("k%d" % (k % 2)) if typed else None, None))
                    nodes = unique_siblings(nodes, WR_UNIV)
                    yield dict(typed=typed, univ=WR_UNIV, nodes=nodes, seed=i)
        for j in range(5 if tier == "quick" else 150):
            n = rng.randint(3, 8)
            typed = rng.random() < 0.4
            shape = H.random_shape(rng, n, deep=rng.choice([0.2, 0.5, 0.8]))
            nodes = B.shape_to_nodes(shape, lambda k, d, s: (rng.randrange(len(WR_UNIV)), ("k%d" % (k % 2)) if typed else None, None))
            nodes = unique_siblings(nodes, WR_UNIV)
            yield dict(typed=typed, univ=WR_UNIV, nodes=nodes, seed=1000 + j)

    def shrink_candidates(self, desc):
        for nodes in B.drop_one_node(desc["nodes"]):
            yield dict(desc, nodes=nodes)

    def run(self, desc) -> Case:
        import importlib
        import io as _io
        import tempfile
        from pathlib import Path
        C17 = importlib.import_module("props.C17")
        typed = bool(desc.get("typed"))
        U = B.make_universe(desc["univ"])
        tree = B.new_tree(desc)
        try:
            B.add_nodes(tree._root, desc["nodes"], U, typed)
        except Exception:  # noqa: BLE001
            pass
        nodes = B.all_nodes(tree._root)
        rng = random.Random(desc["seed"])
        fails, mer_obs, dot_obs, mer_terms, dot_terms = [], [], [], [], []
        tmp = Path(tempfile.mkdtemp(prefix="nutree_wr_"))

        def short(ob):
            """long texts are compared as (length, polynomial hash mod 2^61), as CaseMiscWriters.sx_t"""
            t = ob[-1]
            if not isinstance(t, str):
                return ob
            if len(t) <= 100:
                return ob[:-1] + [[0, t]]
            h = 7
            for ch in t:
                h = (h * 65599 + ord(ch) + 1) & ((1 << 61) - 1)
            return ob[:-1] + [[1, len(t), h]]

        def outcome(call, path, other, fmt, want_lines):
            return short(outcome_raw(call, path, other, fmt, want_lines))

        def outcome_raw(call, path, other, fmt, want_lines):
            """run one writer call; returns the observation"""
            buf = _io.StringIO()
            target = path if path is not None else buf
            err = None
            try:
                call(target)
            except Exception as e:  # noqa: BLE001
                err = e
            if path is None:
                text = buf.getvalue()
                if fmt:
                    if not isinstance(err, RuntimeError) or text:
                        fails.append(f"format= with a stream must raise RuntimeError and write nothing (got {type(err).__name__}, {text!r})")
                        return [0, text]
                    return [2]
                if err is None:
                    if want_lines is not None and text != "".join(ln + "\n" for ln in want_lines):
                        fails.append("the stream does not hold the lines of the iterator API, one per line")
                    return [0, text]
                return [3, 0, False, text]
            # a path: which file was written?
            written = other if fmt else path
            if fmt and path.exists() and not written.exists():
                fails.append("format=: the text was written to the target path instead of the path with the replaced suffix")
            text = written.read_text() if written.exists() else ""
            if fmt or err is None:
                if want_lines is not None and text != "".join(ln + "\n" for ln in want_lines):
                    fails.append(f"the file {written.name} does not hold the lines of the iterator API")
                if want_lines is None:       # a failing mapper: an exception of the mapper, before any converter
                    return [3, 1, bool(fmt), text]
                return [1, bool(fmt), text]
            return [3, 1, False, text]

        k = 0
        starts = [None] + nodes[::3]
        for st in starts:
            for o in WR_CHART_OPTS:
                p, f = rng.random() < 0.4, rng.random() < 0.3
                k += 1
                kw = dict(as_markdown=o["md"], direction=o["dir"], title=o["title"], headers=o["headers"], unique_nodes=o["uniq"],
                          node_mapper=o["nt"], edge_mapper=o["et"])
                # the lines the iterator API yields for the same options (format forces as_markdown=False)
                import nutree.mermaid as NM
                try:
                    want = list(NM._node_to_mermaid_flowchart_iter(node=tree._root if st is None else st, add_root=o["add"],
                                                                   **dict(kw, as_markdown=o["md"] and not f)))
                except Exception:  # noqa: BLE001
                    want = None
                path = (tmp / f"m{k}.md") if p else None
                other = (tmp / f"m{k}.tmp") if p else None

                def call(target, st=st, o=o, kw=kw, f=f):
                    extra = {"format": "png"} if f else {}
                    if st is None:
                        tree.to_mermaid_flowchart(target, add_root=o["add"], **kw, **extra)
                    else:
                        st.to_mermaid_flowchart(target, add_self=o["add"], **kw, **extra)
                ob = outcome(call, path, other, f, want)
                if want is None and ob[0] not in (2, 3):
                    fails.append(f"a failing mapper went unnoticed: {o}")
                mer_obs.append(ob)
                mer_terms.append(f"({H.z(0 if st is None else H.nid(st))}, {C17.coq_mopts(o)}, {H.coq_bool(p)}, {H.coq_bool(f)})")
        for o in WR_DOT_OPTS:
            for p, f in ((False, False), (False, True), (True, False), (True, True)):
                k += 1
                kw = dict(unique_nodes=o["uniq"], graph_attrs=dict(o["g"]), node_attrs=dict(o["n"]), edge_attrs=dict(o["e"]),
                          node_mapper=C17._setter(o["nm"]), edge_mapper=C17._setter(o["em"]))
                want = list(tree.to_dot(add_root=o["add"], **kw))
                path = (tmp / f"d{k}.dot") if p else None
                other = (tmp / f"d{k}.gv") if p else None

                def call(target, o=o, kw=kw, f=f):
                    tree.to_dotfile(target, add_root=o["add"], **kw, **({"format": "png"} if f else {}))
                dot_obs.append(outcome(call, path, other, f, want))
                dot_terms.append(f"({C17.coq_dopts(o)}, {H.coq_bool(p)}, {H.coq_bool(f)})")
        import shutil
        shutil.rmtree(tmp, ignore_errors=True)
        coq = (f"(({H.coq_rt(tree._root, U)}, {H.coq_list(mer_terms)}, {H.coq_list(dot_terms)}) "
               f": rt * list (Z * mopts * bool * bool) * list (dopts * bool * bool))")
        return Case(desc=desc, coq_input=coq, impl_obs=[mer_obs, dot_obs], oracle_fail=("writers: " + fails[0]) if fails else None,
                    nontrivial=len(nodes) >= 1, key=H.digest(desc),
                    stats=dict(nodes=len(nodes), typed=typed, broken=sum(1 for o in mer_obs if o[0] == 3), refused=sum(1 for o in mer_obs + dot_obs if o[0] == 2)))


WRITERS = WritersPart()


# ---------------------------------------------------------------------------------------------------------------------
# COMMONMISC: check_python_version / PYTHON_VERSION / MIN_PYTHON_VERSION_INFO, the exception hierarchy
# ---------------------------------------------------------------------------------------------------------------------
class _FakeSys:
    def __init__(self, vi):
        self.version_info = vi


class CommonMiscPart:
    tag = "COMMONMISC"
    case_module = "CaseMiscCommon"
    case_vo = "theories/Cases/CaseMiscCommon.vo"
    run_fn = "run_misc_common"
    rule = ("common.check_python_version under a patched sys.version_info (27 interpreter versions around the minimum) x 14 minimum "
            "tuples of 1..5 components (equal prefixes, longer than three components -> TypeError against 'final'), warnings recorded; "
            "PYTHON_VERSION; the issubclass matrix of TreeError / UniqueConstraintError / AmbiguousMatchError / RuntimeError / "
            "ValueError against the lifted class table; oracle: plain tuple comparison, one DeprecationWarning iff False, and the two "
            "library errors raised by a real sibling clash / ambiguous lookup are caught as TreeError and RuntimeError")

    MINS = [[3, 8], [3, 8, 0], [3], [4], [2, 99], [3, 12], [3, 12, 1], [3, 12, 2], [99, 1], [3, 8, 0, 0], [3, 12, 1, 0], [3, 12, 1, 0, 0], [0], [3, 7, 9]]

    def descs(self, tier, rng):
        for a in (2, 3, 4):
            for b in (7, 8, 12):
                for c in (0, 1, 2):
                    yield dict(kind="version", cur=[a, b, c], mins=self.MINS)
        yield dict(kind="classes", names=["TreeError", "UniqueConstraintError", "AmbiguousMatchError", "RuntimeError", "ValueError"])

    def run(self, desc) -> Case:
        import sys as _sys
        import warnings
        import nutree.common as NC
        if desc["kind"] == "classes":
            import builtins
            cls = [getattr(NC, n, None) or getattr(builtins, n) for n in desc["names"]]
            obs = [[issubclass(a, b) for b in cls] for a in cls]
            fails = []
            # the library's own errors are TreeErrors (and RuntimeErrors)
            t = Tree("c")
            t.add("a")
            for what, fn in (("sibling clash", lambda: t.add("a")), ("ambiguous lookup", lambda: self._ambiguous())):
                try:
                    fn()
                    fails.append(f"{what}: no exception")
                except NC.TreeError as e:
                    if not isinstance(e, RuntimeError):
                        fails.append(f"{what}: not a RuntimeError")
                except Exception as e:  # noqa: BLE001
                    fails.append(f"{what}: {type(e).__name__} is not a TreeError")
            coq = f"(CClasses {H.coq_list(H.coq_text(n) for n in desc['names'])})"
            return Case(desc=desc, coq_input=coq, impl_obs=obs, oracle_fail=("common: " + fails[0]) if fails else None, key=H.digest(desc),
                        stats=dict(kind="classes"))
        cur = desc["cur"]
        real3 = list(_sys.version_info[:3])
        obs, fails = [], []
        old = NC.sys
        NC.sys = _FakeSys(tuple(cur) + ("final", 0))
        try:
            for m in desc["mins"]:
                with warnings.catch_warnings(record=True) as rec:
                    warnings.simplefilter("always")
                    try:
                        r = NC.check_python_version(tuple(m))
                        err = None
                    except Exception as e:  # noqa: BLE001
                        r, err = None, e
                msgs = [str(w.message) for w in rec]
                # the statement: plain tuple comparison
                try:
                    want = not (tuple(cur) + ("final", 0) < tuple(m))
                    werr = None
                except TypeError as e:
                    want, werr = None, e
                if werr is not None:
                    if not isinstance(err, TypeError):
                        fails.append(f"min {m}: expected TypeError")
                    obs.append([-1, H.err_class(err)] if err is not None else [bool(r), []])
                    continue
                if err is not None or r is not want:
                    fails.append(f"running {cur}, minimum {m}: answered {r!r} ({type(err).__name__ if err else ''}), expected {want}")
                if (len(msgs) == 1) != (want is False) or any(w.category is not DeprecationWarning for w in rec):
                    fails.append(f"running {cur}, minimum {m}: {len(msgs)} warning(s) for answer {want}")
                if msgs and (".".join(str(x) for x in m[:3]) not in msgs[0] or NC.PYTHON_VERSION not in msgs[0]):
                    fails.append(f"warning text: {msgs[0]!r}")
                obs.append([-1, H.err_class(err)] if err is not None else [bool(r), msgs[:1]])
        finally:
            NC.sys = old
        if NC.PYTHON_VERSION != ".".join(str(x) for x in real3):
            fails.append(f"PYTHON_VERSION = {NC.PYTHON_VERSION!r}")
        zl = lambda l: H.coq_list(H.z(x) for x in l)   # noqa: E731
        coq = f"(CVersion {zl(real3)} {zl(cur)} {H.coq_list(zl(m) for m in desc['mins'])})"
        return Case(desc=desc, coq_input=coq, impl_obs=[NC.PYTHON_VERSION, obs], oracle_fail=("common: " + fails[0]) if fails else None,
                    key=H.digest(desc), stats=dict(kind="version", falses=sum(1 for o in obs if o[0] is False)))

    @staticmethod
    def _ambiguous():
        t = Tree("amb")
        a = t.add("a")
        b = t.add("b")
        a.add("x")
        b.add("x")
        return t["x"]


COMMONMISC = CommonMiscPart()


# ---------------------------------------------------------------------------------------------------------------------
# FORWARD: Node.__getattr__ (forward_attrs)
# ---------------------------------------------------------------------------------------------------------------------
class Attrs:
    """a data object with arbitrary attributes (identity-hashed)"""

    def __init__(self, pairs):
        for k, v in pairs:
            object.__setattr__(self, k, v)

    def __repr__(self):
        return "Attrs"


FW_NATIVE = ["children", "data_id", "data", "meta", "node_id", "parent", "tree", "name", "path", "add", "is_leaf", "_data", "_parent", "_children"]
FW_NAMES = FW_NATIVE + ["kind", "_kind", "age", "guid", "nope", "x y", "Name", "first", "remove_me"]


class ForwardPart:
    tag = "FORWARD"
    case_module = "CaseMiscForward"
    case_vo = "theories/Cases/CaseMiscForward.vo"
    run_fn = "run_misc_forward"
    rule = ("Node.__getattr__: plain / typed trees with forward_attrs on / off and removed nodes; data objects carrying random subsets of 23 "
            "attribute names, among them every native name of the documented list (children, data_id, data, kind, meta, node_id, parent, "
            "tree, name ...), private slots, and names no object has; every name is looked up on the node; oracle: a native name never "
            "yields the data object's value, a foreign name yields exactly it iff forward_attrs is on and the data object has it, "
            "AttributeError otherwise")

    def descs(self, tier, rng):
        for typed in (False, True):
            for fw in (False, True):
                for removed in (False, True):
                    for k in range(3 if tier == "quick" else 25):
                        yield dict(typed=typed, forward=fw, removed=removed, attrs=sorted(rng.sample(FW_NAMES, rng.randint(0, len(FW_NAMES)))) if k else list(FW_NAMES))

    def run(self, desc) -> Case:
        typed, fw = desc["typed"], desc["forward"]
        pairs = [(k, "D:" + k) for k in desc["attrs"]]
        data = Attrs(pairs)
        tree = (TypedTree if typed else Tree)("F", forward_attrs=fw)
        node = tree.add(data, kind="k") if typed else tree.add(data)
        if desc["removed"]:
            node.remove()
        own = [n for n in FW_NAMES if hasattr(type(node), n)]
        obs, fails = [], []
        for name in FW_NAMES:
            try:
                v = getattr(node, name)
                err = None
            except AttributeError as e:
                v, err = None, e
            except Exception as e:  # noqa: BLE001
                v, err = None, e
                fails.append(f"getattr(node, {name!r}) raised {type(e).__name__}")
            from_data = err is None and isinstance(v, str) and v == "D:" + name
            native = name in FW_NATIVE or (typed and name in ("kind", "_kind"))
            if native and (from_data or (err is not None and not desc["removed"])):
                fails.append(f"native name {name!r}: {'forwarded to the data object' if from_data else 'AttributeError'}")
            if not native:
                should = fw and not desc["removed"] and name in desc["attrs"]
                if should != from_data or (not should and err is None):
                    fails.append(f"{name!r}: forward_attrs={fw}, data has it: {name in desc['attrs']}, removed: {desc['removed']} -> "
                                 f"{'value ' + repr(v) if err is None else 'AttributeError'}")
            # a native name answers (or raises) on its own: what it answers is the business of the other parts (REMOVED for removed nodes)
            obs.append([0] if name in own and not from_data else [-1] if err is not None else [1, pv_obs(v)] if from_data else [0])
        tf = "(@None bool)" if desc["removed"] else f"(Some {H.coq_bool(fw)})"
        coq = (f"(({H.coq_list(H.coq_text(n) for n in own)}, {tf}, {dict_coq([[k, v] for k, v in pairs])}, "
               f"{H.coq_list(H.coq_text(n) for n in FW_NAMES)}) : list text * option bool * dict * list text)")
        return Case(desc=desc, coq_input=coq, impl_obs=obs, oracle_fail=("forward: " + fails[0]) if fails else None, key=H.digest(desc),
                    nontrivial=bool(desc["attrs"]), stats=dict(typed=typed, forward=fw, removed=desc["removed"], forwarded=sum(1 for o in obs if o[0] == 1)))


FORWARD = ForwardPart()


# ---------------------------------------------------------------------------------------------------------------------
# ZIPIO: open_as_compressed_output_stream / open_as_uncompressed_input_stream (the byte transport of save / load)
# ---------------------------------------------------------------------------------------------------------------------
ZIP_TEXTS = ["", "x", '{"meta": {}, "nodes": []}', "line1\nline2\n", "ä│ \U0001f600", "PK\x03\x04 not a zip", "a" * 300]
ZIP_COMPS = [False, True, 0, 8, 12, 14, 1, 7, 99, -1]


class ZipIOPart:
    tag = "ZIPIO"
    case_module = "CaseMiscZipIO"
    case_vo = "theories/Cases/CaseMiscZipIO.vo"
    run_fn = "run_misc_zipio"
    rule = ("the stream helpers of save/load on real files: 7 texts (empty, JSON, multi-line, non-ASCII, a text starting with the ZIP "
            "magic, 300 characters) x compression False / True / 0 / 8 / 12 / 14 / three invalid ints, read back with auto_uncompress "
            "on and off; hand-made containers with 0, 1 (foreign member name, any method) and 2 members; oracle: is_zipfile, member "
            "list, method and text of the written file inspected with zipfile directly, round trip, ValueError for != 1 member")

    def descs(self, tier, rng):
        for t in ZIP_TEXTS:
            for c in ZIP_COMPS:
                yield dict(kind="write", name="f.nutree" if len(t) % 2 else "dir.d name", comp=c, text=t)
        for members in ([], [["other.txt", 8, "hello"]], [["a.json", 0, "1"], ["b.json", 12, "2"]], [["x", 14, "ä"]], [["x", 0, ""], ["y", 0, ""], ["z", 8, "q"]]):
            yield dict(kind="read", members=members)
        yield dict(kind="read", plain="just text")

    def run(self, desc) -> Case:
        import tempfile
        import zipfile
        from pathlib import Path
        from nutree.common import open_as_compressed_output_stream, open_as_uncompressed_input_stream
        tmp = Path(tempfile.mkdtemp(prefix="nutree_zip_"))
        fails = []

        def read(path, auto):
            try:
                with open_as_uncompressed_input_stream(path, auto_uncompress=auto) as fp:
                    return [0, fp.read()]
            except ValueError as e:
                if isinstance(e, UnicodeDecodeError):
                    return [1]
                return [-1, H.err_class(e)]
            except Exception as e:  # noqa: BLE001
                return [-1, H.err_class(e)]

        def content(path):
            if zipfile.is_zipfile(path):
                with zipfile.ZipFile(path) as zf:
                    return [1, [[i.filename, i.compress_type, zf.read(i).decode("utf8")] for i in zf.infolist()]]
            return [0, path.read_text(encoding="utf8")]

        try:
            if desc["kind"] == "write":
                path = tmp / desc["name"]
                c, t = desc["comp"], desc["text"]
                try:
                    with open_as_compressed_output_stream(path, compression=c) as fp:
                        fp.write(t)
                    err = None
                except Exception as e:  # noqa: BLE001
                    err = e
                if err is not None:
                    obs = [-1, H.err_class(err)]
                    if c is False or c is True or c in (0, 8, 12, 14):
                        fails.append(f"compression={c!r}: {type(err).__name__}: {err}")
                else:
                    fc = content(path)
                    r1, r0 = read(path, True), read(path, False)
                    if fc[0] == 1 and r0[0] != 0:
                        r0 = [1]          # a container read as text: undecodable or garbage – outside the model
                    elif fc[0] == 1:
                        r0 = [1]
                    obs = [fc, r1, r0]
                    # the statement
                    if r1 != [0, t]:
                        fails.append(f"compression={c!r}: wrote {t!r}, read back {r1!r}")
                    if (fc[0] == 0) != (c is False):
                        fails.append(f"compression={c!r}: {'plain file' if fc[0] == 0 else 'ZIP container'}")
                    if fc[0] == 1 and (len(fc[1]) != 1 or fc[1][0][0] != desc["name"] + ".json" or fc[1][0][1] != (12 if c is True else int(c))):
                        fails.append(f"compression={c!r}: members {[(m[0], m[1]) for m in fc[1]]}")
                comp = "CFalse" if c is False else "CTrue" if c is True else f"(CInt {H.z(c)})"
                coq = f"(ZWrite {H.coq_text(desc['name'])} {comp} {H.coq_text(t)})"
            else:
                path = tmp / "made.zip"
                if "plain" in desc:
                    path.write_text(desc["plain"], encoding="utf8")
                    coq = f"(ZRead (FPlain {H.coq_text(desc['plain'])}))"
                    want1 = [0, desc["plain"]]
                else:
                    with zipfile.ZipFile(path, "w") as zf:
                        for name, method, text in desc["members"]:
                            zf.writestr(zipfile.ZipInfo(name), text.encode("utf8"), compress_type=method)
                    ms = H.coq_list(f"({H.coq_text(n)}, {H.z(m)}, {H.coq_text(x)})" for n, m, x in desc["members"])
                    coq = f"(ZRead (FZip {ms}))"
                    want1 = [0, desc["members"][0][2]] if len(desc["members"]) == 1 else [-1, 3]
                r1, r0 = read(path, True), read(path, False)
                if "plain" not in desc:
                    r0 = [1]
                if r1 != want1:
                    fails.append(f"reading {desc}: {r1!r}, expected {want1!r}")
                obs = [r1, r0]
        finally:
            import shutil
            shutil.rmtree(tmp, ignore_errors=True)
        return Case(desc=desc, coq_input=coq, impl_obs=obs, oracle_fail=("zipio: " + fails[0]) if fails else None, key=H.digest(desc),
                    stats=dict(kind=desc["kind"], comp=str(desc.get("comp"))))


ZIPIO = ZipIOPart()
