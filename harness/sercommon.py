"""Shared by C12 and C05: JSON values <-> Coq `jv` / sx, the harness' mappers,
an INDEPENDENT Python encoder of the documented native layout, observation of a
loaded tree, and an independent `iso` of two trees (pointer walks only)."""
from __future__ import annotations

import io
import json
import re
import zipfile
from pathlib import Path

import build as B
import common as H
from common import Tree, TypedTree
from nutree.common import DictWrapper

# ---------------------------------------------------------------------------
# JSON values
# ---------------------------------------------------------------------------


def jv_sx(v):
    """parsed JSON value -> nested lists in the shape of Serialize.sx_jv"""
    if v is None:
        return [0]
    if isinstance(v, bool):
        return [1, v]
    if isinstance(v, int):
        return [2, v]
    if isinstance(v, float):
        return [3, repr(v)]
    if isinstance(v, str):
        return [4, v]
    if isinstance(v, (list, tuple)):
        return [5, [jv_sx(x) for x in v]]
    if isinstance(v, dict):
        return [6, [[str(k), jv_sx(x)] for k, x in v.items()]]
    raise TypeError(f"not a JSON value: {v!r}")


def jv_coq(v) -> str:
    if v is None:
        return "JNull"
    if isinstance(v, bool):
        return f"(JBool {H.coq_bool(v)})"
    if isinstance(v, int):
        return f"(JInt {H.z(v)})"
    if isinstance(v, float):
        return f"(JFloat {H.coq_text(repr(v))})"
    if isinstance(v, str):
        return f"(JStr {H.coq_text(v)})"
    if isinstance(v, (list, tuple)):
        return "(JList " + H.coq_list(jv_coq(x) for x in v) + ")"
    if isinstance(v, dict):
        return "(JDict " + coq_dict(v) + ")"
    raise TypeError(f"not a JSON value: {v!r}")


def coq_dict(d) -> str:
    return H.coq_list(f"({H.coq_text(str(k))}, {jv_coq(x)})" for k, x in d.items())


def all_strings(v, acc):
    if isinstance(v, str):
        acc.add(v)
    elif isinstance(v, (list, tuple)):
        for x in v:
            all_strings(x, acc)
    elif isinstance(v, dict):
        for k, x in v.items():
            acc.add(str(k))
            all_strings(x, acc)


def err_class(e: BaseException) -> int:
    if type(e) is RuntimeError:
        return 9      # EFormat
    if isinstance(e, IndexError):
        return 10     # EIndex
    return H.err_class(e)


# ---------------------------------------------------------------------------
# mappers of the harness (callback style and derived-class style)
# ---------------------------------------------------------------------------
class FalsyBool:
    """value-equal object whose truth value is False (__bool__)"""

    def __init__(self, v):
        self.v = v

    def __eq__(self, other):
        return isinstance(other, FalsyBool) and self.v == other.v

    def __hash__(self):
        return hash(("FalsyBool", self.v))

    def __bool__(self):
        return False

    def __repr__(self):
        return f"Z{self.v}"


class EmptyLen:
    """value-equal container-like object that is empty (__len__ == 0), hence falsy"""

    def __init__(self, v):
        self.v = v

    def __eq__(self, other):
        return isinstance(other, EmptyLen) and self.v == other.v

    def __hash__(self):
        return hash(("EmptyLen", self.v))

    def __len__(self):
        return 0

    def __repr__(self):
        return f"L{self.v}"


class EqStr:
    """data object that compares EQUAL to a str (and hashes like it) without being one: wherever the library means
    identity (`is`) but writes `==`, this object is taken for the str -- e.g. for the tree's name"""

    def __init__(self, v):
        self.v = v

    def __eq__(self, other):
        return (isinstance(other, EqStr) and self.v == other.v) or (isinstance(other, str) and other == self.v)

    def __hash__(self):
        return hash(self.v)

    def __repr__(self):
        return f"Q<{self.v}>"


def make_obj(spec: str):
    """build.make_obj plus  z:<v> (FalsyBool)  l:<v> (EmptyLen);  s: / i:0 / t: give "", 0, ();
    W:<n> = DictWrapper whose keys ARE entries of the custom key_map / value_map (for the library's own
    DictWrapper.serialize_mapper / deserialize_mapper, mapper style "dw")"""
    k, _, v = spec.partition(":")
    if k == "q":
        return EqStr(v)
    if k == "W":
        n = int(v)
        return DictWrapper({"t": ["e", "p", "i"][n % 3], "v": n, "str": f"q{n}", "title": f"w{n}"})
    if k == "z":
        return FalsyBool(int(v))
    if k == "l":
        return EmptyLen(int(v))
    return B.make_obj(spec)


def fs_obj(spec):
    """f:<name>:<size>:<mdate>  |  D:<name>"""
    from nutree.fs import FileSystemEntry
    k, _, rest = spec.partition(":")
    if k == "D":
        return FileSystemEntry(rest, is_dir=True)
    name, size, mdate = rest.split(":")
    return FileSystemEntry(name, size=int(size), mdate=float(mdate))


def is_fs_entry(o):
    return type(o).__name__ == "FileSystemEntry"


def tag_val(o):
    if is_fs_entry(o):
        return "F", [o.name, o.is_dir, o.size, o.mdate]
    if isinstance(o, EqStr):
        return "q", o.v
    if isinstance(o, FalsyBool):
        return "z", o.v
    if isinstance(o, EmptyLen):
        return "l", o.v
    if isinstance(o, H.EqObj):
        return "e", o.v
    if isinstance(o, H.PlainObj):
        return "p", o.v
    if isinstance(o, bool):
        raise TypeError
    if isinstance(o, int):
        return "i", o
    if isinstance(o, tuple):
        return "t", list(o)
    if isinstance(o, B.DC):
        return "d", o.v
    if isinstance(o, DictWrapper):
        return "w", (o._dict["v"] if set(o._dict) == {"v"} else sorted(o._dict.items()))
    raise TypeError(f"no serialisation for {o!r}")


def payload_of(o, ms=None) -> dict:
    if ms == "dw":          # DictWrapper.serialize_mapper: the entry is a copy of the wrapped dict
        return dict(o._dict)
    if is_fs_entry(o):      # what FileSystemTree.serialize_mapper adds (fs.py)
        return {"n": o.name, "d": True} if o.is_dir else {"n": o.name, "s": o.size, "m": o.mdate}
    t, v = tag_val(o)
    return {"t": t, "v": v, "n": f"{o}"}


def ser_mapper(node, data):
    o = node.data
    if isinstance(o, str):
        return data
    for k, v in payload_of(o).items():
        data[k] = v
    return data


def layout_mapper(ms):
    """what the serialize mapper of style `ms` is documented to contribute (for the independent encoder)"""
    if ms == "none":
        return None
    if ms == "dw":
        return lambda node, data: dict(node._data._dict)
    return ser_mapper


def deser_mapper(parent, data):
    if "str" in data:
        return data["str"]
    t = data["t"]
    v = data["v"]
    n = data["n"]  # noqa: F841  (the model reads the name from here)
    if t == "e":
        return H.EqObj(v)
    if t == "p":
        return H.PlainObj(v)
    if t == "i":
        return int(v)
    if t == "t":
        return tuple(v)
    if t == "d":
        return B.DC(v)
    if t == "w":
        return DictWrapper({"v": v})
    if t == "q":
        return EqStr(v)
    if t == "z":
        return FalsyBool(v)
    if t == "l":
        return EmptyLen(v)
    raise ValueError(t)


CUSTOM_KM = {"t": "T", "v": "V", "str": "S", "data_id": "#", "kind": "K", "unused": "u"}
# outside the admissible options (the model must still agree with the implementation):
CLASH_KM = {"t": "v", "n": "str", "kind": "data_id", "str": "x"}     # short names that are keys of the entries
PARTIAL_VM = {"t": ["e", "e", "i"], "kind": ["a"]}                   # does not cover all values; a duplicate
TREE_DEFAULT_KM = {"data_id": "i", "str": "s"}    # Tree.DEFAULT_KEY_MAP: "s" is also FileSystemTree's size key (finding D51)
CUSTOM_KM_FS = {"n": "nm", "m": "mt", "unused": "u"}
CUSTOM_VM = {"t": ["e", "p", "i", "t", "d", "w", "z", "l", "q"]}
CUSTOM_VM_TYPED = {"t": ["q", "l", "z", "w", "d", "t", "i", "p", "e"], "kind": ["zz", "c", "b", "a", "child"]}

_DERIVED = {}


def derived_class(typed: bool, calc):
    """Tree class carrying the mappers (and the custom maps as class defaults)."""
    key = (typed, calc)
    if key in _DERIVED:
        return _DERIVED[key]
    base = TypedTree if typed else Tree

    class MyTree(base):
        DEFAULT_KEY_MAP = dict(CUSTOM_KM)
        DEFAULT_VALUE_MAP = dict(CUSTOM_VM_TYPED if typed else CUSTOM_VM)

        def serialize_mapper(self, node, data):
            return ser_mapper(node, data)

        @staticmethod
        def deserialize_mapper(parent, data):
            return deser_mapper(parent, data)

    _DERIVED[key] = MyTree
    return MyTree


def base_class(typed):
    return TypedTree if typed else Tree


def build_tree(desc):
    """like build.build, but the tree class may be the derived one"""
    typed = bool(desc.get("typed"))
    if desc.get("mapper") == "fs":
        from nutree.fs import FileSystemTree
        U = H.Universe([fs_obj(sp) for sp in desc["univ"]])
        t = FileSystemTree(desc.get("name", "T"))
        B.add_nodes(t._root, desc["nodes"], U, False)
        return t, U
    U = H.Universe([make_obj(sp) for sp in desc["univ"]])
    if desc.get("mapper") == "derived":
        cls = derived_class(typed, desc.get("calc"))
    else:
        cls = base_class(typed)
    t = cls(desc.get("name", "T"), calc_data_id=B.calc_fn(desc.get("calc")))
    B.add_nodes(t._root, desc["nodes"], U, typed)
    # history before the save: nodes re-keyed with set_data()/rename() AFTER the tree was built
    # (clone groups that never went through Tree._register)
    if desc.get("retarget"):
        nodes = B.all_nodes(t._root)
        for i, lbl in desc["retarget"]:
            n, d = nodes[i], U.objs[lbl]
            if isinstance(n._data, str) and isinstance(d, str):
                n.rename(d)
            else:
                n.set_data(d)
    return t, U


def resolve_opts(desc):
    """(save kwargs, load kwargs, loading class, key_map and value_map as the
    documentation says they are resolved) for one option set"""
    typed = bool(desc.get("typed"))
    ms = desc.get("mapper", "cb")
    km, vm = desc.get("km", "true"), desc.get("vm", "true")
    skw, lkw = {}, {}
    if ms == "cb":
        skw["mapper"] = ser_mapper
        lkw["mapper"] = deser_mapper
    if ms == "dw":
        skw["mapper"] = DictWrapper.serialize_mapper
        lkw["mapper"] = DictWrapper.deserialize_mapper
    cls = derived_class(typed, desc.get("calc")) if ms == "derived" else base_class(typed)
    if ms == "fs":
        from nutree.fs import FileSystemTree
        cls = FileSystemTree
        if km == "false":
            skw["key_map"] = False
        elif km == "custom":
            skw["key_map"] = dict(CUSTOM_KM_FS)
        elif km == "treedefault":
            skw["key_map"] = dict(TREE_DEFAULT_KM)
        if vm == "false":
            skw["value_map"] = False
        if desc.get("meta"):
            skw["meta"] = dict(desc["meta"])
        return skw, lkw, cls
    custom_vm = CUSTOM_VM_TYPED if typed else CUSTOM_VM
    if km == "false":
        skw["key_map"] = False
    elif km == "custom" and ms != "derived":
        skw["key_map"] = dict(CUSTOM_KM)
    elif km == "clash":
        skw["key_map"] = dict(CLASH_KM)
    if vm == "false":
        skw["value_map"] = False
    elif vm == "custom" and ms != "derived":
        skw["value_map"] = {k: list(v) for k, v in custom_vm.items()}
    elif vm == "custom_nokind":
        skw["value_map"] = {"t": list(custom_vm["t"])}
    elif vm == "partial":
        skw["value_map"] = {k: list(v) for k, v in PARTIAL_VM.items()}
    if desc.get("meta"):
        skw["meta"] = dict(desc["meta"])
    return skw, lkw, cls


def doc_maps(desc, root):
    """key_map / value_map in effect, from the documentation: True = class default
    (TypedTree: value_map gets "kind": <distinct kinds> unless given)."""
    typed = bool(desc.get("typed"))
    ms = desc.get("mapper", "cb")
    km, vm = desc.get("km", "true"), desc.get("vm", "true")
    custom_vm = CUSTOM_VM_TYPED if typed else CUSTOM_VM
    if ms == "fs":      # FileSystemTree.DEFAULT_KEY_MAP = {}, no value map
        return (dict(TREE_DEFAULT_KM) if km == "treedefault" else {} if km != "custom" else dict(CUSTOM_KM_FS)), {}
    if km == "false":
        kmap = {}
    elif km == "clash":
        kmap = dict(CLASH_KM)
    elif km == "custom" or ms == "derived":
        kmap = dict(CUSTOM_KM)
    else:
        kmap = {"data_id": "i", "str": "s", "kind": "k"} if typed else {"data_id": "i", "str": "s"}
    if vm == "false":
        vmap = {}
    else:
        if vm == "custom_nokind":
            vmap = {"t": list(custom_vm["t"])}
        elif vm == "partial":
            vmap = {k: list(v) for k, v in PARTIAL_VM.items()}
        elif vm == "custom" or ms == "derived":
            vmap = {k: list(v) for k, v in custom_vm.items()}
        else:
            vmap = {}
        if typed and "kind" not in vmap:
            kinds = []
            for n in B.all_nodes(root):
                if n._kind not in kinds:
                    kinds.append(n._kind)
            vmap["kind"] = kinds
    return kmap, vmap


# ---------------------------------------------------------------------------
# independent encoder of the documented layout (ug_serialize.rst)
# ---------------------------------------------------------------------------
def py_layout(root, *, typed, kmap, vmap, meta, mapper, version):
    """Document for the tree below `root`, from pointers only.
    header: $generator, $format_version, the maps in use, user meta;
    nodes: pre-order; [position of parent entry (0 = root), data];
    data = position of the first occurrence when an earlier node has the same
    data_id and that first occurrence has the same kind, else the entry with
    keys/values shortened as the header declares."""
    header = {"$generator": f"nutree/{version}", "$format_version": "1.0"}
    if kmap:
        header["$key_map"] = kmap
    if vmap:
        header["$value_map"] = vmap
    header.update(meta or {})
    entries = []
    pos_of = {id(root): 0}
    first = {}   # data_id -> (position, kind) of the first occurrence

    def walk(n):
        for ch in n._children or []:
            yield ch
            yield from walk(ch)

    for pos, n in enumerate(walk(root), 1):
        pos_of[id(n)] = pos
        ppos = pos_of[id(n._parent)]
        kind = getattr(n, "_kind", None)
        did = n._data_id
        fk = first.get(did)
        if fk is not None and fk[1] == kind:
            entries.append([ppos, fk[0]])
        else:
            data = n._data
            custom = did != hash(data)
            if not typed and isinstance(data, str) and not custom:
                entries.append([ppos, data])
            else:
                d = {}
                if isinstance(data, str):
                    d["str"] = data
                if custom:
                    d["data_id"] = did
                if typed:
                    d["kind"] = kind
                if mapper is not None:
                    d = mapper(n, d) or d
                d = {kmap.get(k, k): (vmap[k].index(v) if k in vmap else v) for k, v in d.items()}
                entries.append([ppos, d])
        if fk is None:
            first[did] = (pos, kind)
    return {"meta": header, "nodes": entries}


# ---------------------------------------------------------------------------
# observation of a loaded tree (shape of Serialize.sx_loaded) and env tables
# ---------------------------------------------------------------------------
def safe_hash(d):
    try:
        return hash(d)
    except TypeError:      # e.g. a raw entry dict installed as data by a defective reader
        return 0


def obs_loaded_tree(tree, doc_nodes=None):
    """doc_nodes: the "nodes" list of the document that was loaded.  The identity of a rebuilt int / tuple is not
    observable (CPython shares small ints and the empty tuple), so for such data the model's notion is used:
    the entry that materialised the node (the reference target, or the node's own entry)."""
    nodes = B.all_nodes(tree._root)
    order = sorted(nodes, key=H.nid)
    rank = {id(n): i + 1 for i, n in enumerate(order)}
    first_obj = {}
    for n in order:
        first_obj.setdefault(id(n._data), rank[id(n)])

    def obj_of(n):
        d = n._data
        if isinstance(d, str):
            return -1
        r = rank[id(n)]
        if isinstance(d, (int, tuple)) and doc_nodes is not None and r <= len(doc_nodes):
            e = doc_nodes[r - 1]
            ref = e[1] if isinstance(e, list) and len(e) == 2 else None
            return ref if isinstance(ref, int) and not isinstance(ref, bool) else r
        return first_obj[id(d)]

    def go(n):
        d = n._data
        return [rank[id(n)], isinstance(d, str), f"{d}", safe_hash(d), H.sx_did(n._data_id), H.sx_kind(getattr(n, "_kind", None)),
                obj_of(n), [go(c) for c in (n._children or [])]]

    hashes = [(rank[id(n)], safe_hash(n._data)) for n in order]
    return [go(c) for c in (tree._root._children or [])], hashes


def canon(root):
    """what must not depend on any storage option, target kind or mapper style: shape, order, rebuilt data, kinds,
    stable data_ids, clone partition"""
    nodes = B.all_nodes(root)
    first = {}
    out = []
    for i, n in enumerate(nodes):
        g = first.setdefault(n._data_id, i)
        par = -1 if n._parent is root else next(j for j, m in enumerate(nodes) if m is n._parent)
        out.append((par, value_repr(n._data), getattr(n, "_kind", None),
                    repr(n._data_id) if id_stable(n) else None, g))
    return out


def consuming(base):
    """a deserialize mapper that CONSUMES the dict it is handed (pops the members it knows) before building the
    object -- legitimate: 'node data as rebuilt by the mapper'"""
    def m(parent, data):
        data.pop("data_id", None)
        data.pop("kind", None)
        return base(parent, data)
    return m


def consuming_loads(cls, lkw, text):
    """[(style, loaded tree | exception)] for a dict-consuming mapper, callback style and derived-class style"""
    base = lkw.get("mapper") or cls.deserialize_mapper
    out = []
    try:
        out.append(("callback", cls.load(io.StringIO(text), mapper=consuming(base))))
    except Exception as e:  # noqa: BLE001
        out.append(("callback", e))

    class Consuming(cls):
        deserialize_mapper = staticmethod(consuming(base))
    try:
        out.append(("derived class", Consuming.load(io.StringIO(text))))
    except Exception as e:  # noqa: BLE001
        out.append(("derived class", e))
    return out


def class_defaults_changed():
    """message if a class-level DEFAULT_KEY_MAP / DEFAULT_VALUE_MAP is no longer what the class declares (a save
    must never write into them); the attributes are put back so that one case does not poison the next"""
    from nutree.fs import FileSystemTree
    exp = [(Tree, {"data_id": "i", "str": "s"}, {}), (TypedTree, {"data_id": "i", "str": "s", "kind": "k"}, {}),
           (FileSystemTree, {}, {})]
    for (typed, _calc), c in _DERIVED.items():
        exp.append((c, dict(CUSTOM_KM), dict(CUSTOM_VM_TYPED if typed else CUSTOM_VM)))
    msg = None
    for c, km, vm in exp:
        if c.DEFAULT_KEY_MAP != km or c.DEFAULT_VALUE_MAP != vm:
            msg = msg or (f"class: {c.__name__}.DEFAULT_KEY_MAP/DEFAULT_VALUE_MAP changed to "
                          f"{c.DEFAULT_KEY_MAP} / {c.DEFAULT_VALUE_MAP}")
            c.DEFAULT_KEY_MAP, c.DEFAULT_VALUE_MAP = dict(km), {k: list(v) for k, v in vm.items()}
    return msg


def expected_header(desc, root, meta):
    import nutree
    kmap, vmap = doc_maps(desc, root)
    exp = {"$generator": f"nutree/{nutree.__version__}", "$format_version": "1.0"}
    if kmap:
        exp["$key_map"] = kmap
    if vmap:
        exp["$value_map"] = vmap
    exp.update(json.loads(json.dumps(meta or {})))
    return exp


def meta_reuse_check(desc, tree, cls, lkw):
    """ONE meta dict object handed to two saves with different options: save must not touch the caller's dict, and the
    second file (maps off) must carry exactly generator, version and the user's members"""
    import copy
    m = dict(desc.get("meta") or {"foo": "bar"})
    snap = copy.deepcopy(m)
    skw, _l, _c = resolve_opts(desc)
    skw0, lkw0, cls0 = resolve_opts(dict(desc, km="false", vm="false"))
    try:
        fp = io.StringIO()
        tree.save(fp, **{**skw, "meta": m})
        if m != snap:
            return f"meta: save() modified the caller's meta dict: {m} (was {snap})"
        fp = io.StringIO()
        tree.save(fp, **{**skw0, "meta": m})
        if m != snap:
            return f"meta: save() modified the caller's meta dict: {m} (was {snap})"
        text = fp.getvalue()
        hdr = json.loads(text)["meta"]
        exp = expected_header(dict(desc, km="false", vm="false"), tree._root, snap)
        if hdr != exp:
            return f"meta: second save (maps off) with the same meta dict writes header {hdr}, expected {exp}"
        fm = {}
        t2 = cls0.load(io.StringIO(text), file_meta=fm, **lkw0)
        if fm != exp:
            return f"meta: file_meta of the second file {fm}, expected {exp}"
        return t2
    except Exception as e:  # noqa: BLE001
        return f"meta: two saves with one meta dict: {e!r:.200}"


def data_snapshot(root):
    """contents of every node's data, data_id, kind (save and load of ANOTHER object must leave them alone)"""
    import copy
    return [(copy.deepcopy(value_repr(n._data)), repr(n._data_id), getattr(n, "_kind", None)) for n in B.all_nodes(root)]


def snapshot_diff(before, after, what):
    if before == after:
        return None
    for i, (a, b) in enumerate(zip(before, after)):
        if a != b:
            return f"readonly: {what} modified node #{i + 1}: {b} (was {a})"
    return f"readonly: {what} changed the number of nodes"


_FILE_A = None


def file_a():
    """a small file written with maps whose short names / value-mapped keys occur as plain members of other files"""
    global _FILE_A
    if _FILE_A is None:
        t = Tree("A")
        n = t.add(DictWrapper(title="f1", type="a", v="a"))
        n.add(DictWrapper(title="f2", type="b", v="b"))
        fp = io.StringIO()
        t.save(fp, mapper=DictWrapper.serialize_mapper, key_map={"title": "n", "type": "t", "kind": "str", "x": "s"},
               value_map={"v": ["a", "b"], "type": ["a", "b"]})
        _FILE_A = fp.getvalue()
    return _FILE_A


def file_meta_reuse_check(cls, lkw, texts, reference):
    """ONE file_meta dict handed to several loads (first another file written with maps): every file must be decoded
    with ITS OWN header, and the dict must afterwards contain that file's header members"""
    m = {}
    try:
        Tree.load(io.StringIO(file_a()), mapper=DictWrapper.deserialize_mapper, file_meta=m)
    except Exception as e:  # noqa: BLE001
        return f"file_meta: loading the auxiliary file fails: {e!r:.200}"
    for text in texts:
        hdr = json.loads(text)["meta"]
        try:
            t = cls.load(io.StringIO(text), file_meta=m, **lkw)
        except Exception as e:  # noqa: BLE001
            return (f"file_meta: load with a file_meta dict that was used for another file before fails: {e!r:.200} "
                    f"on {text[:300]}")
        if canon(t._root) != reference:
            return (f"file_meta: load with a file_meta dict that was used for another file before gives {canon(t._root)} "
                    f"instead of {reference} on {text[:300]}")
        if any(m.get(k) != v for k, v in hdr.items()):
            return f"file_meta: after load the caller's dict {m} does not contain the file's header {hdr}"
    return None


def branch_check(desc, tree):
    """Node.to_list_iter() called on an inner node (a branch is written with that node as entry #0): the entries must
    be the documented layout of the branch -- in particular for a start node whose data EQUALS a descendant's"""
    import nutree
    typed = bool(desc.get("typed"))
    ms = desc.get("mapper", "cb")
    if ms == "fs":
        return None
    skw, _l, _c = resolve_opts(desc)
    kmap, vmap = doc_maps(desc, tree._root)
    starts = [n for n in B.all_nodes(tree._root) if n._children]
    for n in starts[:4]:
        try:
            exp = py_layout(n, typed=typed, kmap=kmap, vmap=vmap, meta=None, mapper=layout_mapper(ms), version=nutree.__version__)["nodes"]
        except Exception:  # noqa: BLE001 (value list does not cover)
            continue
        try:
            km = dict(kmap)
            vm = {k: list(v) for k, v in vmap.items()}
            mp = skw.get("mapper") or (tree.serialize_mapper if ms == "derived" else None)
            got = json.loads(json.dumps(list(n.to_list_iter(mapper=mp, key_map=km, value_map=vm))))
        except Exception as e:  # noqa: BLE001
            return f"branch: to_list_iter() of node {n._data!r} fails: {e!r:.200}"
        if got != json.loads(json.dumps(exp)):
            return (f"branch: to_list_iter() called on node {n._data!r} gives {json.dumps(got)[:400]}, the layout of that branch is "
                    f"{json.dumps(exp)[:400]}")
    return None


def failed_load_facts(load):
    """hash() and str() of the data objects a FAILING load created before it failed (facts of the run the model
    needs for its uniqueness checks): the nodes allocated during `load()`, in creation order = entry order"""
    base = H.alloc_count()
    try:
        load()
    except Exception:  # noqa: BLE001
        pass
    nodes = [n for n in H._KEEP[base:] if getattr(n, "_parent", None) is not None]
    return [(i + 1, safe_hash(n._data)) for i, n in enumerate(nodes)], [(i + 1, f"{n._data}") for i, n in enumerate(nodes)]


def loaded_names(tree):
    """(creation rank, str(data)) of every node of a loaded tree"""
    order = sorted(B.all_nodes(tree._root), key=H.nid)
    return [(i + 1, f"{n._data}") for i, n in enumerate(order)]


def coq_lenv(typed, ms, strings, hashes, names=()) -> str:
    cls = "CFs" if ms == "fs" else "CTyped" if typed else "CPlain"
    m = {"none": "MNone", "cb": "MHarness", "derived": "MHarness", "doc": "MDoc", "fs": "MFs", "dw": "MDw"}[ms]
    nm = H.coq_list(f"({r}, {H.coq_text(n)})" for r, n in names)
    sh = H.coq_list(f"({H.coq_text(s)}, {H.z(hash(s))})" for s in sorted(strings))
    hs = H.coq_list(f"({r}, {H.z(h)})" for r, h in hashes)
    return f"(LE {cls} {m} {sh} {hs} {nm})"


def coq_kopt(desc) -> str:
    km = desc.get("km", "true")
    if km == "false":
        return "KFalse"
    if desc.get("mapper") == "fs":
        if km == "treedefault":
            return "(KCustom " + H.coq_list(f"({H.coq_text(k)}, {H.coq_text(v)})" for k, v in TREE_DEFAULT_KM.items()) + ")"
        if km != "custom":
            return "KTrue"
        return "(KCustom " + H.coq_list(f"({H.coq_text(k)}, {H.coq_text(v)})" for k, v in CUSTOM_KM_FS.items()) + ")"
    if km == "clash":
        return "(KCustom " + H.coq_list(f"({H.coq_text(k)}, {H.coq_text(v)})" for k, v in CLASH_KM.items()) + ")"
    if km == "custom" or desc.get("mapper") == "derived":
        return "(KCustom " + H.coq_list(f"({H.coq_text(k)}, {H.coq_text(v)})" for k, v in CUSTOM_KM.items()) + ")"
    return "KTrue"


def coq_vopt(desc) -> str:
    vm = desc.get("vm", "true")
    typed = bool(desc.get("typed"))
    custom_vm = CUSTOM_VM_TYPED if typed else CUSTOM_VM
    if vm == "false":
        return "VFalse"
    if desc.get("mapper") == "fs":
        return "VTrue"
    if vm == "custom_nokind":
        m = {"t": custom_vm["t"]}
    elif vm == "partial":
        m = PARTIAL_VM
    elif vm == "custom" or desc.get("mapper") == "derived":
        m = custom_vm
    else:
        return "VTrue"
    return "(VCustom " + H.coq_list(f"({H.coq_text(k)}, {H.coq_list(H.coq_text(x) for x in v)})" for k, v in m.items()) + ")"


def coq_sopts(desc, tree, U) -> str:
    typed = bool(desc.get("typed"))
    ms = desc.get("mapper", "cb")
    cls = "CFs" if ms == "fs" else "CTyped" if typed else "CPlain"
    m = {"none": "MNone", "cb": "MHarness", "derived": "MHarness", "fs": "MFs", "dw": "MDw"}[ms]
    pl = []
    seen = set()
    for n in B.all_nodes(tree._root):
        d = n._data
        if isinstance(d, str) or id(d) in seen:
            continue
        seen.add(id(d))
        pl.append(f"({H.z(U.index(d))}, {coq_dict(payload_of(d, ms))})")
    meta = coq_dict(desc.get("meta") or {})
    return f"(SO {cls} {m} {coq_kopt(desc)} {coq_vopt(desc)} {meta} {H.coq_list(pl)})"


# ---------------------------------------------------------------------------
# independent comparison of a source tree and a loaded tree
# ---------------------------------------------------------------------------
def value_repr(d):
    """what a rebuilt data object must reproduce (type and content)"""
    if isinstance(d, str):
        return ("s", d)
    try:
        t, v = tag_val(d)
    except TypeError:
        return ("?", repr(d))     # not a data object of the universe (e.g. a raw entry dict)
    return (t, repr(v))


def id_stable(n) -> bool:
    """the node's data_id survives a rebuild of its data: explicit/callback ids,
    strings and value-hashed data; not the default id of identity-hashed data"""
    d = n._data
    try:
        h = hash(d)
    except TypeError:      # unhashable data (a defective reader installed a raw dict): the id was given explicitly
        return True
    if n._data_id != h:
        return True
    return not (isinstance(d, (H.PlainObj, DictWrapper)) or is_fs_entry(d))


def ids_consistent(root) -> bool:
    """nodes with one data_id carry the same data (what 'clone' means); explicit ids
    can break this, then a reference can only reproduce the first occurrence's data"""
    seen = {}
    for n in B.all_nodes(root):
        v = seen.setdefault(n._data_id, n._data)
        if value_repr(v) != value_repr(n._data):
            return False
    return True


def tree_iso(src_root, dst_root, *, d40_expected=False, check_data=True):
    """None if the loaded tree reproduces the source: same shape and child order,
    rebuilt data, kinds, data_ids (where stable) and clone groups.  With
    d40_expected: the exact deviation of known finding D40 is required instead:
    a full entry of identity-hashed data gets a fresh id, so a clone whose kind
    differs from its first occurrence's leaves its group."""
    a = B.all_nodes(src_root)
    b = B.all_nodes(dst_root)
    if len(a) != len(b):
        return f"iso: node count {len(b)} != {len(a)}"

    def shape(n):
        return [shape(c) for c in (n._children or [])]

    if shape(src_root) != shape(dst_root):
        return "iso: shape differs"
    # One data_id stands for one data object.  Where the caller gave two DIFFERENT objects one explicit data_id (outside
    # the property's domain, see C05_outside_domain_same_id_different_data) the format can only keep the first one:
    # a node written as a reference (same data_id AND kind as the first occurrence) must come back with the FIRST
    # occurrence's data -- exactly that, so another deviation in this region is still reported.
    first = {}
    exp_data = []
    for x in a:
        fk = first.get(x._data_id)
        exp_data.append(fk[0] if fk is not None and fk[1] == getattr(x, "_kind", None) else x._data)
        if fk is None:
            first[x._data_id] = (x._data, getattr(x, "_kind", None))
    for i, (x, y) in enumerate(zip(a, b)):
        if value_repr(exp_data[i]) != value_repr(y._data):
            return f"iso: data of node #{i + 1} rebuilt as {y._data!r}, expected {exp_data[i]!r}"
        if getattr(x, "_kind", None) != getattr(y, "_kind", None):
            return f"iso: kind of node #{i + 1} is {getattr(y, '_kind', None)!r}, expected {getattr(x, '_kind', None)!r}"
        if id_stable(x) and x._data_id != y._data_id:
            return f"iso: data_id of node #{i + 1} is {y._data_id!r}, expected {x._data_id!r}"
    # clone groups: the partition of positions by data_id
    def groups(nodes):
        g = {}
        for i, n in enumerate(nodes):
            g.setdefault(n._data_id, []).append(i)
        return sorted(g.values())

    ga, gb = groups(a), groups(b)
    if d40_expected:
        # expected defective partition: nodes that are written as references stay with
        # their first occurrence; every other node of unstable id is alone
        exp = {}
        first = {}
        for i, n in enumerate(a):
            fk = first.get(n._data_id)
            if fk is not None and fk[1] == getattr(n, "_kind", None):
                exp[i] = exp[fk[0]]
            elif id_stable(n):
                exp[i] = ("id", n._data_id)
            else:
                exp[i] = ("fresh", i)
            if fk is None:
                first[n._data_id] = (i, getattr(n, "_kind", None))
        g = {}
        for i, k in exp.items():
            g.setdefault(k, []).append(i)
        if sorted(g.values()) != gb:
            return f"iso: clone groups {gb}, expected (with D40) {sorted(g.values())}"
        if ga != gb:
            return f"D40: clone groups {gb} instead of {ga}"
        return None
    if ga != gb:
        return f"iso: clone groups {gb}, expected {ga}"
    return None


def in_d40_region(root) -> bool:
    """some node of identity-hashed data without explicit id follows a first
    occurrence of the same data_id with a different kind"""
    first = {}
    for n in B.all_nodes(root):
        k = getattr(n, "_kind", None)
        fk = first.get(n._data_id)
        if fk is not None and fk != k and not id_stable(n):
            return True
        if fk is None:
            first[n._data_id] = k
    return False


# ---------------------------------------------------------------------------
# the literal example documents of the user guide
# ---------------------------------------------------------------------------
def doc_examples():
    import gen_facts

    out = []
    for d in gen_facts.doc_examples():
        def conv(v):
            if isinstance(v, tuple) and v and v[0] == "dict":
                return {k: conv(x) for k, x in v[1]}
            if isinstance(v, list):
                return [conv(x) for x in v]
            return v
        out.append(conv(d))
    return out


class DocObj:
    """Department / Person of the user guide: value semantics"""

    def __init__(self, typ, name, **kw):
        self.typ, self.name, self.kw = typ, name, tuple(sorted(kw.items()))

    def __eq__(self, o):
        return isinstance(o, DocObj) and (self.typ, self.name, self.kw) == (o.typ, o.name, o.kw)

    def __hash__(self):
        return hash((self.typ, self.name, self.kw))

    def __str__(self):
        return self.name


def doc_deser_mapper(parent, data):
    node_type = data["type"]
    if node_type == "person":
        return DocObj("person", data["name"], age=data["age"], guid=data["guid"])
    elif node_type == "dept":
        return DocObj("dept", data["name"])
    return data


# the trees the guide says these documents describe: (name, children), clones share the name
DOC_TREES = [
    [("A", [("a1", [("a11", []), ("a12", [])]), ("a2", [])]), ("B", [("a11", []), ("b1", [("b11", [])])])],
] + [
    [("Development", [("Alice", []), ("Bob", []), ("Charleen", [])]), ("Marketing", [("Charleen", []), ("Dave", [])])],
] * 3
