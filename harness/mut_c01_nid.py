"""Part NODEID (host C01): explicit node ids.  `add_child(data, node_id=z)` next to the ordinary operations, against
Mut/MachineNodeId.v (Cases/CaseNodeId.v).  Observed after every step: result, the whole state (as mut.World.obs) and the
KEYS of `_node_by_id` of every tree.  Oracle (model-independent): every reachable node is found under its own node_id
(`tree._node_by_id[n.node_id] is n`), the registry has exactly one entry per reachable node, and a call whose node_id is
0 or is registered in the target tree raises AssertionError (unless an earlier check fails) and changes no tree."""
from __future__ import annotations

import common as H
import mut

UNIV = ["s:a", "s:b", "s:c", "s:d"]
KEYS = [0, 5, 5, 6, 7, -3]


def _reach(t):
    out = []

    def walk(n):
        for c in (n._children or []):
            out.append(c)
            walk(c)
    walk(t._root)
    return out


def key_obs(w):
    return [[[w.rel(n), 0 if k == id(n) else int(k)] for k, n in t._node_by_id.items()] for t in w.trees]


def exec_k(w, op):
    """(thunk, coq term of the opk)"""
    if op[0] != "addid":
        thunk, coq, _ = mut.execute(w, op)
        return thunk, f"(KOp {coq})"
    _, ti, p, d, did, z = op
    pn = w.parent_ref(ti, p)
    if pn is None:
        raise mut.NotLive()
    kind = None
    coq = f"(KAddId {ti} {p} {w.coq_dat(d)} {mut.coq_odid(did)} {mut.coq_kind(kind)} {mut.coq_before(None)} {H.z(z)})"
    kw = {"node_id": z}
    if did is not None:
        kw["data_id"] = did
    tgt = w.trees[ti] if p == 0 else pn
    return (lambda: [w.rel(tgt.add_child(w.dobj(d), **kw))]), coq


def oracle(w, op, res, before_state):
    for ti, t in enumerate(w.trees):
        nodes = _reach(t)
        if len(t._node_by_id) != len(nodes):
            return f"tree {ti}: {len(nodes)} reachable nodes but {len(t._node_by_id)} registry entries"
        for n in nodes:
            if t._node_by_id.get(n._node_id) is not n:
                return f"tree {ti}: node {w.rel(n)} is not found under its own node_id"
            if n.node_id != n._node_id:
                return f"tree {ti}: node {w.rel(n)}: property node_id differs from the registry key"
    return None


class NodeIdPart:
    tag = "nodeid"
    case_module = "CaseNodeId"
    case_vo = "theories/Cases/CaseNodeId.vo"
    run_fn = "run_nid"
    rule = ("histories over 1-2 plain trees (one in four with a calc_data_id callback) of add_child(data, node_id=z) with z from a small pool that "
            "repeats (0, negative, a key in use in the same tree, a key in use in ANOTHER tree, the key of a removed node, with a "
            "colliding data_id as well), ordinary add, remove (x keep_children), add(node) copies, Tree.copy, move, set_data; after "
            "every step result + state + registry keys equal the model's; oracle: every reachable node is found under its own "
            "node_id, one registry entry per reachable node, a taken / zero node_id is refused with AssertionError and no tree changes")

    def descs(self, tier, rng):
        fixed = [
            [["new", False, None], ["addid", 0, 0, 0, None, 7], ["addid", 0, 0, 1, None, 7]],                       # audit C01 F1 witness
            [["new", False, None], ["addid", 0, 0, 0, None, 7], ["addid", 0, 0, 0, None, 7]],                       # key AND data collide: assertion first
            [["new", False, None], ["addid", 0, 0, 0, None, 0]],
            [["new", False, None], ["new", False, None], ["addid", 0, 0, 0, None, 7], ["addid", 1, 0, 0, None, 7]],  # same key, other tree: fine
            [["new", False, None], ["addid", 0, 0, 0, None, 7], ["remove", 0, 1, False, False], ["addid", 0, 0, 1, None, 7]],
            [["new", False, None], ["addid", 0, 0, 0, None, 7], ["treecopy", 0], ["addid", 1, 0, 1, None, 7], ["addid", 1, 0, 2, None, 7]],
            [["new", False, None], ["addid", 0, 0, 0, None, 7], ["addid", 0, 1, 1, None, 5], ["addid", 0, 2, 2, None, 7], ["addid", 0, 0, 0, None, 6]],
        ]
        for ops in fixed:
            yield dict(univ=UNIV, ops=ops)
        for i in range(24 if tier == "quick" else 600):
            yield dict(univ=UNIV, ops=self.gen(rng, 12 if tier == "quick" else 25, calc=(i % 4 == 3)))

    def gen(self, rng, n_ops, calc=False):
        w = mut.World(UNIV)
        ops = []

        def do(op):
            ops.append(op)
            try:
                thunk, _ = exec_k(w, op)
                thunk()
            except Exception:
                pass

        do(["new", False, ("name" if calc else None)])
        if rng.random() < 0.4:
            do(["new", False, None])
        for _ in range(n_ops):
            ti = rng.randrange(len(w.trees))
            live = [w.rel(n) for n in _reach(w.trees[ti])]
            r = rng.random()
            p = rng.choice([0] + live)
            if r < 0.45:
                do(["addid", ti, p, rng.randrange(len(UNIV)), rng.choice([None, None, 1, 2]), rng.choice(KEYS)])
            elif r < 0.6:
                do(["add", ti, p, rng.randrange(len(UNIV)), None, None, None])
            elif r < 0.72 and live:
                do(["remove", ti, rng.choice(live), rng.random() < 0.4, False])
            elif r < 0.8 and live:
                sti = rng.randrange(len(w.trees))
                sl = [w.rel(n) for n in _reach(w.trees[sti])]
                if sl:
                    do(["addnode", ti, p, sti, rng.choice(sl), None, None, None, rng.choice([None, True])])
            elif r < 0.86 and len(w.trees) < 3:
                do(["treecopy", ti])
            elif r < 0.93 and live:
                do(["move", ti, rng.choice(live), ti, p, None])
            elif live:
                do(["set_data", ti, rng.choice(live), rng.randrange(len(UNIV)), None, None])
        return ops

    def shrink_candidates(self, desc):
        ops = desc["ops"]
        for i in range(len(ops) - 1, 0, -1):
            if ops[i][0] in ("addid", "set_data", "move") or (ops[i][0] == "add" and i == len(ops) - 1):
                yield dict(univ=desc["univ"], ops=ops[:i] + ops[i + 1:]) if ops[i][0] in ("set_data", "move") else dict(univ=desc["univ"], ops=ops[:i])

    def run(self, desc):
        w = mut.World(desc["univ"])
        obs, terms, fail, nontrivial = [], [], None, False
        stats = {}
        for si, op in enumerate(desc["ops"]):
            try:
                thunk, coq = exec_k(w, op)
            except mut.NotLive:
                raise H.ImplError(f"nodeid part: step {si} refers to a node that is not live: {op}")
            terms.append(coq)
            before = (w.obs(), key_obs(w))
            alloc0 = w.allocated()
            try:
                res = [0, thunk()]
            except Exception as e:   # the outcome is an observation
                res = [1, H.err_class(e)]
            after = (w.obs(), key_obs(w))
            obs.append([res, after[0], after[1], True])
            nontrivial = nontrivial or after != before
            kind = op[0] + (":" + H.ERR_NAMES.get(res[1], str(res[1])) if res[0] else "")
            stats[kind] = stats.get(kind, 0) + 1
            if fail is None:
                msg = oracle(w, op, res, before)
                if msg is None and op[0] == "addid":
                    _, ti, p, d, did, z = op
                    taken = z == 0 or any(k == z for ks in [before[1][ti]] for _n, k in ks)
                    if taken and res[0] == 0:
                        msg = f"add_child(node_id={z}) accepted although that node_id is {'zero' if z == 0 else 'registered in the tree'}"
                    elif taken and after != before:
                        msg = f"add_child(node_id={z}) was refused but a tree changed"
                    elif taken and res[1] != 6:
                        msg = f"add_child(node_id={z}) with a taken node_id failed with {H.ERR_NAMES.get(res[1], res[1])}, not with the assertion"
                    elif not taken and res[0] == 0:
                        if [w.rel(n) for n in [w.trees[ti]._node_by_id.get(z)]] != res[1]:
                            msg = f"add_child(node_id={z}) succeeded but the tree does not find the new node under {z}"
                if msg:
                    fail = f"nodeid: {msg} [step {si}, op {op[0]}]"
        term = f"(CNid {H.coq_list(terms)})"
        return H.Case(desc=desc, coq_input=term, impl_obs=obs, oracle_fail=fail, nontrivial=nontrivial,
                      key=H.digest([desc["univ"], desc["ops"]]), stats=dict(stats, kind="node_id history"))


NID_PART = NodeIdPart()
