# M13: header check accepts any generator mentioning "nutree" (no slash)
p='/root/wt/repo-C05/nutree/tree.py'; s=open(p).read()
old='''            or "nutree/" not in str(obj["meta"]["$generator"])
'''
assert old in s; s=s.replace(old,'''            or "nutree" not in str(obj["meta"]["$generator"])
''',1)
open(p,'w').write(s)
