# M5: the path branch of save() forgets to hand the meta on
p='/root/wt/repo-C05/nutree/tree.py'; s=open(p).read()
old="""                return self.save(
                    target=fp,
                    mapper=mapper,
                    meta=meta,
"""
assert old in s; s=s.replace(old,"""                return self.save(
                    target=fp,
                    mapper=mapper,
""",1)
open(p,'w').write(s)
