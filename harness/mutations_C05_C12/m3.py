# M3: value_map index base 1 in writer AND reader (round trip still works)
p='/root/wt/repo-C05/nutree/node.py'; s=open(p).read()
old="k: {v: i for i, v in enumerate(a)} for k, a in value_map.items()"
assert old in s; s=s.replace(old,"k: {v: i for i, v in enumerate(a, 1)} for k, a in value_map.items()",1)
open(p,'w').write(s)
p='/root/wt/repo-C05/nutree/tree.py'; s=open(p).read()
old="                data[long_key] = value_map[long_key][value]\n"
assert old in s; s=s.replace(old,"                data[long_key] = value_map[long_key][value - 1]\n",1)
open(p,'w').write(s)
