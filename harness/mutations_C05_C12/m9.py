# M9: reader re-creates a clone without handing on the first occurrence's data_id
p='/root/wt/repo-C05/nutree/tree.py'; s=open(p).read()
old="                n = parent.add(first_clone, data_id=first_clone.data_id)\n"
assert old in s; s=s.replace(old,"                n = parent.add(first_clone)\n",1)
open(p,'w').write(s)
