# M15: TypedTree.save resolves key_map=True to the plain Tree default (kind not shortened); reader unaffected
p='/root/wt/repo-C05/nutree/tree.py'; s=open(p).read()
old="            key_map = self.DEFAULT_KEY_MAP\n"
assert old in s; s=s.replace(old,"            key_map = Tree.DEFAULT_KEY_MAP\n",1)
open(p,'w').write(s)
