# M10: typed reader re-creates a clone with the default kind
p='/root/wt/repo-C05/nutree/typed_tree.py'; s=open(p).read()
old="""                n = parent.add(
                    first_clone, kind=first_clone.kind, data_id=first_clone.data_id
                )
"""
assert old in s; s=s.replace(old,"""                n = parent.add(first_clone, data_id=first_clone.data_id)
""",1)
open(p,'w').write(s)
