# M2: a reference is written although the kinds differ
p='/root/wt/repo-C05/nutree/node.py'; s=open(p).read()
old="                if node_kind == clone_kind:\n"
assert old in s; s=s.replace(old,"                if node_kind == clone_kind or True:\n",1)
open(p,'w').write(s)
