# M4: key_map applied to the user's meta keys too
p='/root/wt/repo-C05/nutree/tree.py'; s=open(p).read()
old="            header.update(meta)\n"
assert old in s; s=s.replace(old,"            header.update({key_map.get(k, k): v for k, v in meta.items()})\n",1)
open(p,'w').write(s)
