# M12: header check forgets the generator member
p='/root/wt/repo-C05/nutree/tree.py'; s=open(p).read()
old="""            or "$generator" not in obj["meta"]
            or "nutree/" not in str(obj["meta"]["$generator"])
"""
assert old in s; s=s.replace(old,"",1)
open(p,'w').write(s)
