# M6: header key "$key_map" renamed consistently in writer and reader
p='/root/wt/repo-C05/nutree/tree.py'; s=open(p).read()
assert s.count('"$key_map"')==2
s=s.replace('"$key_map"','"$keymap"')
open(p,'w').write(s)
