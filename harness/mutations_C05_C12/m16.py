# M16: the clone map also remembers nodes written as full entries of another kind (later clones refer to the LAST full entry)
p='/root/wt/repo-C05/nutree/node.py'; s=open(p).read()
old="""            elif node.is_clone():
                # First instance of a clone node: take a note
                clone_idx_and_kind_map[data_id] = (id_gen, node_kind)
"""
new="""            if not clone_idx or node_kind != clone_kind:
                if node.is_clone():
                    clone_idx_and_kind_map[data_id] = (id_gen, node_kind)
"""
assert old in s; s=s.replace(old,new,1)
open(p,'w').write(s)
