# M1: register the parent index only after the clone check: children of a node written as a reference lose their parent
p='/root/wt/repo-C05/nutree/node.py'; s=open(p).read()
old="""            node_id = node._node_id
            if node._children:
                parent_id_map[node_id] = id_gen

"""
assert old in s; s=s.replace(old,"            node_id = node._node_id\n",1)
old2="""            # If node.data is more complex than a simple string, or if we use a
            # custom data_id, we store data as a dict instead of a str:
            data = self._make_list_entry(node)
"""
assert old2 in s
s=s.replace(old2,"""            if node._children:
                parent_id_map[node_id] = id_gen
"""+old2,1)
open(p,'w').write(s)
