# M7: reader tests the SHORT key against the value map
p='/root/wt/repo-C05/nutree/tree.py'; s=open(p).read()
old="            if isinstance(value, int) and long_key in value_map:\n"
assert old in s; s=s.replace(old,"            if isinstance(value, int) and key in value_map:\n",1)
open(p,'w').write(s)
