# M8: entry index base 0 in writer and reader (root = -1): consistent, files unreadable by others
p='/root/wt/repo-C05/nutree/node.py'; s=open(p).read()
old="        parent_id_map = {self._node_id: 0}\n"; assert old in s; s=s.replace(old,"        parent_id_map = {self._node_id: -1}\n",1)
old="        for id_gen, node in enumerate(self, 1):\n"; assert old in s; s=s.replace(old,"        for id_gen, node in enumerate(self, 0):\n",1)
old="            if clone_idx:\n"; assert old in s; s=s.replace(old,"            if clone_idx is not None:\n",1)
open(p,'w').write(s)
for p in ['/root/wt/repo-C05/nutree/tree.py','/root/wt/repo-C05/nutree/typed_tree.py']:
    s=open(p).read()
    assert "{0: tree._root}" in s and "enumerate(obj, 1)" in s
    s=s.replace("{0: tree._root}","{-1: tree._root}").replace("enumerate(obj, 1)","enumerate(obj, 0)")
    open(p,'w').write(s)
