#!/bin/sh
# usage: mutate.sh <name> <python-snippet-file>
export NUTREE_REPO=/root/wt/repo-C05
F=/root/wt/verif-C05/fixes   # adjust both paths to your worktrees
cd /root/wt/verif-C05
/venv/bin/python "$2" || { echo "MUTATION SCRIPT FAILED"; exit 1; }
echo "##### mutation $1"; git -C $NUTREE_REPO diff --stat | tail -1
(cd $NUTREE_REPO && env -u MAR10_NUTREE_VERIF /venv/bin/python -m pytest -q -p no:cacheprovider -o addopts="" 2>&1 | tail -1)
for P in C12 C05; do bin/check $P --tier quick 2>&1 | grep -v KNOWN | tail -3; echo "exit=$?"; for f in replays/$P-20260926-*.json; do [ -f "$f" ] && /venv/bin/python -c "
import json
d=json.load(open('$f')); print('   case:', json.dumps(d.get('case') or (d.get('first_disagreement') or {}).get('case'))[:300]); print('   why :', (d.get('oracle') or str(d.get('no_longer_checks')))[:260])
"; done; mkdir -p .work/mut_$1; mv replays/$P-20260926-*.json .work/mut_$1/ 2>/dev/null; done
git -C $NUTREE_REPO checkout -- . ; for O in D12 D18 D19 D50; do git -C $NUTREE_REPO apply $F/$O.diff; done
