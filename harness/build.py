"""Build real nutree trees from JSON-able descriptions.

tree description:
  {"typed": bool, "univ": ["s:a", "e:1", ...], "nodes": [NODE*], "calc": null|"name"|"mod7"}
  NODE = [label_index, kind|null, data_id|null, [NODE*]]
Universe entries (each entry is one distinct Python object):
  s:<str>  i:<int>  t:<a,b>  e:<v> (value-equal objects)  p:<v> (identity-hashed)
  d:<v> (frozen dataclass)  w:<v> (DictWrapper)
"""
from __future__ import annotations

import dataclasses

import common as H
from common import Tree, TypedTree, Universe
from nutree.common import DictWrapper


@dataclasses.dataclass(frozen=True)
class DC:
    v: int
    w: str = "x"

    def __str__(self):
        return f"DC{self.v}"


def make_obj(spec: str):
    k, _, v = spec.partition(":")
    if k == "s":
        return v
    if k == "i":
        return int(v)
    if k == "t":
        return tuple(int(x) for x in v.split(",") if x)
    if k == "e":
        return H.EqObj(int(v))
    if k == "p":
        return H.PlainObj(int(v))
    if k == "d":
        return DC(int(v))
    if k == "w":
        return DictWrapper({"v": int(v)})
    raise ValueError(spec)


def make_universe(specs) -> Universe:
    return Universe([make_obj(s) for s in specs])


def calc_fn(name):
    if name is None:
        return None
    if name == "name":
        return lambda tree, data: f"{data}"
    if name == "mod7":
        return lambda tree, data: hash(data) % 7
    raise ValueError(name)


def new_tree(desc, name="T"):
    cls = TypedTree if desc.get("typed") else Tree
    return cls(name, calc_data_id=calc_fn(desc.get("calc")))


def add_nodes(parent, nodes, U, typed):
    for lbl, kind, did, kids in nodes:
        kw = {}
        if typed:
            kw["kind"] = kind if kind is not None else "child"
        if did is not None:
            kw["data_id"] = did
        n = parent.add(U.objs[lbl], **kw)
        add_nodes(n, kids, U, typed)


def build(desc):
    U = make_universe(desc["univ"])
    t = new_tree(desc)
    add_nodes(t._root, desc["nodes"], U, bool(desc.get("typed")))
    if desc.get("post"):
        apply_post(t, U, desc["post"], bool(desc.get("typed")))
    return t, U


def apply_post(tree, U, post, typed=False):
    """Mutation history applied after the build, so that read-only properties are also checked on trees that were
    REACHED THROUGH A HISTORY (emptied child lists, creation order different from pre-order, re-parented nodes).
    post = [OP*]; node arguments are pre-order indices (modulo the current node count) at the time of the op;
    operations the library refuses are skipped.  OP =
      ["remove", i] | ["remove_keep", i] | ["remove_children", i] | ["move", i, j|null, before] | ["sort", i, reverse]
      | ["add", i, label, kind, before]   (i = -1: below the tree itself)"""
    for op in post:
        nodes = all_nodes(tree._root)
        try:
            k = op[0]
            if k == "add":
                parent = tree if op[1] == -1 or not nodes else nodes[op[1] % len(nodes)]
                kw = {"kind": op[3] or "child"} if typed else {}
                if op[4] is not None:
                    kw["before"] = op[4]
                parent.add(U.objs[op[2] % len(U.objs)], **kw)
                continue
            if not nodes:
                continue
            n = nodes[op[1] % len(nodes)]
            if k == "remove":
                n.remove()
            elif k == "remove_keep":
                n.remove(keep_children=True)
            elif k == "remove_children":
                n.remove_children()
            elif k == "move":
                target = tree if op[2] is None else nodes[op[2] % len(nodes)]
                n.move_to(target, before=op[3])
            elif k == "sort":
                n.sort_children(reverse=bool(op[2]))
        except Exception:  # noqa: BLE001  (refused / invalid for this tree: skipped)
            pass


def random_post(rng, n_nodes, n_labels, typed=False, kinds=("a", "b", "c"), allowed=None):
    """1-3 random post operations (see apply_post), biased towards the shapes that fresh builds never have."""
    ops = []
    for _ in range(rng.randint(1, 3)):
        k = rng.choice([x for x in ["remove_keep", "remove_keep", "move", "move", "add", "add", "remove", "remove_children", "sort"]
                        if allowed is None or x in allowed])
        i = rng.randrange(max(1, n_nodes))
        if k == "move":
            ops.append(["move", i, rng.choice([None, rng.randrange(max(1, n_nodes))]), rng.choice([None, True, 0, 1])])
        elif k == "add":
            ops.append(["add", rng.choice([-1, i]), rng.randrange(max(1, n_labels)), rng.choice(kinds) if typed else None,
                        rng.choice([None, True, 0])])
        elif k == "sort":
            ops.append(["sort", i, rng.choice([0, 1])])
        else:
            ops.append([k, i])
    return ops


def shape_to_nodes(shape, labeler):
    """shape: nested tuples; labeler(pre_index, depth, sib_index) -> (label, kind, did)."""
    counter = [0]

    def go(f, depth):
        out = []
        for si, t in enumerate(f):
            i = counter[0]
            counter[0] += 1
            lbl, kind, did = labeler(i, depth, si)
            out.append([lbl, kind, did, go(t, depth + 1)])
        return out

    return go(shape, 0)


def nodes_size(nodes):
    return sum(1 + nodes_size(n[3]) for n in nodes)


def nodes_depth(nodes):
    return 0 if not nodes else 1 + max(nodes_depth(n[3]) for n in nodes)


def drop_one_node(nodes):
    """Shrinking: all forests obtained by deleting one leaf or lifting one node's children."""
    for i, n in enumerate(nodes):
        if not n[3]:
            yield nodes[:i] + nodes[i + 1:]
        else:
            yield nodes[:i] + n[3] + nodes[i + 1:]
            for sub in drop_one_node(n[3]):
                yield nodes[:i] + [[n[0], n[1], n[2], sub]] + nodes[i + 1:]


def all_nodes(root):
    """Pre-order list of nodes below a (system root) node, by pointers."""
    out = []

    def go(n):
        for c in (n._children or []):
            out.append(c)
            go(c)

    go(root)
    return out
