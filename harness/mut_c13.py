"""C13 engine: refused or failing operations do not corrupt the tree.

Built on harness/mut.py (history vocabulary, `World`, `execute`, the C01-C03 oracles); nothing of mut.py
is changed.  What this module adds:

* ``snapshot(world)``: a deep, pointer-level picture of every tree - the identity of every node object in
  every child list (order included), of its data object, its `_parent` and `_tree` pointers, its data_id,
  node_id, kind and a copy of its metadata, the `_node_by_id` dict (keys and value identities, dict order)
  and the `_nodes_by_data_id` dict (keys, identities inside every clone list, dict and list order).
* ``replay13(hist)``: mut.replay with, around EVERY step, the snapshot comparison
      refused (UniqueConstraintError, AmbiguousMatchError, ValueError, NotImplementedError, KeyError of a lookup)
          => snapshot unchanged                                            ("deep-refusal")
      fails by itself with any other exception (no user callback raised) => snapshot unchanged   ("failing-op")
      Tree.copy() / Node.copy() => every tree that existed before is unchanged   ("copy-purity")
      add(node) / add(tree) / copy_to from another tree => the source tree is unchanged   ("copy-purity")
      sort / in-place filter, clean or with a raising callback => only the documented partial effect: sort permutes
          the (parent, node, payload) rows of the one tree and leaves registry and index alone, filter only removes rows
          ("partial-effect")
  plus the C01-C03 oracles of mut.py after every step (also after an escaped callback exception).
* generators: ``invalid_groups`` (every operation with every documented-invalid argument on every forest
  <= N nodes, two trees so that nodes / trees of another tree can be named), ``fault_descs`` (for every
  operation that takes a user callback: one clean run counting the invocations, then one history per
  invocation k in which exactly that invocation raises - in the table form the model understands), and
  ``probe`` cases (call-index fault injection and read-only operations through the raw API, oracles only).
"""
from __future__ import annotations

import copy as _copy
import io
import itertools
import os
import sys
import tempfile

import build as B
import common as H
import mut
from common import Tree, TypedTree, Node
from mut import CallbackFault, NotLive, World, execute

REFUSALS = mut.LIB_ERRORS + (4,)     # + KeyError of `del tree[key]` / tree[key]: an invalid target
STRUCT_ORACLES = ("wf", "index", "sibling")


# ---------------------------------------------------------------------------
# deep snapshot
# ---------------------------------------------------------------------------
def _meta_snap(m):
    if m is None:
        return None
    return (id(m), tuple((repr(k), repr(v), id(v)) for k, v in m.items()))


def snap_tree(t):
    def node(n, depth=0):
        if depth > 300:
            return ("cut",)
        return (id(n), id(n._data), repr(n._data_id), n._node_id, getattr(n, "_kind", None), _meta_snap(n._meta),
                id(n._parent), id(n._tree), tuple(node(c, depth + 1) for c in (n._children or [])))

    root = t._root
    return (id(t), id(root), id(root._tree), tuple(node(c) for c in (root._children or [])),
            tuple((k, id(v)) for k, v in t._node_by_id.items()),
            tuple((repr(k), tuple(id(x) for x in v)) for k, v in t._nodes_by_data_id.items()))


def snapshot(w: World):
    return tuple(snap_tree(t) for t in w.trees)


_FIELDS = ("node object", "data object", "data_id", "node_id", "kind", "meta", "_parent", "_tree")


def _node_diff(xs, ys, path="top"):
    """which node and which field differ first (child lists of snapshots)"""
    if len(xs) != len(ys):
        return f" [{path}: {len(xs)} -> {len(ys)} children]"
    for j, (a, b) in enumerate(zip(xs, ys)):
        if a == b:
            continue
        if len(a) < 9 or len(b) < 9:
            return f" [{path}/{j}]"
        for k, nm in enumerate(_FIELDS):
            if a[k] != b[k]:
                if nm == "meta":
                    return f" [{path}/{j}: meta {a[k] and [m[:2] for m in a[k][1]]} -> {b[k] and [m[:2] for m in b[k][1]]}]"
                return f" [{path}/{j}: {nm}]"
        return _node_diff(a[8], b[8], f"{path}/{j}")
    return ""


def snap_diff(a, b):
    """short description of the first difference between two snapshots"""
    if len(a) != len(b):
        return f"number of trees {len(a)} -> {len(b)}"
    for i, (x, y) in enumerate(zip(a, b)):
        if x == y:
            continue
        names = ("tree object", "root object", "root._tree", "node graph (child lists / data / data_id / meta / _parent / _tree)",
                 "_node_by_id", "_nodes_by_data_id")
        for k, nm in enumerate(names):
            if x[k] != y[k]:
                return f"tree {i}: {nm} changed" + (_node_diff(x[k], y[k]) if k == 3 else "")
    return "?"


def obs_rows(tree_obs):
    """(parent id, node id, payload) rows of one observed tree = Coq `rows 0 forest`"""
    out = []

    def go(p, lst):
        for nid_, payload, kids in lst:
            out.append((p, nid_, H.digest(payload)))
            go(nid_, kids)

    go(0, tree_obs[0])
    return out


def partial_effect_fail(step):
    """sort (clean or with a raising key): per tree the rows are permuted, registry and index untouched;
    in-place filter (clean or with a raising predicate): every remaining row was there before."""
    op = step["op"]
    if op[0] not in ("sort", "filter") or step["res"] == [1, mut.EMODEL]:
        return None
    b, a = step["before"], step["after"]
    if len(a) != len(b):
        return f"{op[0]} changed the number of trees"
    for ti, (tb, ta) in enumerate(zip(b, a)):
        rb, ra = obs_rows(tb), obs_rows(ta)
        if ti != op[1]:
            if tb != ta:
                return f"{op[0]} changed tree {ti}, which it does not name"
            continue
        if op[0] == "sort":
            if sorted(rb) != sorted(ra):
                return "sort: a node changed its parent or payload, or was lost / duplicated"
            if tb[1] != ta[1] or tb[2] != ta[2]:
                return "sort changed the node registry or the clone index"
        else:
            sb = set(rb)
            if any(r not in sb for r in ra) or len(set(ra)) != len(ra):
                return "filter: a remaining node has another parent / payload than before, or appears twice"
    return None


def struct_fail(w: World):
    """first failure of the C01-C03 oracles on any tree of the world"""
    for t in w.trees:
        for fn in (mut.wf_oracle, mut.index_oracle, mut.sibling_oracle):
            try:
                m = fn(t, w)
            except Exception as e:  # an oracle that cannot even walk the tree: corrupted
                m = f"{fn.__name__} raised {type(e).__name__}: {e}"
            if m:
                return m
    return None


# ---------------------------------------------------------------------------
# replay with snapshots
# ---------------------------------------------------------------------------
def replay13(hist, keep_world=False) -> mut.Run:
    w = World(hist["univ"])
    run = mut.Run()
    before = w.obs()
    for si, op in enumerate(hist["ops"]):
        alloc0 = w.allocated()
        ntrees0 = len(w.trees)
        try:
            thunk, coq, _ = execute(w, op)
        except NotLive:
            run.coq_ops.append("(OClear 999)")
            res = [1, mut.EMODEL]
            run.obs.append([res, before])
            run.steps.append(dict(op=op, res=res, before=before, after=before, new_ids=[], coq=run.coq_ops[-1]))
            continue
        run.coq_ops.append(coq)
        snap0 = snapshot(w)
        _old = sys.getrecursionlimit()
        sys.setrecursionlimit(mut.OP_RECURSION_LIMIT)
        injected = False
        try:
            res = [0, thunk()]
        except RecursionError:
            res = [1, 8]
        except Exception as e:
            res = mut.outcome_of(e)   # an unusable data_id (raising hook, unhashable value) is ONE outcome, as in mut.replay
            if isinstance(e, CallbackFault):
                injected = True
        finally:
            sys.setrecursionlimit(_old)
        after = w.obs()
        snap1 = snapshot(w)
        step = dict(op=op, res=res, before=before, after=after, new_ids=list(range(alloc0 + 1, w.allocated() + 1)),
                    new_trees=list(range(ntrees0, len(w.trees))), coq=coq)
        run.obs.append([res, after])
        run.steps.append(step)
        kind = op[0] + (":" + H.ERR_NAMES.get(res[1], str(res[1])) if res[0] else "")
        run.stats[kind] = run.stats.get(kind, 0) + 1
        # --- oracles -------------------------------------------------------
        m = struct_fail(w)
        if m:
            run.fails.append((si, "struct", m + (f" [after {H.ERR_NAMES.get(res[1], res[1])}]" if res[0] else "")))
        m = mut.refusal_oracle(step)
        if m:
            run.fails.append((si, "refusal", m))
        m = partial_effect_fail(step)
        if m:
            run.fails.append((si, "partial-effect", m + (" [after an escaped callback exception]" if injected else "")))
        if res[0] == 1 and res[1] in REFUSALS and snap0 != snap1:
            run.fails.append((si, "deep-refusal", f"{op[0]} was refused with {H.ERR_NAMES[res[1]]} but {snap_diff(snap0, snap1)}"))
        if res[0] == 1 and res[1] not in REFUSALS and not injected and snap0 != snap1:
            # an operation that fails by itself (no user callback raised) with any other exception
            run.fails.append((si, "failing-op", f"{op[0]} failed with {H.ERR_NAMES.get(res[1], res[1])} (no callback fault) and {snap_diff(snap0, snap1)}"))
        if res[0] == 0 and op[0] in ("treecopy", "nodecopy") and snap1[:len(snap0)] != snap0:
            run.fails.append((si, "copy-purity", f"{op[0]} changed its source: {snap_diff(snap0, snap1[:len(snap0)])}"))
        if op[0] in ("addnode", "addtree", "copyto"):
            # the source of a copy: when it is another tree than the target, that tree is unchanged
            sti, ti = (op[3], op[1]) if op[0] in ("addnode", "addtree") else (op[1], op[3])
            if op[0] == "addtree":
                sti = op[3]
            if sti != ti and sti < len(snap0) and sti < len(snap1) and snap0[sti] != snap1[sti]:
                run.fails.append((si, "copy-purity", f"{op[0]} changed its source tree {sti}: {snap_diff(snap0[sti:sti + 1], snap1[sti:sti + 1])}"))
        before = after
    if keep_world:
        run.world = w
    return run


def run_group13(group):
    setup = replay13({"univ": group["univ"], "ops": group["setup"]})
    runs = [replay13({"univ": group["univ"], "ops": group["setup"] + [alt]}) for alt in group["alts"]]
    obs = [setup.obs, [r.obs[-1] for r in runs]]
    return mut.coq_alts(setup, runs), obs, runs, setup


# ---------------------------------------------------------------------------
# (a) every operation with every documented-invalid argument
# ---------------------------------------------------------------------------
def _index(shape_nodes):
    ids, kids, label_of = [], {0: []}, {}

    def go(p, lst):
        for lbl, kind, did, ch in lst:
            me = len(ids) + 1
            ids.append(me)
            kids[p].append(me)
            kids[me] = []
            label_of[me] = (lbl, did)
            go(me, ch)

    go(0, shape_nodes)
    par = {c: p for p, cs in kids.items() for c in cs}
    return ids, kids, label_of, par


def _desc(kids, x):
    out = []
    for c in kids[x]:
        out.append(c)
        out += _desc(kids, c)
    return out


def invalid_alts(shape_nodes, univ, typed, other, families=None, thin=False):
    """Alternatives that the documentation declares invalid (plus their nearest valid neighbours, so that the
    refusal is seen to depend on exactly the invalid part).  Tree 0 holds the forest `shape_nodes` (ids 1..n),
    tree 1 (`other` = dict(top=id, child=id, top_lbl, child_lbl)) is a second tree of the same class."""
    ids, kids, label_of, par = _index(shape_nodes)
    n = len(ids)
    new_d = univ.index("s:new")
    kind = "k1" if typed else None
    o_top, o_child = other["top"], other["child"]
    out = []

    def want(f):
        return families is None or f in families

    for p in [0] + ids:
        ch = kids[p]
        nch = len(ch)
        foreign = [x for x in ids if x not in ch]
        # --- add_child(data): invalid `before` ----------------------------------
        if want("add"):
            befs = [{"n": f} for f in foreign[:2]] + [{"n": o_top}, {"n": o_child}]
            befs += [True, False, 1, -9] if thin else [True, False, 1, -1, 2, -2, nch + 1, -nch - 1, 7, -9]
            befs += [{"n": c} for c in ch[:1]] + [None, 0]
            seen = []
            for b in befs:
                if not any(b == x and type(b) is type(x) for x in seen):
                    seen.append(b)
                    out.append(["add", 0, p, new_d, None, kind, b])
            # colliding data / colliding explicit id, every position
            for c in ch:
                lbl, did = label_of[c]
                for b in (None, True, {"n": c}):
                    out.append(["add", 0, p, lbl, did, kind, b])
                out.append(["add", 0, p, new_d, did if did is not None else None, kind, None] if did is not None else
                           ["add", 0, p, lbl, None, kind, 0])
        if want("short"):
            for c in ch[:2]:
                lbl, did = label_of[c]
                for how in ("append_child", "prepend_child"):
                    out.append(["short", 0, p, how, lbl, did, kind])
            if p:
                sib = [s for s in kids[par[p]]]
                for s in sib[:2]:
                    lbl, did = label_of[s]
                    for how in ("prepend_sibling", "append_sibling"):
                        out.append(["short", 0, p, how, lbl, did, None])
        # --- add_child(node) / copy_to -------------------------------------------
        if want("addnode"):
            for s in ids:
                for deep in (None, True, False):
                    out.append(["addnode", 0, p, 0, s, None, kind, None, deep])
                out.append(["addnode", 0, p, 0, s, "X9", kind, None, None])          # data_id conflict
                out.append(["addnode", 0, p, 0, s, label_of[s][1] or None, kind, None, True])   # id for a deep copy
                for f in foreign[:1]:
                    out.append(["addnode", 0, p, 0, s, None, kind, {"n": f}, False])
                out.append(["addnode", 0, p, 0, s, None, kind, {"n": o_top}, True])
            for s in (o_top, o_child):
                for deep in (True, False):
                    out.append(["addnode", 0, p, 1, s, None, kind, None, deep])
                    out.append(["addnode", 0, p, 1, s, None, kind, {"n": o_child}, deep])
        if want("copyto"):
            for s in ids:
                for add_self in (True, False):
                    for deep in (True, False):
                        out.append(["copyto", 0, s, 0, p, add_self, None, deep])
                if foreign:
                    out.append(["copyto", 0, s, 0, p, True, {"n": foreign[0]}, False])
            for deep in (True, False):
                out.append(["copyto", 1, 0, 0, p, False, None, deep])       # Tree.copy_to of the other tree
                out.append(["copyto", 0, 0, 0, p, False, None, deep])       # ... of the tree into itself
                out.append(["copyto", 1, o_top, 0, p, False, None, deep])
                out.append(["copyto", 1, o_child, 0, p, False, None, deep])  # a leaf: "need child nodes"
        if want("addtree"):
            for b in ((None, True) if thin else (None, True, False, 0, 5)) + tuple({"n": c} for c in ch[:1]) + tuple({"n": f} for f in foreign[:1]):
                for deep in ((None, False) if thin else (None, True, False)):
                    out.append(["addtree", 0, p, 1, b, deep])
            for deep in (None, False):
                out.append(["addtree", 0, p, 0, None, deep])                # the tree into itself
            if p == 0:
                # the forest (several top nodes) into the other tree: the source must keep its order
                for tgt in (0, o_top, o_child):
                    for b in (None, True, 0, {"n": o_child}):
                        for deep in (None, False):
                            out.append(["addtree", 1, tgt, 0, b, deep])
        if want("from_dict"):
            fresh = [univ.index(x) for x in ("s:f1", "s:f2", "s:f3")]
            some = label_of[ids[0]][0] if ids else new_d
            for items in ([[fresh[0], None, []], [fresh[0], None, []]],
                          [[fresh[0], None, [[fresh[1], None, []], [fresh[2], None, []], [fresh[1], None, []]]]],
                          [[fresh[0], "Y", []], [fresh[1], "Y", []]],
                          [[fresh[0], None, []], [fresh[1], None, [[some, None, []]]]]):
                out.append(["from_dict", 0, p, items])
    for x in ids:
        lbl, did = label_of[x]
        below = _desc(kids, x)
        # --- move_to ---------------------------------------------------------------
        if want("move"):
            for p in [0] + ids:
                ch = kids[p]
                foreign = [y for y in ids if y not in ch]
                bad_target = p == x or p in below
                befs = [None] if bad_target else ([None, True, -3] if thin else [None, True, False, 1, -1, 3, -3])
                befs += [{"n": f} for f in foreign[:2]] + [{"n": o_top}] + [{"n": c} for c in ch[:2]] + [{"n": x}]
                seen = []
                for b in befs:
                    if not any(b == y and type(b) is type(y) for y in seen):
                        seen.append(b)
                        out.append(["move", 0, x, 0, p, b])
            for tgt in (0, o_top, o_child):
                out.append(["move", 0, x, 1, tgt, None])                    # into another tree
                out.append(["move", 0, x, 1, tgt, {"n": o_child}])
        if want("remove"):
            for keep in (False, True):
                for wc in (False, True):
                    out.append(["remove", 0, x, keep, wc])
        if want("set_data"):
            others = [y for y in ids if y != x]
            sibs = [y for y in kids[par[x]] if y != x]
            cands = [(None, None)]
            for y in (sibs + others)[:3]:
                cands.append((label_of[y][0], label_of[y][1]))            # becomes a clone / collides with a sibling
                if label_of[y][1] is not None:
                    cands.append((None, label_of[y][1]))
            cands += [(new_d, None), (None, "X1")]
            for d, e in cands:
                for wc in (None, True, False):
                    out.append(["set_data", 0, x, d, e, wc])
            for y in (sibs + others)[:2]:
                out.append(["rename", 0, x, label_of[y][0]])
            out.append(["rename", 0, x, new_d])
        if want("del"):
            out.append(["del", 0, {"d": lbl}])
            out.append(["del", 0, {"nid": x}])
            if did is not None:
                out.append(["del", 0, {"id": did}])
    if want("del"):
        out.append(["del", 0, {"d": new_d}])
        out.append(["del", 0, {"id": "nope"}])
        out.append(["del", 0, {"id": 12345}])
    if want("treecopy"):
        out.append(["treecopy", 0])
        for x in ids:
            out.append(["nodecopy", 0, x, True])
            out.append(["nodecopy", 0, x, False])
    # de-duplicate
    seen, res = set(), []
    for o in out:
        k = H.digest(o)
        if k not in seen:
            seen.add(k)
            res.append(o)
    return res


C13_LABELINGS = {
    "distinct": (lambda n: [f"s:n{i}" for i in range(n)] + ["s:new", "s:f1", "s:f2", "s:f3", "e:9"], lambda i, d, s: (i, None, None)),
    "equal": (lambda n: ["e:1"] * n + ["e:1", "s:new", "s:f1", "s:f2", "s:f3"], lambda i, d, s: (i, None, f"k{i}")),
    "clones": (lambda n: ["s:a", "s:b", "e:5", "e:5", "s:new", "s:f1", "s:f2", "s:f3", "s:c"], lambda i, d, s: ((d + s) % 4, None, None)),
}


def two_tree_setup(shape, lname, typed):
    """ops building tree 0 = the labelled shape and tree 1 = (copy of tree 0's first label) > (s:new);
    returns (univ, setup, nodes, other) or None when the labelling is not constructible"""
    mk_univ, labeler = C13_LABELINGS[lname]
    n = H.shape_size(shape)
    univ = mk_univ(n)
    nodes = B.shape_to_nodes(shape, (lambda i, d, s: (labeler(i, d, s)[0], "k1" if typed else None, labeler(i, d, s)[2])))
    setup = [["new", typed, None]] + mut.setup_ops(nodes, 0, typed)
    first_lbl, first_did = (nodes[0][0], nodes[0][2]) if nodes else (univ.index("s:f1"), None)
    setup += [["new", typed, None],
              ["add", 1, 0, first_lbl, first_did, "k1" if typed else None, None],
              ["add", 1, n + 1, univ.index("s:new"), None, "k2" if typed else None, None]]
    other = dict(top=n + 1, child=n + 2)
    r = mut.replay({"univ": univ, "ops": setup}, oracles=())
    if any(s["res"][0] for s in r.steps):
        return None
    return univ, setup, nodes, other


def invalid_groups(nmax, *, labelings=("distinct", "equal", "clones"), typed=(False,), families=None, nmin=0, shapes=None, thin=False):
    shp = shapes if shapes is not None else [s for n in range(nmin, nmax + 1) for s in H.forests(n)]
    for shape in shp:
        for lname in labelings:
            for ty in typed:
                st = two_tree_setup(shape, lname, ty)
                if st is None:
                    continue
                univ, setup, nodes, other = st
                yield dict(univ=univ, setup=setup, alts=invalid_alts(nodes, univ, ty, other, families, thin),
                           label=lname + ("/typed" if ty else ""), n=H.shape_size(shape))


# ---------------------------------------------------------------------------
# (b) fault injection in the vocabulary of the model: exactly the k-th invocation raises
# ---------------------------------------------------------------------------
class Recorder:
    """records the arguments of every invocation of a user callback during one operation"""

    def __init__(self):
        self.calls = []
        self.on = False


def _clean_calls(univ, setup, op):
    """run setup + op with recording callbacks; returns (key calls, predicate calls, calc calls) of the LAST op:
    lists of node ids (key / predicate) or universe indexes (calc)"""
    w = World(univ)
    for o in setup:
        try:
            thunk, _, _ = execute(w, o)
            thunk()
        except Exception:
            pass
    rec = dict(key=[], pred=[], calc=[])
    k = op[0]
    # calc_data_id of every tree: wrap the hook for the duration of the op
    saved = []
    for t in w.trees:
        hook = t._calc_data_id_hook
        saved.append((t, hook))
        if hook is not None:
            def mk(hook):
                def fn(tree, data):
                    rec["calc"].append(w.U.index(data) if any(data is o for o in w.U.objs) else -1)
                    return hook(tree, data)
                return fn
            t._calc_data_id_hook = mk(hook)
    try:
        if k == "sort":
            _, ti, p, keyfn, reverse, deep = op
            tbl = (keyfn or {}).get("tbl", {})

            def key(node):
                rec["key"].append(w.rel(node))
                v = tbl.get(str(w.rel(node)), node.name)
                if v is None:
                    raise CallbackFault("sort key")
                return v
            pn = w.parent_ref(ti, p)
            (w.trees[ti].sort if p == 0 else pn.sort_children)(key=key, reverse=reverse, deep=deep)
        elif k == "filter":
            _, ti, n, verd = op

            def pred(node):
                rec["pred"].append(w.rel(node))
                return mut._verdict(verd.get(str(w.rel(node)), "T"))
            pn = w.parent_ref(ti, n)
            (w.trees[ti] if n == 0 else pn).filter(pred)
        else:
            thunk, _, _ = execute(w, op)
            thunk()
    except Exception:
        pass
    finally:
        for t, hook in saved:
            t._calc_data_id_hook = hook
    return rec


def fault_alts(univ, setup, op):
    """(list of ops, count) - for sort / filter: one alternative per invocation of the callback in the clean
    run, in which the argument of that invocation is answered by `raise`"""
    rec = _clean_calls(univ, setup, op)
    alts = []
    if op[0] == "sort":
        seen = []
        for node in rec["key"]:
            if node in seen:
                continue
            seen.append(node)
            o = _copy.deepcopy(op)
            tbl = dict((o[3] or {}).get("tbl", {}))
            tbl[str(node)] = None
            o[3] = {"tbl": tbl}
            alts.append(o)
        return alts, len(rec["key"])
    if op[0] == "filter":
        seen = []
        for node in rec["pred"]:
            if node in seen:
                continue
            seen.append(node)
            o = _copy.deepcopy(op)
            o[3] = dict(o[3])
            o[3][str(node)] = "raise"
            alts.append(o)
        return alts, len(rec["pred"])
    return [], 0


def calc_fault_hists(univ, setup, op, fn="name"):
    """histories in which tree 0 (and 1) carry a calc_data_id callback that raises exactly on the data object
    of the k-th invocation made by `op`; only data objects that the setup does not use can be faulted"""
    setup_c = [(["new", o[1], fn] if o[0] == "new" else o) for o in setup]
    rec = _clean_calls(univ, setup_c, op)
    used = set()
    for o in setup:
        if o[0] == "add":
            used.add(o[3])
    out = []
    seen = []
    for d in rec["calc"]:
        if d < 0 or d in used or d in seen:
            continue
        seen.append(d)
        s2 = [(["new", o[1], {"fn": fn, "raise": [d]}] if o[0] == "new" else o) for o in setup]
        out.append(dict(univ=univ, ops=s2 + [op]))
    return out, len(rec["calc"])


# ---------------------------------------------------------------------------
# (b2)/(c) probes through the raw API: call-index fault injection and read-only operations
# ---------------------------------------------------------------------------
class ProbeViolation(Exception):
    """raised by a probe that checks something itself (e.g. the second operand of a diff)"""


class Plan:
    """counts the invocations of the user callbacks of one operation; raises at invocation k"""

    def __init__(self, k=None):
        self.n = 0
        self.k = k

    def tick(self):
        self.n += 1
        if self.k is not None and self.n == self.k:
            raise CallbackFault(f"injected at invocation {self.k}")


def build_world(univ, setup, with_meta=False) -> World:
    w = World(univ)
    for o in setup:
        thunk, _, _ = execute(w, o)
        thunk()
    if with_meta:
        # every node carries metadata (set through the three public routes), so that an operation that shares or
        # rewrites a node's meta dict (e.g. annotations of a diff leaking into the compared trees) shows in the snapshot
        for ti, t in enumerate(w.trees):
            for i, n in enumerate(mut.tree_nodes(t)):
                if i % 3 == 0:
                    n.set_meta("m", i)
                elif i % 3 == 1:
                    n.update_meta({"u": [ti, i], "dc": "user"})
                else:
                    n.set_meta("a", "x")
                    n.update_meta({"b": i}, replace=False)
    return w


class _Hooked:
    """every tree's calc_data_id goes through plan.tick() while active"""

    def __init__(self, w, plan):
        self.w, self.plan, self.saved = w, plan, []

    def __enter__(self):
        for t in self.w.trees:
            hook = t._calc_data_id_hook
            self.saved.append((t, hook))

            def mk(hook):
                def fn(tree, data):
                    self.plan.tick()
                    return hook(tree, data) if hook else hash(data)
                return fn
            t._calc_data_id_hook = mk(hook)
        return self

    def __exit__(self, *a):
        for t, hook in self.saved:
            t._calc_data_id_hook = hook
        return False


def _nodes(w, ti=0):
    return mut.tree_nodes(w.trees[ti])


def _verdict_cycle(plan, pattern):
    from nutree.common import SkipBranch, SelectBranch, StopTraversal
    vals = {"T": True, "F": False, "N": None, "skip": SkipBranch, "keep": SkipBranch(and_self=False), "select": SelectBranch,
            "stop": StopTraversal}

    def pred(node):
        plan.tick()
        v = vals[pattern[(plan.n - 1) % len(pattern)]]
        return v
    return pred


def _fresh(w, name):
    return w.U.objs[w.univ_specs.index(name)]


def mutating_probes():
    """(name, fn(w, plan)) - operations that take a user callback and may change the tree"""
    P = []

    def calc(name, body):
        def fn(w, plan):
            with _Hooked(w, plan):
                body(w)
        P.append((name, fn))

    calc("Tree.add(data)", lambda w: w.trees[0].add(_fresh(w, "s:new")))
    calc("Node.add(data, before=0)", lambda w: _nodes(w)[0].add(_fresh(w, "s:new"), before=0))
    calc("Node.append_sibling", lambda w: _nodes(w)[-1].append_sibling(_fresh(w, "s:new")))
    calc("Node.prepend_child", lambda w: _nodes(w)[0].prepend_child(_fresh(w, "s:new")))
    calc("Node.set_data(data)", lambda w: _nodes(w)[-1].set_data(_fresh(w, "s:new"), with_clones=False))
    calc("Node.set_data(data, with_clones)", lambda w: _nodes(w)[0].set_data(_fresh(w, "s:new"), with_clones=True))
    calc("Node.rename", lambda w: _nodes(w)[0].rename("renamed"))
    calc("Node.add(node, deep)", lambda w: w.trees[1].add(_nodes(w)[0], deep=True))
    calc("Node.add(tree)", lambda w: _nodes(w)[-1].add(w.trees[1]))
    calc("Tree.copy_to", lambda w: w.trees[0].copy_to(_nodes(w, 1)[-1], deep=True))
    calc("Node.copy_to", lambda w: _nodes(w)[0].copy_to(_nodes(w, 1)[-1], add_self=True, deep=True))
    calc("Node.from_dict", lambda w: [n for n in _nodes(w) if not n._children][0].from_dict(
        [{"data": _fresh(w, "s:f1"), "children": [{"data": _fresh(w, "s:f2")}, {"data": _fresh(w, "s:f3")}]},
         {"data": _fresh(w, "s:f2")}]))
    # Node.from_dict with a deserialisation mapper, on an attached leaf that has siblings (and, second form, on the
    # leaf of a clone): the mapper raises at invocation k -> the half-built branch must be gone again (D48 rollback)
    def fd_mapper(pick):
        def fn(w, plan):
            def mapper(parent, data):
                plan.tick()
                return data["data"] if isinstance(data, dict) and "data" in data else data
            leaves = [n for n in _nodes(w) if not n._children and n._parent is not None and len(n._parent._children) > 1] or \
                     [n for n in _nodes(w) if not n._children]
            target = leaves[0] if pick == 0 else leaves[-1]
            target.from_dict([{"data": _fresh(w, "s:f1"), "children": [{"data": _fresh(w, "s:f2")}, {"data": _fresh(w, "s:f3"),
                               "children": [{"data": _fresh(w, "s:f2")}]}]},
                              {"data": _fresh(w, "s:f2")}, {"data": _fresh(w, "s:new"), "data_id": "M1"}], mapper=mapper)
        return fn

    P.append(("Node.from_dict(mapper) on an attached leaf with siblings", fd_mapper(0)))
    P.append(("Node.from_dict(mapper) on the last attached leaf", fd_mapper(1)))

    def fd_mapper_calc(w, plan):
        # mapper AND calc_data_id both count: faults interleave (mapper, calc, mapper, calc, ...)
        with _Hooked(w, plan):
            fd_mapper(0)(w, plan)

    P.append(("Node.from_dict(mapper) + calc_data_id on an attached leaf", fd_mapper_calc))
    calc("del tree[data]", lambda w: w.trees[0].__delitem__(_nodes(w)[-1].data))
    calc("Node.move_to", lambda w: _nodes(w)[-1].move_to(w.trees[0], before=0))
    calc("Node.remove(keep_children)", lambda w: _nodes(w)[0].remove(keep_children=True))

    for deep in (False, True):
        for rev in (False, True):
            def fn(w, plan, deep=deep, rev=rev):
                def key(n):
                    plan.tick()
                    return n.name
                w.trees[0].sort(key=key, reverse=rev, deep=deep)
            P.append((f"Tree.sort(key, reverse={rev}, deep={deep})", fn))

    def fn(w, plan):
        def key(n):
            plan.tick()
            return n.name
        _nodes(w)[0].sort_children(key=key, deep=True)
    P.append(("Node.sort_children(key, deep)", fn))

    for pat in (("T",), ("F", "T"), ("T", "F", "skip", "keep"), ("F", "F", "T", "select", "stop")):
        P.append((f"Tree.filter({'/'.join(pat)})", lambda w, plan, pat=pat: w.trees[0].filter(_verdict_cycle(plan, pat))))
        P.append((f"Node.filter({'/'.join(pat)})", lambda w, plan, pat=pat: _nodes(w)[0].filter(_verdict_cycle(plan, pat))))
    return P


def _diff_variants(w):
    """diff against copies of the tree that were reordered / pruned / extended, so that every classification
    (added, removed, moved, renumbered) occurs on nodes that carry metadata; both directions, all options"""
    t = w.trees[0]
    out = []
    for variant in range(3):
        c = t.copy()
        for n, m in zip(list(c), list(t)):
            if m._meta:
                n.update_meta(dict(m._meta))
        nodes = list(c)
        if variant == 0 and nodes:
            c.sort(key=lambda n: n.name, reverse=True, deep=True)
        elif variant == 1 and nodes:
            nodes[-1].remove()
            (c.add("extra") if not isinstance(c, TypedTree) else c.add("extra", kind="k1"))
        elif variant == 2 and len(nodes) > 1 and not isinstance(c, TypedTree):
            leaf = [n for n in nodes if not n._children][-1]
            try:
                leaf.move_to(c, before=0)
            except Exception:
                pass
        snap_c = snap_tree(c)
        for o in (False, True):
            for r in (False, True):
                out.append(t.diff(c, ordered=o, reduce=r))
                out.append(c.diff(t, ordered=o, reduce=r))
        if snap_tree(c) != snap_c:
            raise ProbeViolation("diff changed its second operand (a copy of the tree): " + snap_diff((snap_c,), (snap_tree(c),)))
    return out


def readonly_probes():
    """(name, fn(w, plan)) - operations that must leave every existing tree unchanged; the callbacks they take
    go through plan.tick()"""
    from nutree.common import IterMethod
    P = []

    def add(name, fn):
        P.append((name, fn))

    def ser(plan):
        def mapper(node, data):
            plan.tick()
            return data
        return mapper

    def save_sio(w, plan):
        fp = io.StringIO()
        w.trees[0].save(fp, mapper=ser(plan))
        return fp.getvalue()

    add("Tree.save(StringIO, mapper)", save_sio)

    def save_file(w, plan):
        fd, path = tempfile.mkstemp(suffix=".json")
        os.close(fd)
        try:
            w.trees[0].save(path, mapper=ser(plan))
            w.trees[0].__class__.load(path, mapper=lambda parent, data: (plan.tick(), data.get("str", data.get("data", "?")))[1])
        finally:
            os.unlink(path)

    add("Tree.save(path) + load(path, mapper)", save_file)

    def save_load(w, plan):
        fp = io.StringIO()
        w.trees[0].save(fp, mapper=lambda node, data: {"str": node.name})
        fp.seek(0)
        t2 = w.trees[0].__class__.load(fp, mapper=lambda parent, data: (plan.tick(), data.get("str", "?"))[1])
        return len(t2)

    add("Tree.load(mapper)", save_load)
    add("Tree.to_dict_list(mapper)", lambda w, plan: w.trees[0].to_dict_list(mapper=ser(plan)))
    add("Node.to_dict(mapper)", lambda w, plan: _nodes(w)[0].to_dict(mapper=ser(plan)))
    add("Tree.to_list_iter(mapper)", lambda w, plan: list(w.trees[0].to_list_iter(mapper=ser(plan))))
    add("Tree.from_dict(mapper)", lambda w, plan: Tree.from_dict(
        [{"data": "x", "children": [{"data": "y"}, {"data": "z"}]}, {"data": "y"}],
        mapper=lambda parent, data: (plan.tick(), data["data"])[1]))
    for meth in ("PRE_ORDER", "POST_ORDER", "LEVEL_ORDER"):
        def fn(w, plan, meth=meth):
            def cb(node, memo):
                plan.tick()
            w.trees[0].visit(cb, method=getattr(IterMethod, meth))
        add(f"Tree.visit({meth})", fn)

    def nvisit(w, plan):
        def cb(node, memo):
            plan.tick()
            return None
        _nodes(w)[0].visit(cb, add_self=True)

    add("Node.visit(add_self)", nvisit)
    add("Tree.find_all(match)", lambda w, plan: w.trees[0].find_all(match=lambda n: (plan.tick(), True)[1]))
    add("Tree.find_first(match)", lambda w, plan: w.trees[0].find_first(match=lambda n: (plan.tick(), False)[1]))
    add("Node.find_all(match)", lambda w, plan: _nodes(w)[0].find_all(match=lambda n: (plan.tick(), True)[1], add_self=True))

    def by_data(w, plan):
        with _Hooked(w, plan):
            t = w.trees[0]
            for n in _nodes(w):
                t.find_all(n.data)
                t.find_first(n.data)
                n.data in t
                try:
                    t[n.data]
                except Exception as e:
                    if isinstance(e, CallbackFault):
                        raise
            t.find_first(_fresh(w, "s:new"))
            _fresh(w, "s:new") in t

    add("find / in / [] by data (calc_data_id)", by_data)

    def by_id(w, plan):
        t = w.trees[0]
        for n in _nodes(w):
            t.find_all(data_id=n.data_id)
            t.find_first(data_id=n.data_id)
            t.find_first(node_id=n.node_id)
            n.get_clones()
            n.is_clone()
        return t.count, t.count_unique, len(t), t.calc_height()

    add("lookups by data_id / node_id, counts", by_id)
    for pat in (("T",), ("F", "T"), ("T", "F", "skip", "keep", "select"), ("F", "stop")):
        add(f"Tree.filtered({'/'.join(pat)})", lambda w, plan, pat=pat: w.trees[0].filtered(_verdict_cycle(plan, pat)))
        add(f"Tree.copy(predicate={'/'.join(pat)})", lambda w, plan, pat=pat: w.trees[0].copy(predicate=_verdict_cycle(plan, pat)))
        add(f"Node.copy(predicate={'/'.join(pat)})", lambda w, plan, pat=pat: _nodes(w)[0].copy(predicate=_verdict_cycle(plan, pat)))
        add(f"Node.filtered({'/'.join(pat)})", lambda w, plan, pat=pat: _nodes(w)[0].filtered(_verdict_cycle(plan, pat)))
    # hand-backs: edit what a read-only operation returned (structure and metadata) - the source must not notice
    def edit_tree(t2):
        for n in list(t2):
            n.set_meta("edited", 1)
            n.update_meta({"dc": "edited", "u": "edited"})
        for n in list(t2):
            if n._tree is not None and not n._children:
                n.remove()
        t2.add("edited-top") if not isinstance(t2, TypedTree) else t2.add("edited-top", kind="k1")

    add("Tree.copy() then edit the copy", lambda w, plan: edit_tree(w.trees[0].copy()))
    add("Node.copy() then edit the copy", lambda w, plan: edit_tree(_nodes(w)[0].copy()))
    add("Tree.filtered() then edit the result", lambda w, plan: edit_tree(w.trees[0].filtered(lambda n: True)))
    for ordered in (False, True):
        for reduce in (False, True):
            add(f"Tree.diff(ordered={ordered}, reduce={reduce}) then edit the result",
                lambda w, plan, o=ordered, r=reduce: (edit_tree(w.trees[0].diff(w.trees[1], ordered=o, reduce=r)),
                                                      edit_tree(w.trees[1].diff(w.trees[0], ordered=o, reduce=r))))
    add("Tree.diff of a tree with a reordered / shrunk copy of itself", lambda w, plan: _diff_variants(w))
    add("Tree.copy()", lambda w, plan: w.trees[0].copy())
    add("Node.copy(add_self)", lambda w, plan: [n.copy(add_self=a) for n in _nodes(w) for a in (True, False)])
    add("Tree.format(repr=callable)", lambda w, plan: w.trees[0].format(repr=lambda n: (plan.tick(), n.name)[1], title=True))
    add("Tree.format styles", lambda w, plan: [w.trees[0].format(style=s) for s in ("round43", "ascii11", "list", "space2")])
    add("Node.format / get_path / relations", lambda w, plan: [
        (n.format(add_self=True), n.get_path(), n.depth(), n.get_index(), n.is_first_sibling(), n.is_last_sibling(),
         n.get_siblings(add_self=True), n.get_parent_list(), n.count_descendants(), n.calc_height(), n.get_top(),
         n.prev_sibling(), n.next_sibling(), n.first_sibling(), n.last_sibling(), n.first_child(), n.last_child(),
         repr(n), n.path, n.is_top(), n.is_leaf(), n.has_children()) for n in _nodes(w)])
    add("print", lambda w, plan: w.trees[0].print(file=io.StringIO(), repr=lambda n: (plan.tick(), n.name)[1]))
    add("iterators", lambda w, plan: [[x for x in w.trees[0].iterator(m)] for m in IterMethod] +
        [[x for x in n.iterator(m, add_self=True)] for n in _nodes(w)[:2] for m in IterMethod if m.name != "UNORDERED" and m.name != "RANDOM_ORDER"])
    add("Tree.to_dot(mappers)", lambda w, plan: list(w.trees[0].to_dot(
        node_mapper=lambda n, attr: plan.tick(), edge_mapper=lambda n, attr: plan.tick())))
    add("Tree.to_dot(unique_nodes=False)", lambda w, plan: list(w.trees[0].to_dot(unique_nodes=False, add_root=False)))

    def dotfile(w, plan):
        fd, path = tempfile.mkstemp(suffix=".gv")
        os.close(fd)
        try:
            w.trees[0].to_dotfile(path, node_mapper=lambda n, attr: plan.tick())
        finally:
            os.unlink(path)

    add("Tree.to_dotfile(path, node_mapper)", dotfile)
    add("Tree.to_mermaid_flowchart(mappers)", lambda w, plan: w.trees[0].to_mermaid_flowchart(
        io.StringIO(), node_mapper=lambda n: (plan.tick(), n.name)[1], edge_mapper=lambda fi, fn, ti, tn: (plan.tick(), f"{fi} --> {ti}")[1]))
    add("Tree.to_mermaid_flowchart()", lambda w, plan: w.trees[0].to_mermaid_flowchart(io.StringIO()))

    def rdf(w, plan):
        try:
            import rdflib  # noqa: F401
        except Exception:
            return None
        return w.trees[0].to_rdf_graph()

    add("Tree.to_rdf_graph()", rdf)
    for ordered in (False, True):
        for reduce in (False, True):
            add(f"Tree.diff(ordered={ordered}, reduce={reduce})",
                lambda w, plan, o=ordered, r=reduce: (w.trees[0].diff(w.trees[1], ordered=o, reduce=r),
                                                      w.trees[1].diff(w.trees[0], ordered=o, reduce=r)))
    add("Tree._self_check / contains", lambda w, plan: (w.trees[0]._self_check(), [n.data in w.trees[0] for n in _nodes(w, 1)]))
    add("serialize helpers", lambda w, plan: [(n.data_id, n.node_id, n.meta, n.name, n.kind if hasattr(n, "kind") else None)
                                             for n in _nodes(w)])
    return P


def run_probes(univ, setup, only=None):
    """Runs every probe: clean (counting callback invocations), then with a fault at every invocation.
    Returns (failures, stats): failures = list of (probe, k or None, message)."""
    fails = []
    stats = dict(probes=0, fault_runs=0, invocations=0, readonly=0, raised_clean=0)
    for readonly, probes in ((False, mutating_probes()), (True, readonly_probes())):
        for name, fn in probes:
            if only is not None and name not in only:
                continue
            w = build_world(univ, setup, with_meta=True)
            if not _nodes(w) or len(w.trees) < 2:
                continue
            snap0 = snapshot(w)
            plan = Plan()
            _old = sys.getrecursionlimit()
            sys.setrecursionlimit(mut.OP_RECURSION_LIMIT)
            try:
                fn(w, plan)
            except ProbeViolation as e:
                fails.append((name, None, str(e)))
            except Exception:
                stats["raised_clean"] += 1
            finally:
                sys.setrecursionlimit(_old)
            stats["probes"] += 1
            stats["invocations"] += plan.n
            m = struct_fail(w)
            if m:
                fails.append((name, None, m))
            if readonly:
                stats["readonly"] += 1
                if snapshot(w) != snap0:
                    fails.append((name, None, "read-only operation changed the tree: " + snap_diff(snap0, snapshot(w))))
            for k in range(1, plan.n + 1):
                w = build_world(univ, setup, with_meta=True)
                snap0 = snapshot(w)
                p2 = Plan(k)
                raised = None
                try:
                    fn(w, p2)
                except CallbackFault as e:
                    raised = e
                except Exception as e:
                    raised = e
                stats["fault_runs"] += 1
                m = struct_fail(w)
                if m:
                    fails.append((name, k, f"after the exception at invocation {k}: {m}"))
                if not readonly and raised is not None and name.startswith("Node.from_dict") and snapshot(w) != snap0:
                    fails.append((name, k, f"from_dict failed at invocation {k} but left something behind: {snap_diff(snap0, snapshot(w))}"))
                if readonly and snapshot(w) != snap0:
                    fails.append((name, k, f"read-only operation changed the tree (fault at invocation {k}): {snap_diff(snap0, snapshot(w))}"))
                if raised is None and p2.n >= k:
                    # the callback raised at invocation k but the call returned a result: "a raising predicate / mapper /
                    # visitor builds no tree, the exception escapes" (the library catches only its own control signals)
                    stats["swallowed"] = stats.get("swallowed", 0) + 1
                    fails.append((name, k, f"the exception raised at invocation {k} was swallowed: the call returned normally"))
    return fails, stats


# ---------------------------------------------------------------------------
# (a2) documented-invalid arguments that the history vocabulary cannot express (wrong types)
# ---------------------------------------------------------------------------
class Unhashable:
    __hash__ = None


def raw_invalid_probes(typed):
    """(name, fn(w)): calls with arguments outside the documented types; whatever they raise, the snapshot
    of every tree must be unchanged and C01-C03 must hold (when they do not raise, C01-C03 must hold)."""
    kw = {"kind": "k1"} if typed else {}
    P = []

    def c(name, fn):
        P.append((name, fn))

    N = _nodes
    for bad, nm in (("x", "'x'"), (1.5, "1.5"), (object(), "object()"), ([0], "[0]")):
        c(f"Node.add(data, before={nm})", lambda w, bad=bad: N(w)[0].add(_fresh(w, "s:new"), before=bad, **kw))
        c(f"Tree.add(data, before={nm})", lambda w, bad=bad: w.trees[0].add(_fresh(w, "s:new"), before=bad, **kw))
        c(f"Node.add(node, before={nm})", lambda w, bad=bad: w.trees[0].add(N(w, 1)[-1], before=bad, **kw))
        c(f"Node.add(tree, before={nm})", lambda w, bad=bad: N(w)[0].add(w.trees[1], before=bad))
        c(f"Node.move_to(before={nm})", lambda w, bad=bad: N(w)[-1].move_to(w.trees[0], before=bad))
        c(f"Node.copy_to(before={nm})", lambda w, bad=bad: N(w, 1)[-1].copy_to(N(w)[0], before=bad))
    for bad, nm in (([1], "[1]"), ({}, "{}"), (Unhashable(), "Unhashable()")):
        c(f"Node.add(data, data_id={nm})", lambda w, bad=bad: N(w)[0].add(_fresh(w, "s:new"), data_id=bad, **kw))
        c(f"Tree.add(data, data_id={nm})", lambda w, bad=bad: w.trees[0].add(_fresh(w, "s:new"), data_id=bad, **kw))
        c(f"Node.append_sibling(data, data_id={nm})", lambda w, bad=bad: N(w)[0].append_sibling(_fresh(w, "s:new"), data_id=bad))
        c(f"Node.set_data(data, data_id={nm})", lambda w, bad=bad: N(w)[0].set_data(_fresh(w, "s:new"), data_id=bad))
        c(f"Node.set_data(None, data_id={nm})", lambda w, bad=bad: N(w)[-1].set_data(None, data_id=bad, with_clones=True))
        c(f"Node.add(unhashable data {nm})", lambda w, bad=bad: N(w)[0].add(bad, **kw))
        c(f"Node.set_data(unhashable data {nm})", lambda w, bad=bad: N(w)[0].set_data(bad))
        c(f"del tree[{nm}]", lambda w, bad=bad: w.trees[0].__delitem__(bad))
        c(f"Node.from_dict(data_id={nm})", lambda w, bad=bad: [n for n in N(w) if not n._children][0].from_dict(
            [{"data": "q1"}, {"data": "q2", "children": [{"data": "q3", "data_id": bad}]}]))

    if typed:
        # an invalid `kind` on every typed route that takes (or passes on) a kind
        from nutree.typed_tree import ANY_KIND
        import json as _json
        for bad, nm in ((ANY_KIND, "ANY_KIND"), (5, "5"), (("a",), "('a',)"), (["k"], "['k']"), (b"k", "b'k'"), ("", "''"), (False, "False")):
            c(f"TypedTree.add(data, kind={nm})", lambda w, bad=bad: w.trees[0].add(_fresh(w, "s:new"), kind=bad))
            c(f"TypedTree.add_child(data, kind={nm}, before=0)", lambda w, bad=bad: w.trees[0].add_child(_fresh(w, "s:new"), kind=bad, before=0))
            c(f"TypedNode.add(data, kind={nm})", lambda w, bad=bad: N(w)[0].add(_fresh(w, "s:new"), kind=bad))
            c(f"TypedNode.add_child(data, kind={nm}, before=node)",
              lambda w, bad=bad: N(w)[0].add_child(_fresh(w, "s:new"), kind=bad, before=N(w)[0].children[0]))
            c(f"TypedNode.append_child(data, kind={nm})", lambda w, bad=bad: N(w)[-1].append_child(_fresh(w, "s:new"), kind=bad))
            c(f"TypedNode.prepend_child(data, kind={nm})", lambda w, bad=bad: N(w)[0].prepend_child(_fresh(w, "s:new"), kind=bad))
            c(f"TypedNode.add(node, kind={nm})", lambda w, bad=bad: N(w)[0].add(N(w, 1)[-1], kind=bad))
            c(f"TypedNode.add(node, kind={nm}, deep=True)", lambda w, bad=bad: w.trees[1].add(N(w)[0], kind=bad, deep=True))
            c(f"TypedNode.append_child(node, kind={nm}, deep=True)", lambda w, bad=bad: N(w, 1)[-1].append_child(N(w)[0], kind=bad, deep=True))
            c(f"TypedNode.append_sibling(data, kind={nm})", lambda w, bad=bad: N(w)[0].append_sibling(_fresh(w, "s:new"), kind=bad))
            c(f"TypedNode.prepend_sibling(data, kind={nm})", lambda w, bad=bad: N(w)[0].prepend_sibling(_fresh(w, "s:new"), kind=bad))
            c(f"TypedNode.copy_to(kind={nm})", lambda w, bad=bad: N(w, 1)[-1].copy_to(N(w)[0], kind=bad))
            c(f"TypedNode.move_to(kind={nm})", lambda w, bad=bad: N(w)[-1].move_to(w.trees[0], kind=bad))
            c(f"TypedNode.from_dict(item kind={nm})", lambda w, bad=bad: [n for n in N(w) if not n._children][0].from_dict(
                [{"data": "q1"}, {"data": "q2", "kind": bad, "children": [{"data": "q3", "kind": bad}]}]))

            def load_bad(w, bad=bad):
                fp = io.StringIO()
                w.trees[0].save(fp, mapper=lambda node, data: dict(data, str=node.name))
                doc = _json.loads(fp.getvalue())
                vm = doc["meta"].get("$value_map") or doc["meta"].get("value_map") or {}
                if isinstance(bad, (str, int, bool)) and "kind" in vm and vm["kind"]:
                    vm["kind"][0] = bad
                else:
                    raise ValueError("kind value cannot be written to a file")
                w.trees[0].__class__.load(io.StringIO(_json.dumps(doc)), mapper=lambda parent, data: data.get("str", "?"))

            c(f"TypedTree.load(file with kind={nm})", load_bad)

    def calc_unhashable(w):
        t = w.trees[0]
        old = t._calc_data_id_hook
        t._calc_data_id_hook = lambda tree, data: [1, 2]
        try:
            t.add(_fresh(w, "s:new"), **kw)
        finally:
            t._calc_data_id_hook = old

    c("Tree.add(data) with calc_data_id returning a list", calc_unhashable)

    def calc_unhashable_set(w):
        t = w.trees[0]
        old = t._calc_data_id_hook
        t._calc_data_id_hook = lambda tree, data: [1, 2]
        try:
            N(w)[0].set_data(_fresh(w, "s:new"))
        finally:
            t._calc_data_id_hook = old

    c("Node.set_data(data) with calc_data_id returning a list", calc_unhashable_set)
    c("Node.add(data, node_id=<existing>)", lambda w: N(w)[0].add(_fresh(w, "s:new"), node_id=N(w)[-1].node_id, **kw))
    c("Node.add(data, node_id='abc')", lambda w: N(w)[0].add(_fresh(w, "s:new"), node_id="abc", **kw))
    c("Node.add(node, node_id=5)", lambda w: N(w)[0].add(N(w, 1)[-1], node_id=5, **kw))
    c("Node.from_dict(item without data)", lambda w: [n for n in N(w) if not n._children][0].from_dict(
        [{"data": "q1"}, {"data": "q2", "children": [{"data": "q3"}, {"nodata": 1}]}]))
    c("Node.from_dict(duplicate node_id)", lambda w: [n for n in N(w) if not n._children][0].from_dict(
        [{"data": "q1", "node_id": 77}, {"data": "q2", "node_id": 77}]))
    c("Node.from_dict(5)", lambda w: [n for n in N(w) if not n._children][0].from_dict(5))
    c("Node.move_to(None)", lambda w: N(w)[-1].move_to(None))
    c("Node.move_to('abc')", lambda w: N(w)[-1].move_to("abc"))
    c("Node.copy_to(None)", lambda w: N(w)[0].copy_to(None, deep=True))
    c("Node.add(tree of the other class)", lambda w: N(w)[0].add((Tree if typed else TypedTree)("o"), **kw))
    c("Tree.sort(key with uncomparable results)", lambda w: w.trees[0].sort(key=lambda n: object(), deep=True))
    c("Tree.sort(key with mixed types)", lambda w: w.trees[0].sort(key=lambda n: (n.name if len(n.name) % 2 else 3), deep=True))
    c("Tree.filter(None)", lambda w: w.trees[0].filter(None))
    c("Tree.filter(predicate returning a str)", lambda w: w.trees[0].filter(lambda n: "x"))
    c("Tree.visit(callback returning True)", lambda w: w.trees[0].visit(lambda n, memo: True))
    c("Tree.iterator('bad')", lambda w: list(w.trees[0].iterator("bad")))
    c("Tree.find_all()", lambda w: w.trees[0].find_all())
    c("Tree.format(style='nope')", lambda w: w.trees[0].format(style="nope"))
    c("Tree.save('/nonexistent_dir/x')", lambda w: w.trees[0].save("/nonexistent_dir/x.json"))
    c("Tree.load(garbage)", lambda w: Tree.load(io.StringIO("{nope")))
    c("Tree.diff('x')", lambda w: w.trees[0].diff("x"))
    c("Node.set_meta([1], 2)", lambda w: N(w)[0].set_meta([1], 2))
    c("Node.update_meta(None)", lambda w: N(w)[0].update_meta(None))
    return P


def run_raw_invalid(univ, setup, typed, only=None):
    fails = []
    stats = dict(raw_invalid=0, raw_raised=0)
    for name, fn in raw_invalid_probes(typed):
        if only is not None and name not in only:
            continue
        w = build_world(univ, setup)
        if not _nodes(w) or len(w.trees) < 2 or not _nodes(w, 1):
            continue
        snap0 = snapshot(w)
        raised = None
        _old = sys.getrecursionlimit()
        sys.setrecursionlimit(mut.OP_RECURSION_LIMIT)
        try:
            fn(w)
        except Exception as e:
            raised = e
        finally:
            sys.setrecursionlimit(_old)
        stats["raw_invalid"] += 1
        m = struct_fail(w)
        if m:
            fails.append((name, None, (f"raised {type(raised).__name__}; " if raised else "") + m))
        if raised is not None:
            stats["raw_raised"] += 1
            if snapshot(w) != snap0:
                fails.append((name, None, f"raised {type(raised).__name__} but {snap_diff(snap0, snapshot(w))}"))
    return fails, stats


# ---------------------------------------------------------------------------
# (a3) late collisions: the refusal is caused by the LAST element the operation would touch, so an implementation
# that validates while it mutates has already changed something when it notices
# ---------------------------------------------------------------------------
def late_collision_hists():
    U = ["s:a", "s:b", "s:c", "s:d", "s:x", "s:y", "e:1", "e:1"]
    a, b, c, d, x, y = range(6)
    new = ["new", False, None]

    def add(ti, p, dd, did=None, before=None):
        return ["add", ti, p, dd, did, None, before]

    H_ = []
    # remove(keep_children): the last child collides with a sibling of the removed node
    base = [new, add(0, 0, a), add(0, 0, x), add(0, 2, b), add(0, 2, c), add(0, 2, a)]       # a, x > (b, c, a')
    H_.append(base + [["remove", 0, 2, True, False]])
    H_.append(base + [["remove", 0, 2, True, True]])
    # ... two levels: x > (b, y > (a')), remove y then x
    H_.append([new, add(0, 0, a), add(0, 0, x), add(0, 2, b), add(0, 2, y), add(0, 4, a), ["remove", 0, 4, True, False],
               ["remove", 0, 2, True, False]])
    # remove(with_clones, keep_children): the second clone's child collides
    H_.append([new, add(0, 0, x), add(0, 1, b), add(0, 0, y), add(0, 3, x), add(0, 4, c), add(0, 3, c), ["remove", 0, 1, True, True]])
    # move_to: target has the same data as its last child
    H_.append([new, add(0, 0, a), add(0, 0, x), add(0, 2, b), add(0, 2, a), ["move", 0, 1, 0, 2, None], ["move", 0, 1, 0, 2, True],
               ["move", 0, 1, 0, 2, {"n": 3}], ["move", 0, 4, 0, 0, None], ["move", 0, 4, 0, 0, 0]])
    # set_data(with_clones=True): the LAST clone of the group gets a colliding sibling
    H_.append([new, add(0, 0, x), add(0, 1, a), add(0, 0, y), add(0, 3, a), add(0, 3, b), ["set_data", 0, 2, b, None, True],
               ["set_data", 0, 2, None, "ID", True], ["set_data", 0, 4, b, None, True], ["rename", 0, 2, b]])
    H_.append([new, add(0, 0, x), add(0, 1, 6, "k1"), add(0, 0, y), add(0, 3, 7, "k1"), add(0, 3, b, "k2"),
               ["set_data", 0, 2, None, "k2", True], ["set_data", 0, 4, None, "k2", True], ["set_data", 0, 4, None, "k2", False]])
    # add(tree) / copy_to: the last top node / child of the source collides
    src = [new, new, add(0, 0, a), add(0, 0, b), add(0, 0, c), add(0, 3, d), add(1, 0, x), add(1, 5, c)]   # tree0: a b c>(d); tree1: x>(c')
    for bef in (None, True, 0):
        for deep in (None, True, False):
            H_.append(src + [["addtree", 1, 5, 0, bef, deep]])
    H_.append(src + [["copyto", 0, 0, 1, 5, False, None, True], ["copyto", 0, 0, 1, 5, False, None, False]])
    H_.append([new, new, add(0, 0, y), add(0, 1, a), add(0, 1, b), add(0, 1, c), add(1, 0, x), add(1, 5, c),
               ["copyto", 0, 1, 1, 5, False, None, True], ["copyto", 0, 1, 1, 5, False, None, False], ["copyto", 0, 1, 1, 0, False, None, True]])
    # from_dict: the very last item (third level) collides
    H_.append([new, add(0, 0, a), ["from_dict", 0, 1, [[b, None, [[c, None, []], [d, None, [[x, None, []], [y, None, []], [x, None, []]]]]]]],
               ["from_dict", 0, 1, [[b, None, []], [c, None, []], [b, None, []]]],
               ["from_dict", 0, 1, [[b, "I", []], [c, "J", [[d, "I", []], [x, "I", []]]]]]])
    H_.append([["tree_from_dict", [[a, None, [[b, None, []]]], [c, None, []], [a, None, []]]]])
    # add: colliding with the last child, every position
    H_.append([new, add(0, 0, a), add(0, 0, b), add(0, 0, c), add(0, 0, c), add(0, 0, c, None, True), add(0, 0, c, None, {"n": 1}),
               add(0, 0, d, None, {"n": 9}), ["short", 0, 1, "append_sibling", c, None, None], ["short", 0, 3, "prepend_sibling", a, None, None]])
    return [dict(univ=U, ops=h) for h in H_]


# ---------------------------------------------------------------------------
# (b3) call-INDEX faults of calc_data_id inside from_dict, tied to the model's [FaultIndex.step_k]:
# the k-th invocation raises whatever its argument (the same object may be passed twice).  The model expresses
# it by replacing the k-th calling item by an item with a fresh object on which the callback table raises
# (FaultIndex.poison_items); here the implementation is run BOTH ways - call-index injection on the original
# items, and the poisoned items with an argument-keyed raising callback - and must behave identically; the
# poisoned history is what run_mut evaluates.
# ---------------------------------------------------------------------------
def poison_items_py(items, k, fresh):
    """python twin of FaultIndex.poison_items: (items', remaining k or None)"""
    out = []
    for d, did, ch in items:
        if k is None:
            out.append([d, did, ch])
            continue
        if did is None:
            if k == 0:
                out.append([fresh, None, ch])
                k = None
                continue
            k -= 1
        ch2, k = poison_items_py(ch, k, fresh)
        out.append([d, did, ch2])
    return out, k


def count_calling_items(items):
    return sum((1 if did is None else 0) + count_calling_items(ch) for d, did, ch in items)


def run_from_dict_k(univ, setup, ti, p, items, k, fresh, fn="name"):
    """returns (Run of the poisoned history, message or None)"""
    setup_p = [(["new", o[1], {"fn": fn, "raise": [fresh]}] if o[0] == "new" else o) for o in setup]
    items_p, _ = poison_items_py(items, k, fresh)
    run = replay13({"univ": univ, "ops": setup_p + [["from_dict", ti, p, items_p]]})
    # the same on the original items with a fault at invocation k (0-based) of calc_data_id
    setup_c = [(["new", o[1], fn] if o[0] == "new" else o) for o in setup]
    w = build_world(univ, setup_c)
    plan = Plan(k + 1)
    t = w.trees[ti]
    hook = t._calc_data_id_hook

    def ticking(tree, data):
        plan.tick()
        return hook(tree, data)

    thunk, _, _ = execute(w, ["from_dict", ti, p, items])
    t._calc_data_id_hook = ticking
    try:
        res = [0, thunk()]
    except Exception as e:
        res = mut.outcome_of(e)
    finally:
        t._calc_data_id_hook = hook
    mine = [res, w.obs()]
    if mine != run.obs[-1]:
        return run, (f"from_dict with calc_data_id raising at invocation {k} behaves differently from the poisoned-item run: "
                     f"{mine[0]} vs {run.obs[-1][0]}" + ("" if mine[1] != run.obs[-1][1] else " (same state)"))
    return run, None


# ---------------------------------------------------------------------------
# (b4) the call ORDER of the sort key and of the filter predicate: FaultIndex.sort_calls / filter_calls
# (which "the k-th invocation" of the model refers to) against the invocations recorded on the implementation
# ---------------------------------------------------------------------------
def call_order_check(univ, setup, ops):
    """ops: sort / filter ops on tree 0 of the world built by `setup`.  Returns (message or None, n compared)."""
    import json as _json
    import re as _re
    base = replay13({"univ": univ, "ops": setup}, keep_world=True)
    w = base.world
    terms, impl = [], []
    for op in ops:
        rec = _clean_calls(univ, setup, op)
        t = w.trees[op[1]]
        if op[0] == "sort":
            _, ti, p, keyfn, reverse, deep = op
            tbl = (keyfn or {}).get("tbl", {})
            ents = []
            for nd in mut.tree_nodes(t):
                r = w.rel(nd)
                kv = tbl.get(str(r), nd.name)
                ents.append(f"({r}%nat, {H.coq_opt(kv, H.coq_text)})")
            fn = f"sort_calls {H.coq_list(ents)} {H.coq_bool(reverse)} {H.coq_bool(deep)}"
            impl.append(rec["key"])
        else:
            _, ti, p, verd = op
            ents = [f"({w.rel(nd)}%nat, {mut.coq_verdict(verd.get(str(w.rel(nd)), 'T'))})" for nd in mut.tree_nodes(t)]
            fn = f"filter_calls {H.coq_list(ents)}"
            impl.append(rec["pred"])
        terms.append(f"(match get_tree w {ti}%nat with Some t => match children_of {p}%nat (forest_of t) with Some ch => {fn} ch "
                     f"| None => [] end | None => [] end)")
    term = f"let w := run_chk {base.coq} empty_world in {H.coq_list(terms)}"
    out = H.eval_in_coq("CaseMut FaultIndex", term, tag="order")
    m = _re.search(r"=\s*(\[.*\])\s*:\s*list \(list nat\)", out, _re.S)
    if not m:
        return f"call order: cannot evaluate the model ({out[-300:]})", 0
    model = _json.loads(m.group(1).replace("%nat", "").replace(";", ","))
    for op, a, b in zip(ops, impl, model):
        if a != b:
            return f"call order of {op[0]} {op[2:]}: implementation {a}, model {b}", len(ops)
    return None, len(ops)


# ---------------------------------------------------------------------------
# (a4) late collisions ACROSS KINDS in typed targets: Tree._register refuses a second child with one data_id per
# parent whatever the kinds, so the up-front check of a multi-node copy must not be by (kind, data_id).  Multi-node
# copies (add(tree) x before x deep, Tree.copy_to, Node.copy_to(add_self=False)) from a typed source - and, for the
# refusal by class, from a plain source - whose colliding node is the first / a middle / the last one copied and
# has another kind / the same kind as the child it collides with; target = a node and the tree itself.
# ---------------------------------------------------------------------------
def typed_collision_hists():
    U = ["s:a", "s:b", "s:c", "s:d", "s:team", "s:x"]
    a, b, c, d, team, x = range(6)
    out = []

    def add(ti, p, dd, kind, did=None):
        return ["add", ti, p, dd, did, kind, None]

    for target_is_root in (False, True):
        for coll_pos in (0, 1, 2, 3):                      # which of the four source nodes collides
            for src_kind, tgt_kind in (("guest", "member"), ("member", "member"), ("guest", "guest")):
                src_data = [a, b, c, d]
                # target tree 0 (typed): team > (x:member, <colliding>:tgt_kind)   or the same two at top level
                setup = [["new", True, None]]
                if target_is_root:
                    setup += [add(0, 0, x, "member"), add(0, 0, src_data[coll_pos], tgt_kind)]
                    tp, n0 = 0, 2
                else:
                    setup += [add(0, 0, team, "org"), add(0, 1, x, "member"), add(0, 1, src_data[coll_pos], tgt_kind)]
                    tp, n0 = 1, 3
                # source tree 1 (typed): the four nodes at top level, the second one with a child
                setup += [["new", True, None]] + [add(1, 0, dd, src_kind) for dd in src_data] + [add(1, n0 + 2, x, "sub")]
                # source tree 2 (typed): holder > the four nodes
                setup += [["new", True, None], add(2, 0, team, "org")] + [add(2, n0 + 6, dd, src_kind) for dd in src_data]
                holder = n0 + 6
                ops = []
                for bef in (None, True, 0, -1):
                    for deep in (None, False):
                        ops.append(["addtree", 0, tp, 1, bef, deep])
                ops.append(["copyto", 1, 0, 0, tp, False, None, True])          # Tree.copy_to
                ops.append(["copyto", 1, 0, 0, tp, False, None, False])
                ops.append(["copyto", 2, holder, 0, tp, False, None, True])      # Node.copy_to(add_self=False)
                ops.append(["copyto", 2, holder, 0, tp, False, None, False])
                out.append(dict(univ=U, setup=setup, alts=ops, label="typed/cross-kind collision"))
    # a plain source into a typed target and a typed source into a plain target (refused by class, before anything)
    for ty0, ty1 in ((True, False), (False, True)):
        k0 = "member" if ty0 else None
        k1 = "guest" if ty1 else None
        setup = [["new", ty0, None], add(0, 0, team, "org" if ty0 else None), add(0, 1, c, k0),
                 ["new", ty1, None], add(1, 0, a, k1), add(1, 0, b, k1), add(1, 0, c, k1), add(1, 4, x, k1)]
        ops = [["addtree", 0, 1, 1, bef, deep] for bef in (None, True) for deep in (None, False)]
        ops += [["copyto", 1, 0, 0, 1, False, None, True], ["copyto", 1, 4, 0, 1, False, None, True], ["copyto", 1, 4, 0, 1, True, None, True],
                ["addnode", 0, 1, 1, 3, None, k0, None, True]]
        out.append(dict(univ=U, setup=setup, alts=ops, label="typed/plain mixed copies"))
    return out
