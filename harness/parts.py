"""Parts: additional model areas attached to a host property.

A *part* is an object with
    tag          short name (appears in the case descriptions: {"part": tag, "d": <the part's own desc>})
    case_module  Coq module under theories/Cases that evaluates its cases, `run_fn` its entry point, `case_vo` its .vo target
    descs(tier, rng) / run(desc) -> common.Case   (same contract as a property module)
`attach(PROP, part1, part2, …)` makes the host property generate and run the parts' cases as well; the runner groups the
cases by (case_module, run_fn) and evaluates each group with its own module.  The theorems of a part live in the host's
`Properties/Cxx.v` (statements only, `exact lemma.`, `Print Assumptions`)."""
from __future__ import annotations


def attach(prop, *parts):
    own_descs, own_run = prop.descs, prop.run
    by_tag = {p.tag: p for p in parts}

    def descs(tier, rng):
        yield from own_descs(tier, rng)
        for p in parts:
            for d in p.descs(tier, rng):
                yield {"part": p.tag, "d": d}

    def run(desc):
        if isinstance(desc, dict) and "part" in desc and desc["part"] in by_tag:
            p = by_tag[desc["part"]]
            c = p.run(desc["d"])
            c.desc = desc
            c.case_module, c.run_fn, c.case_vo = p.case_module, p.run_fn, p.case_vo
            c.stats = dict(c.stats, part=p.tag)
            return c
        return own_run(desc)

    prop.descs, prop.run = descs, run
    shr = getattr(prop, "shrink_candidates", None)

    def shrink_candidates(desc):
        if isinstance(desc, dict) and "part" in desc and desc["part"] in by_tag:
            p = by_tag[desc["part"]]
            for d in getattr(p, "shrink_candidates", lambda _d: [])(desc["d"]):
                yield {"part": p.tag, "d": d}
        elif shr:
            yield from shr(desc)

    prop.shrink_candidates = shrink_candidates
    prop.rule = prop.rule + "  PARTS: " + "; ".join(f"[{p.tag}] {getattr(p, 'rule', '')}" for p in parts)
    return prop
