"""Regenerate coq/gen/Generated.v from the *source text* of /repo (ast only, no import).

Fail-closed: any shape this walk does not understand is an error (exit 2) and
the proof obligations depending on Generated.v count as not discharged.

Lifted verbatim: tables and lexical structure that *are* data –
  CONNECTORS / DEFAULT_CONNECTOR_STYLE            (C16)
  FILE_FORMAT_VERSION, ROOT ids, DEFAULT_KEY_MAPs (C05, C12, C19)
  IterMethod members, DiffClassification members  (C06, C11)
  Mermaid edge/node templates                     (C17)
  lock skeletons of the snapshot operations       (C18)
"""
from __future__ import annotations

import ast
import json
import os
import sys
from pathlib import Path

REPO = Path(os.environ.get("NUTREE_REPO", "/repo"))
OUT = Path(__file__).resolve().parent.parent / "coq" / "gen" / "Generated.v"


class Unsupported(Exception):
    pass


def parse(name):
    return ast.parse((REPO / "nutree" / name).read_text(), filename=name)


def text(s: str) -> str:
    return "[" + "; ".join(str(ord(c)) for c in s) + "]%Z"


def module_assign(mod, name):
    for node in mod.body:
        if isinstance(node, ast.Assign) and len(node.targets) == 1 and isinstance(node.targets[0], ast.Name) and node.targets[0].id == name:
            return node.value
        if isinstance(node, ast.AnnAssign) and isinstance(node.target, ast.Name) and node.target.id == name and node.value is not None:
            return node.value
    raise Unsupported(f"module-level assignment {name} not found")


def class_def(mod, name):
    for node in mod.body:
        if isinstance(node, ast.ClassDef) and node.name == name:
            return node
    raise Unsupported(f"class {name} not found")


def class_assign(cls, name):
    for node in cls.body:
        if isinstance(node, ast.Assign) and len(node.targets) == 1 and isinstance(node.targets[0], ast.Name) and node.targets[0].id == name:
            return node.value
    raise Unsupported(f"{cls.name}.{name} not found")


def func_def(scope, name):
    for node in scope.body:
        if isinstance(node, (ast.FunctionDef,)) and node.name == name:
            return node
    raise Unsupported(f"function {name} not found")


def const_str(node):
    if isinstance(node, ast.Constant) and isinstance(node.value, str):
        return node.value
    raise Unsupported(f"expected a string literal at line {getattr(node, 'lineno', '?')}")


def str_dict(node):
    if not isinstance(node, ast.Dict):
        raise Unsupported("expected a dict literal")
    return [(const_str(k), const_str(v)) for k, v in zip(node.keys, node.values)]


# ---------------------------------------------------------------------------
# lock skeletons (C18)
# ---------------------------------------------------------------------------
# A snapshot operation is abstracted to the set of its control-flow PATHS; a
# path is a list of events  A(cquire) L(release) R(ead) ("C", method).
#   A/L  `with subject:` only (explicit subject.__enter__()/__exit__() or subject._lock.acquire()/release() are
#        refused: without try/finally an exception would leave the lock held)
#   R    any read of the subject's node structure: a structural attribute or
#        method of the subject, iteration over the subject, and every use of a
#        value *derived* from such a read (helper chains `self._root._add_from(..)`,
#        loop variables ranging over it, names assigned from it) - consecutive
#        reads are collapsed, the bracket discipline does not depend on how many
#   C    re-entering another snapshot operation on the same object: a method in
#        SNAPSHOT_METHODS called on the subject / super(), or a delegate
#        function that receives the subject as positional or keyword argument
# Control flow: an `if` forks the path set when a branch contains events or
# ends the function (return/raise); loops may only contain reads (collapsed);
# `try`, nested functions that mention the subject, aliases of the subject,
# unknown attributes/methods of the subject and the subject escaping into an
# unknown callee are refused (Unsupported -> exit 2 -> obligations not
# discharged).  Exceptional exits need no paths of their own: `with` releases
# on every exit (explicit acquire/release calls are refused).
#: attributes / methods of the tree object that never touch the node structure
NON_STRUCTURAL = {"name", "DEFAULT_KEY_MAP", "DEFAULT_VALUE_MAP", "DEFAULT_CONNECTOR_STYLE", "__class__",
                  "serialize_mapper", "deserialize_mapper", "calc_data_id"}
#: attributes / methods of the tree object that are, or read, the node structure (value = live view)
STRUCTURAL = {"_root", "system_root", "children", "_node_by_id", "_nodes_by_data_id", "to_list_iter", "to_dot",
              "iterator", "__iter__", "iter_by_type", "format", "format_iter", "find_all", "find_first", "find",
              "count", "count_unique", "first_child", "last_child", "get_toplevel_nodes", "visit", "to_rdf_graph",
              "to_mermaid_flowchart", "__len__", "__getitem__", "__contains__", "calc_height", "get_random_node"}
#: the snapshot operations (methods of Tree and of every subclass in the package that overrides them)
SNAPSHOT_METHODS = ["copy", "copy_to", "filtered", "to_dict_list", "save", "to_dotfile", "tree_to_dotfile"]
#: module-level functions that implement a snapshot operation for the tree they receive
DELEGATE_FUNCS = {"tree_to_dotfile"}
#: builtins that may receive the subject without reading its structure
HARMLESS_BUILTINS = {"isinstance", "id", "type"}
#: builtins that consume a live view completely and return a detached value
MATERIALIZERS = {"list", "tuple", "set", "frozenset", "sorted", "dict", "len", "bool", "sum", "any", "all", "str", "repr",
                 "isinstance", "id", "type", "hash", "int", "float"}
#: methods (of anything) whose RESULT is a freshly built, detached value even when the receiver is live
#: (trusted like STRUCTURAL: Node.to_dict builds a new nested dict eagerly)
DETACHING_METHODS = {"to_dict"}
#: methods that consume their (live) arguments synchronously and keep no reference to them
#: (trusted: Node._add_from copies the source branch node by node into the receiver's tree)
NON_RETAINING_METHODS = {"_add_from"}
MAX_PATHS = 32


# LIVE VALUES.  `expr` answers whether the value of an expression may be a LIVE VIEW of the node structure: the
# structure itself (a child list, a node), or something LAZY that will read it when consumed (the generator returned
# by to_list_iter()/to_dot()/iterator(), a generator expression, map()/filter()/zip()/chain() of one, ...).  A live
# value must not survive the `with` block unobserved:
#   * every STORE of a live value taints the name it can be reached from afterwards - a plain name, the elements of a
#     tuple/list target, a walrus target, and for `x.a = v`, `x[k] = v`, `x[k].a += v` the base name `x`; a method
#     call `x.m(.., v, ..)` on a non-live receiver (append, update, setdefault, ...) taints `x` as well, and the
#     result of ANY call that receives a live argument is live unless the callee is a known materialiser (list, tuple,
#     dict, "".join, ... or a comprehension evaluated on the spot).  Each later use of a tainted name is a Read, so a
#     view consumed after the block shows up as a Read after the Rel and the skeleton is not bracketed;
#   * stores that cannot be followed are refused: through the tree object itself (`self.x = v`), into an object that
#     is not reachable from a local name, `global`/`nonlocal`;
#   * `return <live>` inside `with subject:` is refused (the caller would consume it after the release), so is any
#     `yield`/`await` in a snapshot operation (a suspended generator would keep, or lazily take, the lock).
# Taint is flow-sensitive in program order (it grows along the walk; branches join by union, loop bodies are walked
# twice); closures (lambda, nested def) are refused if they mention a name that is tainted ANYWHERE in the function.
def lock_skeleton(fn: ast.FunctionDef, subject: str):
    """All control-flow paths of a snapshot operation as event lists (see above)."""
    tainted: set[str] = set()
    ever: set[str] = set()          # every name tainted anywhere in the function (first, collecting, walk)
    state = {"collecting": True, "depth": 0}

    def bad(msg, n=None):
        raise Unsupported(f"lock skeleton of {fn.name}: {msg} (line {getattr(n, 'lineno', '?')})")

    def is_subject(n):
        return isinstance(n, ast.Name) and n.id == subject

    def is_super_call(n):
        return (isinstance(n, ast.Call) and isinstance(n.func, ast.Name) and n.func.id == "super"
                and not n.args and not n.keywords)

    def mentions_subject(n):
        return any(isinstance(x, ast.Name) and (x.id == subject or x.id in tainted or x.id in ever) for x in ast.walk(n))

    def base_of(n):
        while isinstance(n, (ast.Attribute, ast.Subscript, ast.Starred)):
            n = n.value
        return n

    def taint(target):
        for x in ast.walk(target):
            if isinstance(x, ast.Name):
                tainted.add(x.id)

    def taint_holder(obj, what, n):
        """A live value was put into `obj` (store target / receiver of a retaining call)."""
        b = base_of(obj)
        if is_subject(b) or is_super_call(b):
            bad(f"{what}: a live view is stored through the tree object itself", n)
        if isinstance(b, ast.Name):
            tainted.add(b.id)
        else:
            bad(f"{what}: a live view is stored into an object that cannot be followed", n)

    def store(tg, live, pre, n):
        if isinstance(tg, ast.Name):
            if tg.id == subject:
                bad(f"{subject} is rebound", n)
            if live:
                tainted.add(tg.id)
            return
        if isinstance(tg, (ast.Tuple, ast.List)):
            for e in tg.elts:
                store(e, live, pre, n)
            return
        if isinstance(tg, ast.Starred):
            store(tg.value, live, pre, n)
            return
        if isinstance(tg, (ast.Attribute, ast.Subscript)):
            b = base_of(tg)
            if is_subject(b) or is_super_call(b):
                bad(f"store through the tree object ({ast.unparse(tg)} = ...)", n)
            for c in ast.iter_child_nodes(tg):      # receiver and index are evaluated (reads, if they are live)
                if isinstance(c, ast.expr):
                    expr(c, pre)
            if live:
                taint_holder(tg, f"{ast.unparse(tg)} = <live view>", n)
            return
        bad(f"assignment target {type(tg).__name__} not understood", n)

    def subject_member(attr, n, ev, *, call):
        if attr in ("__enter__", "__exit__"):
            bad(f"explicit {subject}.{attr} in a snapshot operation (use `with {subject}:`)", n)
        if attr in SNAPSHOT_METHODS:
            if not call:
                bad(f"bound method {attr} of {subject} taken without calling it", n)
            ev.append(("C", attr))
            return False
        if attr in STRUCTURAL:
            ev.append("R")
            return True
        if attr in NON_STRUCTURAL or attr.startswith("DEFAULT_"):
            return False
        bad(f"unknown attribute/method {attr} of {subject}", n)

    def args_of(call, ev) -> bool:
        """Events of the arguments; True iff some argument is live."""
        live = False
        for a in call.args:
            if not is_subject(a):
                live = expr(a.value if isinstance(a, ast.Starred) else a, ev) or live
        for k in call.keywords:
            if not is_subject(k.value):
                live = expr(k.value, ev) or live
        return live

    def expr(n, ev) -> bool:
        """Append the events of evaluating n; True iff the value may be a live view of the structure."""
        if n is None:
            return False
        if isinstance(n, ast.Name):
            if n.id == subject:
                bad(f"{subject} escapes (alias, argument of an unknown callee, return value ...)", n)
            if n.id in tainted and isinstance(n.ctx, ast.Load):
                ev.append("R")
                return True
            return False
        if isinstance(n, (ast.Yield, ast.YieldFrom, ast.Await)):
            bad("yield/await in a snapshot operation (a suspended generator keeps, or lazily takes, the lock)", n)
        if isinstance(n, ast.NamedExpr):
            live = expr(n.value, ev)
            store(n.target, live, ev, n)
            return live
        if isinstance(n, ast.Attribute):
            if is_subject(n.value) or is_super_call(n.value):
                if n.attr == "_lock":
                    bad(f"{subject}._lock used other than by acquire()/release()", n)
                return subject_member(n.attr, n, ev, call=False)
            live = expr(n.value, ev)
            if live:
                ev.append("R")
            return live
        if isinstance(n, ast.Call):
            f = n.func
            if isinstance(f, ast.Attribute) and (is_subject(f.value) or is_super_call(f.value)):
                args_of(n, ev)
                return subject_member(f.attr, n, ev, call=True)
            if (isinstance(f, ast.Attribute) and isinstance(f.value, ast.Attribute) and is_subject(f.value.value)
                    and f.value.attr == "_lock"):
                # explicit acquire()/release() pairs are refused: an exception between them leaves the
                # lock held, and the path model below has no exceptional exits (`with` releases on all)
                bad(f"explicit {subject}._lock.{f.attr}() in a snapshot operation (use `with {subject}:`)", n)
            if any(is_subject(a) for a in n.args) or any(is_subject(k.value) for k in n.keywords):
                if isinstance(f, ast.Name) and f.id in DELEGATE_FUNCS:
                    args_of(n, ev)
                    ev.append(("C", f.id))
                    return False
                if isinstance(f, ast.Name) and f.id in HARMLESS_BUILTINS:
                    args_of(n, ev)
                    return False
                bad(f"{subject} passed to unknown callee", n)
            live_f = expr(f, ev)
            arg_live = args_of(n, ev)
            if isinstance(f, ast.Name) and f.id in MATERIALIZERS:
                return False
            if isinstance(f, ast.Attribute):
                if f.attr in DETACHING_METHODS:
                    return False
                if f.attr == "join" and isinstance(f.value, (ast.Constant, ast.JoinedStr)):
                    return False                      # "sep".join(view) consumes the view
                if f.attr in NON_RETAINING_METHODS:
                    return live_f
                if arg_live and not live_f:
                    # receiver.m(.., <live>, ..): the receiver may keep it (append, update, setdefault, ...)
                    taint_holder(f.value, f"{ast.unparse(f)}(<live view>)", n)
            # a method of a live object returns a live value; so does anything that was handed a live value
            # (map, filter, zip, iter, enumerate, itertools.*, a wrapper class ...) unless it is a materialiser
            return live_f or arg_live
        if isinstance(n, ast.FormattedValue) and is_subject(n.value):
            return False  # repr(tree) shows class and name only
        if isinstance(n, (ast.ListComp, ast.SetComp, ast.DictComp, ast.GeneratorExp)):
            lazy = False
            for g in n.generators:
                if is_subject(g.iter):
                    ev.append("R")
                    live = True
                else:
                    live = expr(g.iter, ev)
                if live:
                    taint(g.target)
                    lazy = True
                for c in g.ifs:
                    expr(c, ev)
            for part in ([n.key, n.value] if isinstance(n, ast.DictComp) else [n.elt]):
                expr(part, ev)
            # a generator expression is evaluated when it is consumed: live if anything in it touches the structure
            return isinstance(n, ast.GeneratorExp) and (lazy or mentions_subject(n))
        if isinstance(n, ast.Lambda):
            if mentions_subject(n):
                bad("lambda closes over the tree or a live view", n)
            return False
        if isinstance(n, (ast.Compare, ast.Constant, ast.JoinedStr)) or (
                isinstance(n, ast.UnaryOp) and isinstance(n.op, ast.Not)):
            for c in ast.iter_child_nodes(n):
                if isinstance(c, ast.expr):
                    expr(c, ev)
            return False
        # containers, subscripts, arithmetic, conditional expressions, starred ...: live if a part is live
        live = False
        for c in ast.iter_child_nodes(n):
            if isinstance(c, ast.expr):
                live = expr(c, ev) or live
        return live

    def dedupe(paths):
        out = []
        for p in paths:
            if p not in out:
                out.append(p)
        if len(out) > MAX_PATHS:
            bad("too many control-flow paths")
        return out

    def block(stmts):
        paths = [([], False)]
        for s in stmts:
            if all(t for _, t in paths):
                break  # unreachable code after return/raise on every path
            alts = stmt(s)
            new = []
            for e, t in paths:
                if t:
                    new.append((e, t))
                else:
                    new.extend((e + e2, t2) for e2, t2 in alts)
            paths = dedupe(new)
        return paths

    def flat_reads_only(paths, what, n):
        evs = [e for p, _ in paths for e in p]
        if any(e != "R" for e in evs):
            bad(f"lock event or snapshot call inside {what}", n)
        return ["R"] if evs else []

    def stmt(s):
        if isinstance(s, (ast.With,)):
            if any(is_subject(it.context_expr) for it in s.items):
                if len(s.items) != 1 or s.items[0].optional_vars is not None:
                    bad(f"`with {subject}` combined with other items or `as`", s)
                state["depth"] += 1
                try:
                    inner = block(s.body)
                finally:
                    state["depth"] -= 1
                return [(["A"] + e + ["L"], t) for e, t in inner]
            pre = []
            for it in s.items:
                live = expr(it.context_expr, pre)
                if it.optional_vars is not None:
                    store(it.optional_vars, live, pre, s)
            return [(pre + e, t) for e, t in block(s.body)]
        if isinstance(s, (ast.For, ast.While)):
            pre = []
            if isinstance(s, ast.For):
                if is_subject(s.iter):
                    pre.append("R")
                    live = True
                else:
                    live = expr(s.iter, pre)
                store(s.target, live, pre, s)
            else:
                expr(s.test, pre)
            block(s.body)          # first walk: what the body taints is visible at the top of the next iteration
            return [(pre + flat_reads_only(block(s.body) + block(s.orelse), "a loop", s), False)]
        if isinstance(s, ast.If):
            pre = []
            expr(s.test, pre)
            alts = block(s.body) + (block(s.orelse) if s.orelse else [([], False)])
            if all(not e and not t for e, t in alts):
                return [(pre, False)]
            return dedupe([(pre + e, t) for e, t in alts])
        if isinstance(s, ast.Return):
            pre = []
            live = expr(s.value, pre)
            if live and state["depth"] > 0 and not state["collecting"]:
                bad("`return` of a live (possibly lazy) view of the tree from inside `with "
                    f"{subject}:` - it would be consumed after the release; materialise it (list(...), tuple(...), "
                    "dict(...), a comprehension)", s)
            return [(pre, True)]
        if isinstance(s, ast.Raise):
            pre = []
            for c in ast.iter_child_nodes(s):
                if isinstance(c, ast.expr):
                    expr(c, pre)
            return [(pre, True)]
        if isinstance(s, ast.Try):
            parts = block(s.body) + [p for h in s.handlers for p in block(h.body)] + block(s.orelse) + block(s.finalbody)
            if any(e or t for e, t in parts):
                bad("try statement around tree accesses or returns", s)
            return [([], False)]
        if isinstance(s, (ast.FunctionDef, ast.AsyncFunctionDef, ast.ClassDef)):
            if mentions_subject(s):
                bad(f"nested definition {s.name} closes over the tree", s)
            return [([], False)]
        if isinstance(s, ast.Expr) and isinstance(s.value, ast.Constant):
            return [([], False)]  # docstring
        if isinstance(s, (ast.Assign, ast.AnnAssign)):
            pre = []
            live = expr(s.value, pre) if s.value is not None else False
            for tg in (s.targets if isinstance(s, ast.Assign) else [s.target]):
                store(tg, live, pre, s)
            return [(pre, False)]
        if isinstance(s, ast.AugAssign):
            pre = []
            live = expr(s.value, pre)
            store(s.target, live, pre, s)
            if isinstance(s.target, ast.Name) and s.target.id in tainted:
                pre.append("R")                      # x += ... reads x
            return [(pre, False)]
        if isinstance(s, (ast.Global, ast.Nonlocal)):
            bad("global/nonlocal in a snapshot operation (stores cannot be followed)", s)
        if isinstance(s, (ast.Expr, ast.Assert, ast.Delete, ast.Pass, ast.Break, ast.Continue, ast.Import,
                          ast.ImportFrom)):
            pre = []
            for c in ast.iter_child_nodes(s):
                if isinstance(c, ast.expr):
                    expr(c, pre)
            return [(pre, False)]
        bad(f"statement {type(s).__name__} not understood", s)

    def collapse(evs):
        out = []
        for e in evs:
            if e == "R" and out and out[-1] == "R":
                continue
            out.append(e)
        return out

    # first walks: collect every name that is tainted anywhere (for the closure checks); twice, so that a taint
    # made late in the function is seen by an earlier closure as well
    block(fn.body)
    block(fn.body)
    ever.update(tainted)
    tainted.clear()
    state["collecting"] = False
    paths = block(fn.body)    # the walk that counts: taint grows in program order
    return dedupe([collapse(e) for e, _ in paths])


def snapshot_table(modules, dot):
    """(label, method, paths) for every snapshot operation: Tree's own methods, the
    overrides in every subclass found in the package, and the delegate functions."""
    classes = {}
    for mod in modules:
        for node in mod.body:
            if isinstance(node, ast.ClassDef):
                classes[node.name] = node
    def is_tree_class(c, seen=()):
        if c.name == "Tree":
            return True
        return any(isinstance(b, ast.Name) and b.id in classes and b.id not in seen
                   and is_tree_class(classes[b.id], seen + (c.name,)) for b in c.bases)
    table = []
    for c in classes.values():
        if not is_tree_class(c):
            continue
        for node in c.body:
            if isinstance(node, ast.Assign) and any(isinstance(t, ast.Name) and t.id in SNAPSHOT_METHODS + ["__enter__", "__exit__"] for t in node.targets):
                raise Unsupported(f"{c.name}: snapshot operation bound by assignment (line {node.lineno})")
            if not isinstance(node, (ast.FunctionDef, ast.AsyncFunctionDef)):
                continue
            if node.name in ("__enter__", "__exit__") and c.name != "Tree":
                raise Unsupported(f"{c.name} overrides {node.name}")
            if node.name in SNAPSHOT_METHODS:
                if not node.args.args or node.args.args[0].arg != "self" or node.decorator_list:
                    raise Unsupported(f"{c.name}.{node.name}: not a plain method")
                label = {"Tree": "tree", "TypedTree": "typed"}.get(c.name, c.name.lower()) + "_" + node.name
                table.append((label, node.name, lock_skeleton(node, "self")))
    for fname in sorted(DELEGATE_FUNCS):
        fn = func_def(dot, fname)
        if not fn.args.args or fn.args.args[0].arg != "tree":
            raise Unsupported(f"{fname}: first parameter is not `tree`")
        table.append(("dot_" + fname, fname, lock_skeleton(fn, "tree")))
    have = {m for _, m, _ in table}
    for _, _, paths in table:
        for p in paths:
            for e in p:
                if isinstance(e, tuple) and e[1] not in have:
                    raise Unsupported(f"call of snapshot operation {e[1]} which has no skeleton")
    for m in SNAPSHOT_METHODS:
        if m not in have:
            raise Unsupported(f"snapshot operation {m} not found")
    return table


def ev_list(evs):
    m = {"A": "Acq", "L": "Rel", "R": "Read"}
    return "[" + "; ".join(m[e] if isinstance(e, str) else f"Call {SNAPSHOT_METHODS.index(e[1])}" for e in evs) + "]"



# ---------------------------------------------------------------------------
# C19: nutree/fs.py  (additive block; fail-closed like the rest)
# ---------------------------------------------------------------------------
def fs_facts(fs):
    """Keys written by FileSystemTree.serialize_mapper in its two branches (with the attribute of `inst`
    or the constant stored under each key), keys read by deserialize_mapper (test key, constructor
    arguments), and the sort keys of the two `sorted(...)` calls in load_tree_from_fs."""
    out = []
    cls = class_def(fs, "FileSystemTree")

    def src(node):
        if isinstance(node, ast.Attribute) and isinstance(node.value, ast.Name) and node.value.id == "inst":
            return node.attr
        if isinstance(node, ast.Constant) and node.value is True:
            return "True"
        raise Unsupported(f"serialize_mapper: value at line {node.lineno} is neither inst.<attr> nor True")

    def update_dict(stmts, what):
        if len(stmts) != 1 or not (isinstance(stmts[0], ast.Expr) and isinstance(stmts[0].value, ast.Call)):
            raise Unsupported(f"serialize_mapper: {what} branch is not a single data.update(...) call")
        call = stmts[0].value
        if not (isinstance(call.func, ast.Attribute) and call.func.attr == "update" and isinstance(call.func.value, ast.Name)
                and call.func.value.id == "data" and len(call.args) == 1 and isinstance(call.args[0], ast.Dict) and not call.keywords):
            raise Unsupported(f"serialize_mapper: {what} branch is not data.update({{...}})")
        d = call.args[0]
        return [(const_str(k), src(v)) for k, v in zip(d.keys, d.values)]

    ser = func_def(cls, "serialize_mapper")
    body = [n for n in ser.body if not (isinstance(n, ast.Expr) and isinstance(n.value, ast.Constant))]
    if not (len(body) == 3 and isinstance(body[0], ast.Assign) and isinstance(body[1], ast.If) and isinstance(body[2], ast.Return)):
        raise Unsupported("serialize_mapper: expected `inst = node.data; if inst.is_dir: ... else: ...; return data`")
    a = body[0]
    if not (isinstance(a.targets[0], ast.Name) and a.targets[0].id == "inst" and isinstance(a.value, ast.Attribute)
            and a.value.attr == "data" and isinstance(a.value.value, ast.Name) and a.value.value.id == "node"):
        raise Unsupported("serialize_mapper: inst is not node.data")
    t = body[1].test
    if not (isinstance(t, ast.Attribute) and t.attr == "is_dir" and isinstance(t.value, ast.Name) and t.value.id == "inst"):
        raise Unsupported("serialize_mapper: branch test is not inst.is_dir")
    if not (isinstance(body[2].value, ast.Name) and body[2].value.id == "data"):
        raise Unsupported("serialize_mapper: does not return data")
    kv = lambda rows: "[" + "; ".join(f"({text(a)}, {text(b)})" for a, b in rows) + "]"  # noqa: E731
    out.append(f"Definition FS_SER_DIR : list (list Z * list Z) := {kv(update_dict(body[1].body, 'is_dir'))}.")
    out.append(f"Definition FS_SER_FILE : list (list Z * list Z) := {kv(update_dict(body[1].orelse, 'file'))}.")

    des = func_def(cls, "deserialize_mapper")
    body = [n for n in des.body if not (isinstance(n, ast.Expr) and isinstance(n.value, ast.Constant))]
    if not (len(body) == 2 and isinstance(body[0], ast.If) and not body[0].orelse and isinstance(body[1], ast.Return)
            and len(body[0].body) == 1 and isinstance(body[0].body[0], ast.Return)):
        raise Unsupported("deserialize_mapper: expected `if <key> in data: return ...; return ...`")
    t = body[0].test
    if not (isinstance(t, ast.Compare) and len(t.ops) == 1 and isinstance(t.ops[0], ast.In)
            and isinstance(t.comparators[0], ast.Name) and t.comparators[0].id == "data"):
        raise Unsupported("deserialize_mapper: test is not `<key> in data`")
    out.append(f"Definition FS_DESER_TEST : list Z := {text(const_str(t.left))}.")

    def ctor_args(ret, what):
        c = ret.value
        if not (isinstance(c, ast.Call) and isinstance(c.func, ast.Name) and c.func.id == "FileSystemEntry"):
            raise Unsupported(f"deserialize_mapper: {what} branch does not return FileSystemEntry(...)")

        def arg(v):
            if isinstance(v, ast.Subscript) and isinstance(v.value, ast.Name) and v.value.id == "data":
                return "data:" + const_str(v.slice)
            if isinstance(v, ast.Constant) and v.value is True:
                return "True"
            raise Unsupported(f"deserialize_mapper: argument at line {v.lineno}")

        return [("", arg(a)) for a in c.args] + [(k.arg, arg(k.value)) for k in c.keywords]

    out.append(f"Definition FS_DESER_DIR : list (list Z * list Z) := {kv(ctor_args(body[0].body[0], 'dir'))}.")
    out.append(f"Definition FS_DESER_FILE : list (list Z * list Z) := {kv(ctor_args(body[1], 'file'))}.")

    # the two sorted(...) calls of load_tree_from_fs.visit
    load = func_def(fs, "load_tree_from_fs")
    visit = func_def(load, "visit")
    calls = [n for n in ast.walk(visit) if isinstance(n, ast.Call) and isinstance(n.func, ast.Name) and n.func.id == "sorted"]
    rows = []
    for c in sorted(calls, key=lambda n: n.lineno):
        if not (len(c.args) == 1 and isinstance(c.args[0], ast.Name) and len(c.keywords) == 1 and c.keywords[0].arg == "key"):
            raise Unsupported(f"load_tree_from_fs: sorted(...) at line {c.lineno} is not sorted(<list>, key=...)")
        k = c.keywords[0].value
        if not (isinstance(k, ast.Call) and isinstance(k.func, ast.Name) and k.func.id in ("attrgetter", "itemgetter")
                and len(k.args) == 1 and isinstance(k.args[0], ast.Constant) and not k.keywords):
            raise Unsupported(f"load_tree_from_fs: sort key at line {c.lineno}")
        rows.append((c.args[0].id, f"{k.func.id}:{k.args[0].value}"))
    out.append(f"Definition FS_SORT_CALLS : list (list Z * list Z) := {kv(rows)}.")
    # what is appended to `dirs` (element 0 of the tuple is the sort key)
    apps = [n for n in ast.walk(visit) if isinstance(n, ast.Call) and isinstance(n.func, ast.Attribute) and n.func.attr == "append"
            and isinstance(n.func.value, ast.Name) and n.func.value.id == "dirs"]
    if not (len(apps) == 1 and len(apps[0].args) == 1 and isinstance(apps[0].args[0], ast.Tuple)
            and all(isinstance(e, ast.Name) for e in apps[0].args[0].elts)):
        raise Unsupported("load_tree_from_fs: dirs.append((<names>)) not found")
    out.append("Definition FS_DIRS_TUPLE : list (list Z) := [" + "; ".join(text(e.id) for e in apps[0].args[0].elts) + "].")
    return out

# ---------------------------------------------------------------------------
DECLS = Path(__file__).resolve().parent / "gen_facts_decls.json"   # last known good shape (name : type) of every section


def doc_examples():
    """The literal native-format documents of docs/sphinx/ug_serialize.rst: every
    indented literal block that is a JSON object with a "meta" and a "nodes"
    member.  The guide writes one of them with a trailing comma inside an
    object; `,` directly before a closing brace/bracket is dropped, nothing
    else is touched.  Fail closed if fewer than 4 are found."""
    import json
    import re

    rst = (REPO / "docs" / "sphinx" / "ug_serialize.rst").read_text(encoding="utf8").splitlines()
    blocks = []
    i = 0
    while i < len(rst):
        if rst[i].rstrip() == "    {":
            j = i
            while j < len(rst) and rst[j].rstrip() != "    }":
                if rst[j].strip() and not rst[j].startswith("    "):
                    break
                j += 1
            if j < len(rst) and rst[j].rstrip() == "    }":
                blocks.append("\n".join(rst[i:j + 1]))
                i = j
        i += 1
    docs = []
    for b in blocks:
        if '"meta"' not in b or '"nodes"' not in b:
            continue
        norm = re.sub(r",(\s*[}\]])", r"\1", b)
        try:
            docs.append(json.loads(norm, object_pairs_hook=lambda kv: ("dict", kv)))
        except ValueError as e:
            raise Unsupported(f"ug_serialize.rst: example document is not JSON: {e}")
    if len(docs) < 4:
        raise Unsupported(f"ug_serialize.rst: expected 4 native-format example documents, found {len(docs)}")
    return docs


def gjson(v) -> str:
    if v is None:
        return "GNull"
    if isinstance(v, bool):
        return f"(GBool {'true' if v else 'false'})"
    if isinstance(v, int):
        return f"(GInt ({v})%Z)"
    if isinstance(v, str):
        return f"(GStr {text(v)})"
    if isinstance(v, list):
        return "(GList [" + "; ".join(gjson(x) for x in v) + "])"
    if isinstance(v, tuple) and v[0] == "dict":
        return "(GDict [" + "; ".join(f"({text(k)}, {gjson(x)})" for k, x in v[1]) + "])"
    raise Unsupported(f"example document: unsupported JSON value {v!r}")


def sec_connectors(m):
    lines = []
    conn = module_assign(m["common"], "CONNECTORS")
    if not isinstance(conn, ast.Dict):
        raise Unsupported("CONNECTORS is not a dict literal")
    rows = []
    for k, v in zip(conn.keys, conn.values):
        name = const_str(k)
        if not isinstance(v, ast.Tuple):
            raise Unsupported(f"CONNECTORS[{name}] is not a tuple literal")
        segs = [const_str(e) for e in v.elts]
        rows.append((name, segs))
    lines.append("Definition CONNECTORS : list (list Z * list (list Z)) := [\n" +
                 ";\n".join(f"  ({text(n)}, [{'; '.join(text(s) for s in segs)}])" for n, segs in rows) + "\n].")
    tcls = class_def(m["tree"], "Tree")
    lines.append(f"Definition DEFAULT_CONNECTOR_STYLE : list Z := {text(const_str(class_assign(tcls, 'DEFAULT_CONNECTOR_STYLE')))}.")
    return lines


def sec_const(m):
    lines = []
    common, tree, typed, fs, init = m["common"], m["tree"], m["typed"], m["fs"], m["init"]
    tcls = class_def(tree, "Tree")
    lines.append(f"Definition FILE_FORMAT_VERSION : list Z := {text(const_str(module_assign(common, 'FILE_FORMAT_VERSION')))}.")
    lines.append(f"Definition NUTREE_VERSION : list Z := {text(const_str(module_assign(init, '__version__')))}.")
    lines.append(f"Definition ROOT_DATA_ID : list Z := {text(const_str(module_assign(common, 'ROOT_DATA_ID')))}.")
    rn = module_assign(common, "ROOT_NODE_ID")
    if not (isinstance(rn, ast.Constant) and isinstance(rn.value, int)):
        raise Unsupported("ROOT_NODE_ID")
    lines.append(f"Definition ROOT_NODE_ID : Z := {rn.value}%Z.")

    def kmap(cls, nm):
        return "[" + "; ".join(f"({text(a)}, {text(b)})" for a, b in str_dict(class_assign(cls, nm))) + "]"

    lines.append(f"Definition TREE_KEY_MAP : list (list Z * list Z) := {kmap(tcls, 'DEFAULT_KEY_MAP')}.")
    ttcls = class_def(typed, "TypedTree")
    lines.append(f"Definition TYPED_KEY_MAP : list (list Z * list Z) := {kmap(ttcls, 'DEFAULT_KEY_MAP')}.")
    lines.append(f"Definition FS_KEY_MAP : list (list Z * list Z) := {kmap(class_def(fs, 'FileSystemTree'), 'DEFAULT_KEY_MAP')}.")
    lines.append(f"Definition DEFAULT_CHILD_TYPE : list Z := {text(const_str(class_assign(ttcls, 'DEFAULT_CHILD_TYPE')))}.")
    for nm, cls in (("TREE", tcls), ("TYPED", ttcls)):
        v = class_assign(cls, "DEFAULT_VALUE_MAP")
        if not (isinstance(v, ast.Dict) and not v.keys):
            raise Unsupported(f"{nm} DEFAULT_VALUE_MAP is not an empty dict literal")
        lines.append(f"Definition {nm}_VALUE_MAP : list (list Z * list (list Z)) := [].")
    # FileSystemTree must not override DEFAULT_VALUE_MAP (it inherits Tree's)
    if any(isinstance(n, ast.Assign) and isinstance(n.targets[0], ast.Name) and n.targets[0].id == "DEFAULT_VALUE_MAP"
           for n in class_def(fs, "FileSystemTree").body):
        raise Unsupported("FileSystemTree overrides DEFAULT_VALUE_MAP")
    return lines


def sec_fs(m):
    # C19: lexical structure of the FileSystemTree mappers and of the two sort calls of load_tree_from_fs
    return list(fs_facts(m["fs"]))


def sec_enums(m):
    def enum_members(mod, name):
        cls = class_def(mod, name)
        res = []
        for n in cls.body:
            if isinstance(n, ast.Assign) and isinstance(n.targets[0], ast.Name) and isinstance(n.value, ast.Constant):
                res.append((n.targets[0].id, n.value.value))
        return res

    im = enum_members(m["common"], "IterMethod")
    dc = enum_members(m["diff"], "DiffClassification")
    return ["Definition ITER_METHODS : list (list Z * list Z) := [" + "; ".join(f"({text(a)}, {text(b)})" for a, b in im) + "].",
            "Definition DIFF_CLASSES : list (list Z * Z) := [" + "; ".join(f"({text(a)}, {b}%Z)" for a, b in dc) + "]."]


def sec_mermaid(m):
    return [f"Definition MERMAID_{nm} : list Z := {text(const_str(module_assign(m['mermaid'], nm)))}."
            for nm in ("DEFAULT_NODE_TEMPLATE", "DEFAULT_EDGE_TEMPLATE", "DEFAULT_EDGE_TEMPLATE_TYPED")]


def sec_export(m):
    # C17: the line skeletons yielded by the DOT / Mermaid generators, in source order:
    #     string literals verbatim, every {placeholder} of an f-string as code point 0, any other expression as [1]
    mermaid, dot = m["mermaid"], m["dot"]
    lines = []

    def yield_skeletons(fn):
        ys = sorted((n for n in ast.walk(fn) if isinstance(n, ast.Yield)), key=lambda n: (n.lineno, n.col_offset))
        out = []
        for y in ys:
            v = y.value
            if isinstance(v, ast.Constant) and isinstance(v.value, str):
                out.append(v.value)
            elif isinstance(v, ast.JoinedStr):
                parts = []
                for part in v.values:
                    if isinstance(part, ast.Constant) and isinstance(part.value, str):
                        if "\x00" in part.value or "\x01" in part.value:
                            raise Unsupported("control character in a yielded literal")
                        parts.append(part.value)
                    elif isinstance(part, ast.FormattedValue):
                        parts.append("\x00")
                    else:
                        raise Unsupported(f"f-string part at line {v.lineno}")
                out.append("".join(parts))
            else:
                out.append("\x01")
        return out

    for nm, fn in (("MERMAID_YIELDS", func_def(mermaid, "_node_to_mermaid_flowchart_iter")), ("DOT_YIELDS", func_def(dot, "node_to_dot"))):
        lines.append(f"Definition {nm} : list (list Z) := [" + "; ".join(text(x) for x in yield_skeletons(fn)) + "].")
    dot_fn = func_def(dot, "node_to_dot")
    ind = [n.value for n in dot_fn.body if isinstance(n, ast.Assign) and len(n.targets) == 1
           and isinstance(n.targets[0], ast.Name) and n.targets[0].id == "indent"]
    if len(ind) != 1:
        raise Unsupported("node_to_dot: indent = <literal> not found")
    lines.append(f"Definition DOT_INDENT : list Z := {text(const_str(ind[0]))}.")
    return lines


def sec_traverse(m):
    # traversal handlers of Node (C06): what getattr(self, f"_iter_{method.value}") and
    # getattr(cls, f"_visit_{method.value}") can find, and the literal revert/toggle flags of the level variants
    lines = []
    ncls = class_def(m["node"], "Node")

    def handler_names(prefix):
        return [n.name[len(prefix):] for n in ncls.body if isinstance(n, ast.FunctionDef) and n.name.startswith(prefix)]

    def coq_bool(node):
        if isinstance(node, ast.Constant) and isinstance(node.value, bool):
            return "true" if node.value else "false"
        raise Unsupported(f"expected a bool literal at line {getattr(node, 'lineno', '?')}")

    lines.append("Definition NODE_ITER_HANDLERS : list (list Z) := [" + "; ".join(text(s) for s in handler_names("_iter_")) + "].")
    lines.append("Definition NODE_VISIT_HANDLERS : list (list Z) := [" + "; ".join(text(s) for s in handler_names("_visit_")) + "].")
    il = func_def(ncls, "_iter_level")
    kwo = [a.arg for a in il.args.kwonlyargs]
    if kwo != ["revert", "toggle"] or il.args.args[1:] or il.args.vararg or il.args.kwarg:
        raise Unsupported("_iter_level signature")
    flags = [("level", coq_bool(il.args.kw_defaults[0]), coq_bool(il.args.kw_defaults[1]))]
    for nm in ("level_rtl", "zigzag", "zigzag_rtl"):
        fn = func_def(ncls, "_iter_" + nm)
        body = [s for s in fn.body if not (isinstance(s, ast.Expr) and isinstance(s.value, ast.Constant))]
        if not (len(body) == 1 and isinstance(body[0], ast.Return) and isinstance(body[0].value, ast.Call)):
            raise Unsupported(f"_iter_{nm} body")
        call = body[0].value
        if not (isinstance(call.func, ast.Attribute) and call.func.attr == "_iter_level" and isinstance(call.func.value, ast.Name)
                and call.func.value.id == "self" and not call.args and [k.arg for k in call.keywords] == ["revert", "toggle"]):
            raise Unsupported(f"_iter_{nm} call")
        flags.append((nm, coq_bool(call.keywords[0].value), coq_bool(call.keywords[1].value)))
    lines.append("Definition NODE_ITER_LEVEL_FLAGS : list (list Z * (bool * bool)) := [" +
                 "; ".join(f"({text(n)}, ({r}, {t}))" for n, r, t in flags) + "].")
    return lines


# ---------------------------------------------------------------------------
# tree_generator.py (C20): lexical structure the model of RandomTree.v relies on
# ---------------------------------------------------------------------------
def tree_generator_facts(lines):
    tg = parse("tree_generator.py")
    mk = func_def(tg, "_make_tree")
    # spec.pop("<key>", default) in _make_tree, in source order
    pops = [n for n in ast.walk(mk) if isinstance(n, ast.Call) and isinstance(n.func, ast.Attribute) and n.func.attr == "pop"
            and isinstance(n.func.value, ast.Name) and n.func.value.id == "spec"]
    pops.sort(key=lambda n: (n.lineno, n.col_offset))
    if not pops or any(len(n.args) != 2 for n in pops):
        raise Unsupported("_make_tree: spec.pop(key, default) calls not found")
    lines.append("Definition TG_POPPED : list (list Z) := [" + "; ".join(text(const_str(n.args[0])) for n in pops) + "].")
    cnt = [n for n in pops if const_str(n.args[0]) == ":count"]
    if len(cnt) != 1 or not (isinstance(cnt[0].args[1], ast.Constant) and type(cnt[0].args[1].value) is int):
        raise Unsupported("_make_tree: default of :count is not an int literal")
    lines.append(f"Definition TG_COUNT_DEFAULT : Z := {cnt[0].args[1].value}%Z.")
    ors = [n for n in ast.walk(mk) if isinstance(n, ast.BoolOp) and isinstance(n.op, ast.Or) and len(n.values) == 2
           and isinstance(n.values[0], ast.Call) and getattr(n.values[0].func, "id", "") == "_resolve_random"
           and isinstance(n.values[1], ast.Constant) and type(n.values[1].value) is int]
    if len(ors) != 1:
        raise Unsupported("_make_tree: `count = _resolve_random(count) or <int>` not found")
    lines.append(f"Definition TG_COUNT_OR : Z := {ors[0].values[1].value}%Z.")
    # for i in range(count): i += 1
    loops = [n for n in ast.walk(mk) if isinstance(n, ast.For) and isinstance(n.iter, ast.Call) and getattr(n.iter.func, "id", "") == "range"]
    if len(loops) != 1 or not (len(loops[0].iter.args) == 1 and getattr(loops[0].iter.args[0], "id", "") == "count"):
        raise Unsupported("_make_tree: `for i in range(count)` not found")
    first = loops[0].body[0]
    if not (isinstance(first, ast.AugAssign) and isinstance(first.op, ast.Add) and getattr(first.target, "id", "") == loops[0].target.id
            and isinstance(first.value, ast.Constant) and type(first.value.value) is int):
        raise Unsupported("_make_tree: `i += <int>` is not the first statement of the child loop")
    lines.append(f"Definition TG_IDX_BASE : Z := {first.value.value}%Z.")
    # macros={"idx": i, "hier_idx": p}
    mac = [kw.value for n in ast.walk(mk) if isinstance(n, ast.Call) for kw in n.keywords if kw.arg == "macros"]
    if len(mac) != 1 or not isinstance(mac[0], ast.Dict) or not all(isinstance(v, ast.Name) for v in mac[0].values):
        raise Unsupported("_make_tree: macros={...} dict literal not found")
    lines.append("Definition TG_MACROS : list (list Z * list Z) := [" +
                 "; ".join(f"({text(const_str(k))}, {text(v.id)})" for k, v in zip(mac[0].keys, mac[0].values)) + "].")
    # p = f"{prefix}.{i}" if prefix else f"{i}"
    ps = [n for n in ast.walk(mk) if isinstance(n, ast.Assign) and getattr(n.targets[0], "id", "") == "p" and isinstance(n.value, ast.IfExp)]
    ok = False
    if len(ps) == 1:
        e = ps[0].value
        j1, j2 = e.body, e.orelse
        ok = (getattr(e.test, "id", "") == "prefix" and isinstance(j1, ast.JoinedStr) and isinstance(j2, ast.JoinedStr)
              and len(j1.values) == 3 and isinstance(j1.values[0], ast.FormattedValue) and getattr(j1.values[0].value, "id", "") == "prefix"
              and isinstance(j1.values[1], ast.Constant) and isinstance(j1.values[2], ast.FormattedValue)
              and getattr(j1.values[2].value, "id", "") == "i" and len(j2.values) == 1
              and isinstance(j2.values[0], ast.FormattedValue) and getattr(j2.values[0].value, "id", "") == "i")
    if not ok:
        raise Unsupported('_make_tree: `p = f"{prefix}<sep>{i}" if prefix else f"{i}"` not found')
    lines.append(f"Definition TG_HIER_SEP : list Z := {text(ps[0].value.body.values[1].value)}.")
    # _merge_specs: order of the three sources
    mg = func_def(tg, "_merge_specs")
    src = []
    for st in mg.body:
        v = st.value if isinstance(st, (ast.Assign, ast.Expr)) else None
        if isinstance(st, ast.Return):
            continue
        call = v
        if isinstance(call, ast.Call) and isinstance(call.func, ast.Attribute) and call.func.attr == "copy":
            call = call.func.value          # types.get("*", {}).copy()
            arg = call
        elif isinstance(call, ast.Call) and isinstance(call.func, ast.Attribute) and call.func.attr == "update" and len(call.args) == 1:
            arg = call.args[0]
        else:
            raise Unsupported("_merge_specs: unexpected statement")
        if isinstance(arg, ast.Name):
            src.append(arg.id)
        elif isinstance(arg, ast.Call) and isinstance(arg.func, ast.Attribute) and arg.func.attr == "get" and getattr(arg.func.value, "id", "") == "types":
            k = arg.args[0]
            src.append(const_str(k) if isinstance(k, ast.Constant) else k.id)
        else:
            raise Unsupported("_merge_specs: unexpected source")
    lines.append("Definition TG_MERGE_ORDER : list (list Z) := [" + "; ".join(text(x) for x in src) + "].")
    # Randomizer._skip_value: use = self.probability == 1.0 or random.random() <op> self.probability; return not use
    sk = func_def(class_def(tg, "Randomizer"), "_skip_value")
    cmp_ = [n for n in ast.walk(sk) if isinstance(n, ast.Compare) and isinstance(n.left, ast.Call) and isinstance(n.left.func, ast.Attribute)
            and n.left.func.attr == "random"]
    ret = [n for n in ast.walk(sk) if isinstance(n, ast.Return)]
    if len(cmp_) != 1 or len(cmp_[0].ops) != 1 or len(ret) != 1 or not (isinstance(ret[0].value, ast.UnaryOp) and isinstance(ret[0].value.op, ast.Not)):
        raise Unsupported("_skip_value: unexpected shape")
    lines.append(f"Definition TG_SKIP_CMP : list Z := {text(type(cmp_[0].ops[0]).__name__)}.")
    # every function of the random module / fabulist the file calls
    calls = sorted({n.func.attr for n in ast.walk(tg) if isinstance(n, ast.Call) and isinstance(n.func, ast.Attribute)
                    and isinstance(n.func.value, ast.Name) and n.func.value.id == "random"})
    lines.append("Definition TG_RANDOM_CALLS : list (list Z) := [" + "; ".join(text(c) for c in calls) + "].")
    uses = sorted({n.attr for n in ast.walk(tg) if isinstance(n, ast.Attribute) and isinstance(n.value, ast.Name) and n.value.id == "random"})
    lines.append("Definition TG_RANDOM_USES : list (list Z) := [" + "; ".join(text(c) for c in uses) + "].")
    # RangeRandomizer.generate: uniform / randrange on exactly (self.min, self.max)
    rg = func_def(class_def(tg, "RangeRandomizer"), "generate")
    rc = [n for n in ast.walk(rg) if isinstance(n, ast.Call) and isinstance(n.func, ast.Attribute) and getattr(n.func.value, "id", "") == "random"]
    okr = sorted(n.func.attr for n in rc) == ["randrange", "uniform"] and all(
        len(n.args) == 2 and not n.keywords and all(isinstance(a, ast.Attribute) and getattr(a.value, "id", "") == "self" for a in n.args)
        and [a.attr for a in n.args] == ["min", "max"] for n in rc)
    lines.append(f"Definition TG_RANGE_ARGS_OK : bool := {'true' if okr else 'false'}.")
    # DateRangeRandomizer.generate: randrange(self.delta_days); stamp = (timestamp() + ONE_DAY_SEC) * 1000.0
    dg = func_def(class_def(tg, "DateRangeRandomizer"), "generate")
    dc = [n for n in ast.walk(dg) if isinstance(n, ast.Call) and isinstance(n.func, ast.Attribute) and getattr(n.func.value, "id", "") == "random"]
    okd = (len(dc) == 1 and dc[0].func.attr == "randrange" and len(dc[0].args) == 1 and isinstance(dc[0].args[0], ast.Attribute)
           and dc[0].args[0].attr == "delta_days")
    st = [n for n in ast.walk(dg) if isinstance(n, ast.Assign) and getattr(n.targets[0], "id", "") == "stamp_ms"]
    oks = False
    if len(st) == 1:
        e = st[0].value
        oks = (isinstance(e, ast.BinOp) and isinstance(e.op, ast.Mult) and isinstance(e.right, ast.Constant) and e.right.value == 1000.0
               and isinstance(e.left, ast.BinOp) and isinstance(e.left.op, ast.Add) and getattr(e.left.right, "id", "") == "ONE_DAY_SEC"
               and isinstance(e.left.left, ast.Call) and getattr(e.left.left.func, "attr", "") == "timestamp")
    one = [n for n in ast.walk(dg) if isinstance(n, ast.Assign) and getattr(n.targets[0], "id", "") == "ONE_DAY_SEC"]
    try:
        one_v = eval(compile(ast.Expression(one[0].value), "<one>", "eval"), {"__builtins__": {}}) if len(one) == 1 else None
    except Exception:
        one_v = None
    lines.append(f"Definition TG_DATE_OK : bool := {'true' if okd and oks and one_v == 86400 else 'false'}.")
    # build_random_tree: the root relation key, and the '*' key of _merge_specs
    br = func_def(tg, "build_random_tree")
    roots = [kw.value for n in ast.walk(br) if isinstance(n, ast.Call) and getattr(n.func, "id", "") == "_make_tree"
             for kw in n.keywords if kw.arg == "parent_type"]
    if len(roots) != 1:
        raise Unsupported("build_random_tree: _make_tree(parent_type=...) not found")
    lines.append(f"Definition TG_ROOT : list Z := {text(const_str(roots[0]))}.")


def sec_treegen(m):
    lines = []
    tree_generator_facts(lines)
    return lines


# ---------------------------------------------------------------------------
# C08: the loop skeleton of the two filter scans (Node.filter._visit and
# Node._add_filtered._visit): statements before the chain of tests on `res`,
# the chain itself (test -> actions), statements after it, statements after
# the loop.  Tolerant by design: anything unknown becomes FaOther / FtOther
# (the obligation in Properties/C08.v then fails, nothing else does).
_F_ACTS = {
    "_visit(n)": "FaVisit",
    "must_keep = True": "FaKeep",
    "remove_nodes.append(n)": "FaRemove",
    "n.remove_children()": "FaRemoveChildren",
    "stopped = True": "FaStop",
    "raise res": "FaRaise",
    "p = _create_parents()": "FaParents",
    "p.add_child(n)": "FaAddChild",
    "p._add_from(n)": "FaAddFrom",
    "res = call_predicate(predicate, n)": "FaCallPredicate",
    "parent_stack.append((False, n))": "FaPush",
    "parent_stack.pop()": "FaPop",
    "return must_keep": "FaReturnMustKeep",
    "return": "FaReturn",
    "remove_nodes = []": "FaInitRemove",
    "must_keep = False": "FaInitKeep",
    "nonlocal stopped": "FaNonlocal",
}
_F_COMPOUND = {
    "if _visit(n):\n    must_keep = True\nelse:\n    remove_nodes.append(n)": "FaVisitKeepOrRemove",
    "if stopped:\n    remove_nodes.append(n)\n    continue": "FaGuardStopped",
    "for n in remove_nodes:\n    n.remove()": "FaRemoveCollected",
}


def _f_act(stmt):
    if isinstance(stmt, ast.Expr) and isinstance(stmt.value, ast.Constant) and isinstance(stmt.value.value, str):
        return None  # doc string
    try:
        src = ast.unparse(stmt)
    except Exception:  # noqa: BLE001
        return "FaOther"
    return _F_ACTS.get(src) or _F_COMPOUND.get(src) or "FaOther"


def _f_acts(stmts):
    return [a for a in (_f_act(x) for x in stmts) if a]


def _f_test(t):
    try:
        src = ast.unparse(t)
    except Exception:  # noqa: BLE001
        return "FtOther"
    return {"res in (None, False)": "FtNoneFalse", "res is True": "FtIsTrue",
            "isinstance(res, SelectBranch)": "FtSelect", "isinstance(res, SkipBranch)": "FtSkip",
            "isinstance(res, StopTraversal)": "FtStop"}.get(src, "FtOther")


def filter_skeleton(outer):
    """(pre-loop, prologue, chain, epilogue, post-loop) of the inner _visit of `outer`; all empty if not found."""
    empty = ([], [], [], [], [])
    if outer is None:
        return empty
    visit = next((n for n in outer.body if isinstance(n, ast.FunctionDef) and n.name == "_visit"), None)
    if visit is None:
        return empty
    k = next((i for i, n in enumerate(visit.body) if isinstance(n, ast.For)), None)
    if k is None:
        return empty
    loop = visit.body[k]
    j = next((i for i, n in enumerate(loop.body) if isinstance(n, ast.If) and any(
        isinstance(x, ast.Name) and x.id == "res" for x in ast.walk(n.test))), None)
    if j is None:
        return empty
    chain = []
    node = loop.body[j]
    while True:
        tst = _f_test(node.test)
        body = node.body
        if tst == "FtSkip" and len(body) == 1 and isinstance(body[0], ast.If) and ast.unparse(body[0].test) == "res.and_self is False":
            chain.append(("FtSkipKeepSelf", _f_acts(body[0].body)))
            chain.append(("FtSkipOther", _f_acts(body[0].orelse)))
        else:
            chain.append((tst, _f_acts(body)))
        if len(node.orelse) == 1 and isinstance(node.orelse[0], ast.If):
            node = node.orelse[0]
            continue
        if node.orelse:
            chain.append(("FtOther", _f_acts(node.orelse)))
        break
    return (_f_acts(visit.body[:k]), _f_acts(loop.body[:j]), chain, _f_acts(loop.body[j + 1:]), _f_acts(visit.body[k + 1:]))


def _opt_func(scope, name):
    if scope is None:
        return None
    return next((n for n in scope.body if isinstance(n, ast.FunctionDef) and n.name == name), None)


def filter_facts(lines):
    try:
        node_mod = parse("node.py")
        ncls = next((n for n in node_mod.body if isinstance(n, ast.ClassDef) and n.name == "Node"), None)
    except Exception:  # noqa: BLE001
        ncls = None
    lines.append("")
    lines.append("Inductive ftest := FtNoneFalse | FtIsTrue | FtSelect | FtSkip | FtSkipKeepSelf | FtSkipOther | FtStop | FtOther.")
    lines.append("Inductive fact := FaVisit | FaKeep | FaRemove | FaRemoveChildren | FaStop | FaRaise | FaParents | FaAddChild "
                 "| FaAddFrom | FaCallPredicate | FaPush | FaPop | FaReturnMustKeep | FaReturn | FaInitRemove | FaInitKeep "
                 "| FaNonlocal | FaVisitKeepOrRemove | FaGuardStopped | FaRemoveCollected | FaOther.")

    def acts(a):
        return "[" + "; ".join(a) + "]"

    for nm, fn in (("INPLACE", _opt_func(ncls, "filter")), ("COPY", _opt_func(ncls, "_add_filtered"))):
        pre, pro, chain, epi, post = filter_skeleton(fn)
        lines.append(f"Definition FILTER_{nm}_PRELOOP : list fact := {acts(pre)}.")
        lines.append(f"Definition FILTER_{nm}_PROLOGUE : list fact := {acts(pro)}.")
        lines.append(f"Definition FILTER_{nm}_CHAIN : list (ftest * list fact) := [" +
                     "; ".join(f"({t}, {acts(a)})" for t, a in chain) + "].")
        lines.append(f"Definition FILTER_{nm}_EPILOGUE : list fact := {acts(epi)}.")
        lines.append(f"Definition FILTER_{nm}_POSTLOOP : list fact := {acts(post)}.")

def sec_filter(m):
    lines = []
    filter_facts(lines)
    return lines


def sec_dictlist(m):
    lines = []
    # --- C14: literal keys of the dict form (Node.to_dict / Node.from_dict) and the data_id test
    node_mod = parse("node.py")
    ncls = class_def(node_mod, "Node")
    td = func_def(ncls, "to_dict")
    found = []
    for n in ast.walk(td):
        if isinstance(n, ast.Dict) and n.keys and all(isinstance(k, ast.Constant) and isinstance(k.value, str) for k in n.keys):
            for k in n.keys:
                found.append((k.lineno, k.col_offset, k.value))
        if (isinstance(n, ast.Subscript) and isinstance(n.ctx, ast.Store) and isinstance(n.value, ast.Name) and n.value.id == "res"):
            found.append((n.lineno, n.col_offset, const_str(n.slice)))
    if not found:
        raise Unsupported("Node.to_dict: no literal keys found")
    lines.append("Definition TO_DICT_KEYS : list (list Z) := [" + "; ".join(text(k) for _, _, k in sorted(found)) + "].")
    # shape of the data_id test: 1 = [if self._data_id != hash(self._data):] (raises for unhashable data, D30b);
    # 2 = [try: is_default = self._data_id == hash(self._data) / except TypeError: is_default = False] + [if not is_default:]
    def is_self_attr(n, attr):
        return isinstance(n, ast.Attribute) and n.attr == attr and isinstance(n.value, ast.Name) and n.value.id == "self"

    def is_hash_of_data(n):
        return (isinstance(n, ast.Call) and isinstance(n.func, ast.Name) and n.func.id == "hash" and len(n.args) == 1
                and is_self_attr(n.args[0], "_data"))

    def sets_data_id(st):
        return isinstance(st, ast.If) and any(
            isinstance(b, ast.Assign) and isinstance(b.targets[0], ast.Subscript) and isinstance(b.targets[0].slice, ast.Constant)
            and b.targets[0].slice.value == "data_id" and is_self_attr(b.value, "_data_id") for b in st.body)

    def guarded_try(st):
        if not (isinstance(st, ast.Try) and len(st.body) == 1 and len(st.handlers) == 1 and not st.orelse and not st.finalbody):
            return None
        b, h = st.body[0], st.handlers[0]
        if not (isinstance(b, ast.Assign) and isinstance(b.targets[0], ast.Name) and isinstance(b.value, ast.Compare)
                and len(b.value.ops) == 1 and isinstance(b.value.ops[0], ast.Eq) and is_self_attr(b.value.left, "_data_id")
                and is_hash_of_data(b.value.comparators[0])):
            return None
        if not (isinstance(h.type, ast.Name) and h.type.id == "TypeError" and len(h.body) == 1 and isinstance(h.body[0], ast.Assign)
                and isinstance(h.body[0].targets[0], ast.Name) and h.body[0].targets[0].id == b.targets[0].id
                and isinstance(h.body[0].value, ast.Constant) and h.body[0].value.value is False):
            return None
        return b.targets[0].id

    id_test = 0
    flag = None
    for st in td.body:
        g = guarded_try(st)
        if g:
            flag = g
        if sets_data_id(st):
            t = st.test
            if (isinstance(t, ast.Compare) and len(t.ops) == 1 and isinstance(t.ops[0], ast.NotEq)
                    and is_self_attr(t.left, "_data_id") and is_hash_of_data(t.comparators[0])):
                id_test = 1
            elif (flag and isinstance(t, ast.UnaryOp) and isinstance(t.op, ast.Not) and isinstance(t.operand, ast.Name)
                  and t.operand.id == flag):
                id_test = 2
    lines.append(f"Definition TO_DICT_ID_TEST : Z := {id_test}%Z.")
    # statement skeleton of Node.to_dict: 0 res = {...}; 5 try: is_default = ...; 1 if <id test>: res["data_id"] = ...; 2 res = call_mapper(...);
    # 3 if self._children: ...; 4 return res; 9 anything else (doc strings skipped)
    skel = []
    for st in td.body:
        if isinstance(st, ast.Expr) and isinstance(st.value, ast.Constant) and isinstance(st.value.value, str):
            continue
        if isinstance(st, (ast.Assign, ast.AnnAssign)) and isinstance(st.value, ast.Dict):
            skel.append(0)
        elif sets_data_id(st):
            skel.append(1)
        elif guarded_try(st):
            skel.append(5)
        elif (isinstance(st, ast.Assign) and isinstance(st.value, ast.Call) and isinstance(st.value.func, ast.Name)
              and st.value.func.id == "call_mapper"):
            skel.append(2)
        elif (isinstance(st, ast.If) and isinstance(st.test, ast.Attribute) and st.test.attr == "_children"
              and any("children" == getattr(getattr(n, "slice", None), "value", None) for b in st.body for n in ast.walk(b)
                      if isinstance(n, ast.Subscript))):
            skel.append(3)
        elif isinstance(st, ast.Return):
            skel.append(4)
        else:
            skel.append(9)
    lines.append("Definition TO_DICT_SKELETON : list Z := [" + "; ".join(f"{k}%Z" for k in skel) + "].")
    fdn = func_def(ncls, "from_dict")
    found = []
    for n in ast.walk(fdn):
        if (isinstance(n, ast.Subscript) and isinstance(n.ctx, ast.Load) and isinstance(n.value, ast.Name) and n.value.id == "item"):
            found.append((n.lineno, n.col_offset, const_str(n.slice)))
        if (isinstance(n, ast.Call) and isinstance(n.func, ast.Attribute) and n.func.attr == "get"
                and isinstance(n.func.value, ast.Name) and n.func.value.id == "item" and len(n.args) == 1):
            found.append((n.lineno, n.col_offset, const_str(n.args[0])))
    if not found:
        raise Unsupported("Node.from_dict: no literal keys found")
    lines.append("Definition FROM_DICT_KEYS : list (list Z) := [" + "; ".join(text(k) for _, _, k in sorted(found)) + "].")
    return lines


def sec_docs(m):
    # literal example documents of the user guide (C12)
    lines = []
    docs = doc_examples()
    for i, d in enumerate(docs):
        lines.append(f"Definition DOC_EXAMPLE_{i} : gjson := {gjson(d)}.")
    lines.append("Definition DOC_EXAMPLES : list gjson := [" + "; ".join(f"DOC_EXAMPLE_{i}" for i in range(len(docs))) + "].")
    return lines


def sec_lock(m):
    tree, typed, fs, dot = m["tree"], m["typed"], m["fs"], m["dot"]
    tcls = class_def(tree, "Tree")
    lines = []
    table = snapshot_table([tree, typed, fs], dot)
    lines.append("Definition SNAPSHOT_METHOD_NAMES : list (list Z) := [" + "; ".join(text(x) for x in SNAPSHOT_METHODS) + "].")
    for nm, _, paths in table:
        lines.append(f"Definition prog_{nm} : list (list lev) := [" + "; ".join(ev_list(p) for p in paths) + "].")
    lines.append("Definition SNAPSHOT_PROGS : list (nat * list (list lev)) := [" +
                 "; ".join(f"({SNAPSHOT_METHODS.index(mm)}, prog_{nm})" for nm, mm, _ in table) + "].")
    lines.append("Definition SNAPSHOT_LABELS : list (list Z) := [" + "; ".join(text(nm) for nm, _, _ in table) + "].")
    # __enter__/__exit__ must be exactly acquire / release of self._lock (no arguments: blocking, no timeout)
    for meth, call in (("__enter__", "acquire"), ("__exit__", "release")):
        fn = func_def(tcls, meth)
        calls = [n for n in ast.walk(fn) if isinstance(n, ast.Call)]
        ok = (len(calls) == 1 and isinstance(calls[0].func, ast.Attribute) and calls[0].func.attr == call
              and not calls[0].args and not calls[0].keywords
              and isinstance(calls[0].func.value, ast.Attribute) and calls[0].func.value.attr == "_lock"
              and isinstance(calls[0].func.value.value, ast.Name) and calls[0].func.value.value.id == "self"
              and not any(isinstance(n, (ast.If, ast.Try, ast.For, ast.While, ast.With)) for n in ast.walk(fn)))
        lines.append(f"Definition LOCK_{call.upper()}_OK : bool := {'true' if ok else 'false'}.")
    # the lock is a re-entrant lock, created once, in Tree.__init__, and never rebound anywhere in the package
    init_fn = func_def(tcls, "__init__")

    def lock_stores(scope):
        return [n for n in ast.walk(scope) if isinstance(n, (ast.Assign, ast.AnnAssign, ast.AugAssign))
                and any(isinstance(x, ast.Attribute) and x.attr == "_lock" and isinstance(x.ctx, ast.Store) for x in ast.walk(n))]
    rl = lock_stores(init_fn)
    everywhere = sum(len(lock_stores(mm)) for mm in (tree, typed, fs, dot, m["node"]))
    v = rl[0].value if len(rl) == 1 and isinstance(rl[0], ast.Assign) else None
    is_rlock = (everywhere == 1 and isinstance(v, ast.Call) and not v.args and not v.keywords
                and ((isinstance(v.func, ast.Attribute) and v.func.attr == "RLock" and isinstance(v.func.value, ast.Name)
                      and v.func.value.id == "threading") or (isinstance(v.func, ast.Name) and v.func.id == "RLock")))
    lines.append(f"Definition LOCK_IS_RLOCK : bool := {'true' if is_rlock else 'false'}.")
    return lines


# ---------------------------------------------------------------------------
# relationship queries (C10) and kind-aware queries (C15): lexical facts the model of Nav.v relies on
# ---------------------------------------------------------------------------
# Lifted per accessor of node.py / typed_tree.py:
#   * whether it searches for / compares NODES by equality (`==`, `!=`, `in`, `not in` with the bare name `self` as an
#     operand, or a call of the equality-based list methods .index/.count/.remove)            -> NAV_EQ_ON_NODES (must stay [])
#   * whether it compares with `is self` / `is not self`, and which other accessors it delegates to     -> NAV_IDENTITY
#   * which attribute of `self._parent` it reads                                                         -> NAV_PARENT_READS
#   * the attribute names on both sides of every `==` of the typed accessors (kind comparisons)         -> NAV_T_KIND_COMPARES
#   * integer subscripts `x[0]`, `x[-1]`, `x[idx + 1]` ...                                               -> NAV_SUBSCRIPTS
#   * comparison operators / constants of TypedNode.has_children, next_sibling, prev_sibling, last_child, Node.up,
#     and the counters of calc_depth / count_descendants / calc_height
NAV_NODE_FUNCS = ["get_index", "prev_sibling", "next_sibling", "is_first_sibling", "is_last_sibling", "get_siblings",
                  "first_sibling", "last_sibling", "first_child", "last_child", "get_top", "is_descendant_of",
                  "get_common_ancestor", "get_parent_list"]
NAV_TYPED_FUNCS = ["get_index", "prev_sibling", "next_sibling", "is_first_sibling", "is_last_sibling", "get_siblings",
                   "first_sibling", "last_sibling", "first_child", "last_child", "get_children", "has_children"]
NAV_IDENTITY_FUNCS = ["get_index", "prev_sibling", "next_sibling", "is_first_sibling", "is_last_sibling", "get_siblings"]
NAV_SUBSCRIPT_FUNCS = ["first_child", "last_child", "first_sibling", "last_sibling", "prev_sibling", "next_sibling",
                       "is_first_sibling", "is_last_sibling"]
NAV_DELEGATES = {"get_index", "is_first_sibling", "is_last_sibling", "first_sibling", "last_sibling", "get_siblings",
                 "get_children"}
_CMP_NAMES = {ast.Lt: "Lt", ast.Gt: "Gt", ast.LtE: "LtE", ast.GtE: "GtE", ast.Eq: "Eq", ast.NotEq: "NotEq"}


def _nav_int(node):
    """(base, offset) of an integer-valued index expression: 0, -1, idx + 1, idx - 1, idx, len(x) - 1."""
    if isinstance(node, ast.Constant) and isinstance(node.value, int) and not isinstance(node.value, bool):
        return ("", node.value)
    if isinstance(node, ast.UnaryOp) and isinstance(node.op, ast.USub) and isinstance(node.operand, ast.Constant) \
            and isinstance(node.operand.value, int):
        return ("", -node.operand.value)
    if isinstance(node, ast.Name):
        return (node.id, 0)
    if isinstance(node, ast.Call) and isinstance(node.func, ast.Name) and node.func.id == "len" and len(node.args) == 1:
        return ("len", 0)
    if isinstance(node, ast.BinOp) and isinstance(node.op, (ast.Add, ast.Sub)):
        b, o = _nav_int(node.left)
        b2, o2 = _nav_int(node.right)
        if b2 != "":
            raise Unsupported(f"index expression at line {node.lineno}")
        return (b, o + o2 if isinstance(node.op, ast.Add) else o - o2)
    raise Unsupported(f"index expression at line {getattr(node, 'lineno', '?')}")


def _nav_cmp(node):
    if not (isinstance(node, ast.Compare) and len(node.ops) == 1 and type(node.ops[0]) in _CMP_NAMES):
        raise Unsupported(f"expected a simple comparison at line {getattr(node, 'lineno', '?')}")
    return _CMP_NAMES[type(node.ops[0])], node.left, node.comparators[0]


def _nav_fn_facts(fn, cname):
    eq_nodes = is_self = False
    calls, preads, kinds, subs = [], [], [], []
    assigned = {}
    for x in ast.walk(fn):
        if isinstance(x, ast.Assign) and len(x.targets) == 1 and isinstance(x.targets[0], ast.Name) \
                and isinstance(x.value, ast.Attribute):
            assigned[x.targets[0].id] = x.value.attr
    for x in ast.walk(fn):
        if isinstance(x, ast.Compare):
            operands = [x.left] + list(x.comparators)
            bare_self = any(isinstance(o, ast.Name) and o.id == "self" for o in operands)
            if any(isinstance(op, (ast.Eq, ast.NotEq, ast.In, ast.NotIn)) for op in x.ops):
                if bare_self:
                    eq_nodes = True
                if any(isinstance(op, (ast.Eq, ast.NotEq)) for op in x.ops):
                    for o in operands:
                        if isinstance(o, ast.Attribute):
                            kinds.append(o.attr)
                        elif isinstance(o, ast.Name):
                            kinds.append(assigned.get(o.id, o.id))
                        else:
                            kinds.append("?")
            if any(isinstance(op, (ast.Is, ast.IsNot)) for op in x.ops) and bare_self:
                is_self = True
        if isinstance(x, ast.Call) and isinstance(x.func, ast.Attribute):
            if x.func.attr in ("index", "count", "remove", "__contains__", "__eq__"):
                eq_nodes = True
            if x.func.attr in NAV_DELEGATES:
                v = x.func.value
                if isinstance(v, ast.Name) and v.id == "Node":
                    qn = "Node." + x.func.attr                    # explicit base-class call Node.f(self)
                elif isinstance(v, ast.Call) and isinstance(v.func, ast.Name) and v.func.id == "super":
                    qn = "Node." + x.func.attr                    # super().f(...)
                else:
                    qn = cname + "." + x.func.attr                # self.f(...) / self._parent.f(...)
                if qn != cname + "." + fn.name and qn not in calls:
                    calls.append(qn)
        if isinstance(x, ast.Attribute) and isinstance(x.value, ast.Attribute) and x.value.attr == "_parent" \
                and isinstance(x.value.value, ast.Name) and x.value.value.id == "self":
            if x.attr not in preads:
                preads.append(x.attr)
        if isinstance(x, ast.Subscript):
            subs.append(_nav_int(x.slice))
    return dict(eq=eq_nodes, is_self=is_self, calls=calls, preads=preads, kinds=kinds, subs=subs)


def _nav_const_assign(fn, name):
    for x in ast.walk(fn):
        if isinstance(x, ast.Assign) and len(x.targets) == 1 and isinstance(x.targets[0], ast.Name) and x.targets[0].id == name:
            b, o = _nav_int(x.value)
            if b == "":
                return o
    raise Unsupported(f"{fn.name}: no literal initialisation of {name}")


def _nav_aug(fn, name):
    for x in ast.walk(fn):
        if isinstance(x, ast.AugAssign) and isinstance(x.target, ast.Name) and x.target.id == name and isinstance(x.op, ast.Add):
            b, o = _nav_int(x.value)
            if b == "":
                return o
    raise Unsupported(f"{fn.name}: no `{name} += <int>`")


def _nav_range(fn, base_names):
    """the single `range(...)` call of fn: [start offset, stop (int or 0 when it is a name), step]"""
    rs = [x for x in ast.walk(fn) if isinstance(x, ast.Call) and isinstance(x.func, ast.Name) and x.func.id == "range"]
    if len(rs) != 1:
        raise Unsupported(f"{fn.name}: expected exactly one range() call")
    a = rs[0].args
    if len(a) == 2:
        (b0, o0), (b1, o1) = _nav_int(a[0]), _nav_int(a[1])
        if b0 not in base_names or b1 == "" or o1 != 0:
            raise Unsupported(f"{fn.name}: range() arguments")
        return [o0, 0, 1], b1
    if len(a) == 3:
        (b0, o0), (b1, o1), (b2, o2) = _nav_int(a[0]), _nav_int(a[1]), _nav_int(a[2])
        if b0 not in base_names or b1 != "" or b2 != "":
            raise Unsupported(f"{fn.name}: range() arguments")
        return [o0, o1, o2], ""
    raise Unsupported(f"{fn.name}: range() arity")


def _nav_guarded(fn):
    def wrapped(m):
        try:
            return fn(m)
        except Unsupported:
            raise
        except Exception as e:   # noqa: BLE001 - anything unexpected only breaks the obligations of this section
            raise Unsupported(f"nav facts: {type(e).__name__}: {e}") from e
    return wrapped


def _nav_tables(cname, cls, names, pre):
    """the per-accessor tables of one class; `pre` = NAV (node.py) or NAVT (typed_tree.py)"""
    facts = {nm: _nav_fn_facts(func_def(cls, nm), cname) for nm in names}

    def q(n):
        return text(f"{cname}.{n}")

    def tl(xs):
        return "[" + "; ".join(text(x) for x in xs) + "]"

    lines = []
    lines.append(f"Definition {pre}_EQ_ON_NODES : list (list Z) := [" + "; ".join(q(n) for n, f in facts.items() if f["eq"]) + "].")
    lines.append(f"Definition {pre}_IDENTITY : list (list Z * (bool * list (list Z))) := [\n" + ";\n".join(
        f"  ({q(n)}, ({'true' if facts[n]['is_self'] else 'false'}, {tl(facts[n]['calls'])}))" for n in NAV_IDENTITY_FUNCS) + "\n].")
    lines.append(f"Definition {pre}_PARENT_READS : list (list Z * list (list Z)) := [\n" + ";\n".join(
        f"  ({q(n)}, {tl(facts[n]['preads'])})" for n in NAV_IDENTITY_FUNCS) + "\n].")
    lines.append(f"Definition {pre}_VALUE_COMPARES : list (list Z * list (list Z)) := [\n" + ";\n".join(
        f"  ({q(n)}, {tl(facts[n]['kinds'])})" for n in names) + "\n].")
    lines.append(f"Definition {pre}_SUBSCRIPTS : list (list Z * list (list Z * Z)) := [\n" + ";\n".join(
        f"  ({q(n)}, [{'; '.join(f'({text(b)}, ({o})%Z)' for b, o in facts[n]['subs'])}])" for n in NAV_SUBSCRIPT_FUNCS) + "\n].")
    return lines


def _z(v):
    return f"({v})%Z"


@_nav_guarded
def sec_navt(m):
    tcls = class_def(m["typed"], "TypedNode")
    lines = _nav_tables("TypedNode", tcls, NAV_TYPED_FUNCS, "NAVT")
    z = _z

    # TypedNode.has_children: `return len(self.get_children(kind)) > 0`
    hc = func_def(tcls, "has_children")
    rets = [s for s in hc.body if isinstance(s, ast.Return)]
    if len(rets) != 1:
        raise Unsupported("TypedNode.has_children: expected one top-level return")
    op, left, right = _nav_cmp(rets[0].value)
    if not (isinstance(left, ast.Call) and isinstance(left.func, ast.Name) and left.func.id == "len" and len(left.args) == 1
            and isinstance(left.args[0], ast.Call) and isinstance(left.args[0].func, ast.Attribute)
            and left.args[0].func.attr == "get_children"):
        raise Unsupported("TypedNode.has_children: left operand is not len(self.get_children(kind))")
    b, k = _nav_int(right)
    if b != "":
        raise Unsupported("TypedNode.has_children: right operand is not a literal")
    lines.append(f"Definition NAV_T_HAS_CHILDREN_OP : list Z := {text(op)}.")
    lines.append(f"Definition NAV_T_HAS_CHILDREN_K : Z := {z(k)}.")

    def guard_of(fn, idx_name):
        ifs = [s for s in fn.body if isinstance(s, ast.If)]
        if len(ifs) != 1:
            raise Unsupported(f"TypedNode.{fn.name}: expected one top-level if")
        op, left, right = _nav_cmp(ifs[0].test)
        if not (isinstance(left, ast.Name) and left.id == idx_name):
            raise Unsupported(f"TypedNode.{fn.name}: guard is not on {idx_name}")
        return op, _nav_int(right)

    def assigned_from(fn, name, pred, what):
        for s in fn.body:
            if isinstance(s, ast.Assign) and len(s.targets) == 1 and isinstance(s.targets[0], ast.Name) and s.targets[0].id == name:
                if pred(s.value):
                    return
        raise Unsupported(f"TypedNode.{fn.name}: {name} is not {what}")

    def is_get_index(v):
        return (isinstance(v, ast.Call) and isinstance(v.func, ast.Attribute) and v.func.attr == "get_index"
                and isinstance(v.func.value, ast.Name) and v.func.value.id == "Node"
                and len(v.args) == 1 and isinstance(v.args[0], ast.Name) and v.args[0].id == "self" and not v.keywords)

    def is_parent_children(v):
        return (isinstance(v, ast.Attribute) and v.attr == "_children" and isinstance(v.value, ast.Attribute)
                and v.value.attr == "_parent" and isinstance(v.value.value, ast.Name) and v.value.value.id == "self")

    def is_len_pc(v):
        return (isinstance(v, ast.Call) and isinstance(v.func, ast.Name) and v.func.id == "len" and len(v.args) == 1
                and isinstance(v.args[0], ast.Name) and v.args[0].id == "pc")

    nx = func_def(tcls, "next_sibling")
    assigned_from(nx, "pc", is_parent_children, "self._parent._children")
    assigned_from(nx, "pc_len", is_len_pc, "len(pc)")
    assigned_from(nx, "own_idx", is_get_index, "Node.get_index(self)")
    op, (b, o) = guard_of(nx, "own_idx")
    if b != "pc_len":
        raise Unsupported("TypedNode.next_sibling: guard bound is not pc_len +/- literal")
    rng, stop = _nav_range(nx, {"own_idx"})
    if stop != "pc_len":
        raise Unsupported("TypedNode.next_sibling: range stop is not pc_len")
    lines.append(f"Definition NAV_T_NEXT_GUARD_OP : list Z := {text(op)}.")
    lines.append(f"Definition NAV_T_NEXT_GUARD_ADD : Z := {z(o)}.")
    lines.append(f"Definition NAV_T_NEXT_RANGE_START : Z := {z(rng[0])}.")

    pv = func_def(tcls, "prev_sibling")
    assigned_from(pv, "pc", is_parent_children, "self._parent._children")
    assigned_from(pv, "own_idx", is_get_index, "Node.get_index(self)")
    op, (b, o) = guard_of(pv, "own_idx")
    if b != "":
        raise Unsupported("TypedNode.prev_sibling: guard bound is not a literal")
    rng, _ = _nav_range(pv, {"own_idx"})
    lines.append(f"Definition NAV_T_PREV_GUARD_OP : list Z := {text(op)}.")
    lines.append(f"Definition NAV_T_PREV_GUARD_K : Z := {z(o)}.")
    lines.append("Definition NAV_T_PREV_RANGE : list Z := [" + "; ".join(z(v) for v in rng) + "].")
    rng, _ = _nav_range(func_def(tcls, "last_child"), {"len"})
    lines.append("Definition NAV_T_LAST_CHILD_RANGE : list Z := [" + "; ".join(z(v) for v in rng) + "].")

    return lines


@_nav_guarded
def sec_nav(m):
    ncls = class_def(m["node"], "Node")
    lines = _nav_tables("Node", ncls, NAV_NODE_FUNCS, "NAV")
    z = _z
    # Node.up: `if level < 1: raise`
    up = func_def(ncls, "up")
    ifs = [s for s in up.body if isinstance(s, ast.If)]
    if not ifs or not any(isinstance(t, ast.Raise) for t in ifs[0].body):
        raise Unsupported("Node.up: no leading guard")
    op, left, right = _nav_cmp(ifs[0].test)
    b, k = _nav_int(right)
    if not (isinstance(left, ast.Name) and left.id == "level" and b == ""):
        raise Unsupported("Node.up: guard shape")
    lines.append(f"Definition NAV_UP_GUARD_OP : list Z := {text(op)}.")
    lines.append(f"Definition NAV_UP_GUARD_K : Z := {z(k)}.")

    cd = func_def(ncls, "calc_depth")
    lines.append(f"Definition NAV_DEPTH_INIT : Z := {z(_nav_const_assign(cd, 'depth'))}.")
    lines.append(f"Definition NAV_DEPTH_STEP : Z := {z(_nav_aug(cd, 'depth'))}.")
    cn = func_def(ncls, "count_descendants")
    lines.append(f"Definition NAV_COUNT_INIT : Z := {z(_nav_const_assign(cn, 'i'))}.")
    lines.append(f"Definition NAV_COUNT_STEP : Z := {z(_nav_aug(cn, 'i'))}.")
    ch = func_def(ncls, "calc_height")
    inner = [s for s in ch.body if isinstance(s, ast.FunctionDef)]
    if len(inner) != 1:
        raise Unsupported("Node.calc_height: expected one inner function")
    init = _nav_const_assign(ast.Module(body=[s for s in ch.body if isinstance(s, ast.Assign)], type_ignores=[]), "height") \
        if any(isinstance(s, ast.Assign) for s in ch.body) else None
    if init is None:
        raise Unsupported("Node.calc_height: height not initialised")
    start = [s.value for s in ch.body if isinstance(s, ast.Expr) and isinstance(s.value, ast.Call)
             and isinstance(s.value.func, ast.Name) and s.value.func.id == inner[0].name]
    if len(start) != 1 or len(start[0].args) != 2:
        raise Unsupported("Node.calc_height: start call")
    b, st = _nav_int(start[0].args[1])
    rec = [x for x in ast.walk(inner[0]) if isinstance(x, ast.Call) and isinstance(x.func, ast.Name) and x.func.id == inner[0].name]
    if len(rec) != 1 or len(rec[0].args) != 2:
        raise Unsupported("Node.calc_height: recursive call")
    hb, hstep = _nav_int(rec[0].args[1])
    cmps = [x for x in ast.walk(inner[0]) if isinstance(x, ast.Compare)]
    if len(cmps) != 1 or b != "" or hb != "h":
        raise Unsupported("Node.calc_height: shape")
    op, left, right = _nav_cmp(cmps[0])
    if not (isinstance(left, ast.Name) and left.id == "h" and isinstance(right, ast.Name) and right.id == "height"):
        raise Unsupported("Node.calc_height: comparison")
    lines.append(f"Definition NAV_HEIGHT_INIT : Z := {z(init)}.")
    lines.append(f"Definition NAV_HEIGHT_START : Z := {z(st)}.")
    lines.append(f"Definition NAV_HEIGHT_STEP : Z := {z(hstep)}.")
    lines.append(f"Definition NAV_HEIGHT_CMP : list Z := {text(op)}.")
    return lines


def sec_misc(m):
    """Facts for the parts of harness/parts_misc.py: the deleted tag and the attribute assignments of Tree._unregister
    (REMOVED, host C01); the keyword pass-through of Tree.print (PRINT, host C16); mermaid.DEFAULT_DIRECTION and the
    defaults of the four flowchart signatures (host C17)."""
    lines = []
    tree, node, typed = m["tree"], m["node"], m["typed"]
    lines.append(f"Definition DELETED_TAG : list Z := {text(const_str(module_assign(tree, '_DELETED_TAG')))}.")
    tcls = class_def(tree, "Tree")
    unreg = func_def(tcls, "_unregister")
    kwd = {a.arg: d for a, d in zip(unreg.args.kwonlyargs, unreg.args.kw_defaults)}
    if set(kwd) != {"clear"} or not (isinstance(kwd["clear"], ast.Constant) and isinstance(kwd["clear"].value, bool)):
        raise Unsupported("Tree._unregister: expected exactly the keyword-only parameter clear=<bool>")
    lines.append(f"Definition UNREGISTER_CLEAR_DEFAULT : bool := {'true' if kwd['clear'].value else 'false'}.")

    def slot_assigns(stmts):
        out = []
        for st in stmts:
            if isinstance(st, ast.Assign) and len(st.targets) == 1 and isinstance(st.targets[0], ast.Attribute) \
                    and isinstance(st.targets[0].value, ast.Name) and st.targets[0].value.id == "node":
                v = st.value
                if isinstance(v, ast.Constant) and v.value is None:
                    out.append((st.targets[0].attr, "None"))
                elif isinstance(v, ast.Name) and v.id == "_DELETED_TAG":
                    out.append((st.targets[0].attr, "TAG"))
                else:
                    raise Unsupported(f"Tree._unregister: unexpected value assigned to node.{st.targets[0].attr}")
        return out

    always = slot_assigns(unreg.body)
    ifs = [st for st in unreg.body if isinstance(st, ast.If) and isinstance(st.test, ast.Name) and st.test.id == "clear"]
    if len(ifs) != 1 or ifs[0].orelse:
        raise Unsupported("Tree._unregister: expected exactly one `if clear:` without else")
    cond = slot_assigns(ifs[0].body)

    def pairs(ps):
        return "[" + "; ".join(f"({text(a)}, {text(b)})" for a, b in ps) + "]"

    lines.append(f"Definition UNREGISTER_ALWAYS : list (list Z * list Z) := {pairs(always)}.")
    lines.append(f"Definition UNREGISTER_IF_CLEAR : list (list Z * list Z) := {pairs(cond)}.")
    # every call of _unregister in the package: how many, and how many pass clear=
    calls = with_clear = 0
    for mod in (tree, node, typed):
        for n in ast.walk(mod):
            if isinstance(n, ast.Call):
                f = n.func
                nm = f.attr if isinstance(f, ast.Attribute) else f.id if isinstance(f, ast.Name) else None
                if nm == "_unregister":
                    calls += 1
                    if any(k.arg == "clear" or k.arg is None for k in n.keywords) or len(n.args) > 1:
                        with_clear += 1
    lines.append(f"Definition UNREGISTER_CALLS : Z := {calls}%Z.")
    lines.append(f"Definition UNREGISTER_CALLS_PASSING_CLEAR : Z := {with_clear}%Z.")

    # the names the normal attribute lookup finds on a Node / TypedNode (part FORWARD: these are never forwarded to the data object)
    def class_names(cls):
        out = []
        for st in cls.body:
            if isinstance(st, (ast.FunctionDef, ast.AsyncFunctionDef)):
                out.append(st.name)
            elif isinstance(st, ast.Assign):
                for tg in st.targets:
                    if isinstance(tg, ast.Name):
                        if tg.id == "__slots__":
                            if not (isinstance(st.value, ast.Tuple) and all(isinstance(e, ast.Constant) and isinstance(e.value, str) for e in st.value.elts)):
                                raise Unsupported(f"{cls.name}.__slots__ is not a tuple of str literals")
                            out.extend(e.value for e in st.value.elts)
                        else:
                            out.append(tg.id)
        seen = []
        for n in out:
            if n not in seen:
                seen.append(n)
        return seen

    ncls = class_def(node, "Node")
    tncls = class_def(typed, "TypedNode")
    if [b.id for b in tncls.bases if isinstance(b, ast.Name)] != ["Node"]:
        raise Unsupported("TypedNode: expected the single base class Node")
    nn = class_names(ncls)
    lines.append("Definition NODE_ATTR_NAMES : list (list Z) := [" + "; ".join(text(n) for n in nn) + "].")
    lines.append("Definition TYPED_NODE_EXTRA_ATTR_NAMES : list (list Z) := [" + "; ".join(text(n) for n in class_names(tncls) if n not in nn) + "].")
    return lines


def kwdefaults(fn):
    out = []
    for a, d in zip(fn.args.kwonlyargs, fn.args.kw_defaults):
        if d is None:
            continue        # a required keyword-only parameter
        if isinstance(d, ast.Constant) and d.value is None:
            out.append((a.arg, "None"))
        elif isinstance(d, ast.Constant) and isinstance(d.value, bool):
            out.append((a.arg, "True" if d.value else "False"))
        elif isinstance(d, ast.Constant) and isinstance(d.value, str):
            out.append((a.arg, repr(d.value)))
        elif isinstance(d, ast.Name):
            out.append((a.arg, d.id))
        else:
            raise Unsupported(f"{fn.name}: unsupported default of {a.arg}")
    return out



def sec_misc_print(m):
    """Tree.print (part PRINT, host C16): the keyword pass-through to format() and the defaults; the two default
    rendering templates"""
    lines = []
    tcls = class_def(m["tree"], "Tree")
    lines.append(f"Definition NODE_DEFAULT_RENDER_REPR : list Z := {text(const_str(class_assign(class_def(m['node'], 'Node'), 'DEFAULT_RENDER_REPR')))}.")
    lines.append(f"Definition TYPED_DEFAULT_RENDER_REPR : list Z := {text(const_str(class_assign(class_def(m['typed'], 'TypedNode'), 'DEFAULT_RENDER_REPR')))}.")

    def pairs(ps):
        return "[" + "; ".join(f"({text(a)}, {text(b)})" for a, b in ps) + "]"

    # Tree.print: exactly `print(self.format(k=k ...), file=file)`; the keyword-only parameters and their defaults
    pr = func_def(tcls, "print")
    fm = func_def(tcls, "format")

    body = [st for st in pr.body if not (isinstance(st, ast.Expr) and isinstance(st.value, ast.Constant))]
    ok = (len(body) == 1 and isinstance(body[0], ast.Expr) and isinstance(body[0].value, ast.Call)
          and isinstance(body[0].value.func, ast.Name) and body[0].value.func.id == "print")
    if not ok:
        raise Unsupported("Tree.print: expected a single print(...) call")
    call = body[0].value
    if len(call.args) != 1 or not (isinstance(call.args[0], ast.Call) and isinstance(call.args[0].func, ast.Attribute)
                                   and call.args[0].func.attr == "format" and isinstance(call.args[0].func.value, ast.Name)
                                   and call.args[0].func.value.id == "self" and not call.args[0].args):
        raise Unsupported("Tree.print: expected print(self.format(...), ...)")

    def passed(c):
        out = []
        for k in c.keywords:
            if k.arg is None or not isinstance(k.value, ast.Name):
                raise Unsupported("Tree.print: expected keyword=name arguments")
            out.append((k.arg, k.value.id))
        return out

    lines.append(f"Definition PRINT_KWONLY : list (list Z * list Z) := {pairs(kwdefaults(pr))}.")
    lines.append(f"Definition FORMAT_KWONLY : list (list Z * list Z) := {pairs(kwdefaults(fm))}.")
    lines.append(f"Definition PRINT_TO_FORMAT : list (list Z * list Z) := {pairs(passed(call.args[0]))}.")
    lines.append(f"Definition PRINT_TO_PRINT : list (list Z * list Z) := {pairs(passed(call))}.")

    return lines


def sec_misc_mermaid(m):
    """mermaid.DEFAULT_DIRECTION and the defaults of the four flowchart signatures (host C17)"""
    lines = []
    tree, node, mermaid = m["tree"], m["node"], m["mermaid"]
    tcls = class_def(tree, "Tree")

    def pairs(ps):
        return "[" + "; ".join(f"({text(a)}, {text(b)})" for a, b in ps) + "]"

    # mermaid
    lines.append(f"Definition MERMAID_DEFAULT_DIRECTION : list Z := {text(const_str(module_assign(mermaid, 'DEFAULT_DIRECTION')))}.")
    sigs = [func_def(mermaid, "_node_to_mermaid_flowchart_iter"), func_def(mermaid, "node_to_mermaid_flowchart"),
            func_def(class_def(node, "Node"), "to_mermaid_flowchart"), func_def(tcls, "to_mermaid_flowchart")]
    ds = []
    for fn in sigs:
        d = dict(kwdefaults(fn))
        if "direction" not in d:
            raise Unsupported(f"{fn.name}: no keyword-only parameter `direction`")
        ds.append(d)
    lines.append("Definition MERMAID_DIRECTION_DEFAULTS : list (list Z) := [" + "; ".join(text(ast.literal_eval(d["direction"]) if d["direction"][:1] in "'\"" else d["direction"]) for d in ds) + "].")
    for nm, d in (("MERMAID_NODE_DEFAULTS", ds[2]), ("MERMAID_TREE_DEFAULTS", ds[3])):
        lines.append(f"Definition {nm} : list (list Z * list Z) := {pairs(sorted(d.items()))}.")
    return lines


def sec_misc_common(m):
    """common.py / tree.py odds and ends (part COMMONMISC, host C14): the exception hierarchy, MIN_PYTHON_VERSION_INFO,
    the comparison and the slice of check_python_version"""
    lines = []
    common, tree = m["common"], m["tree"]
    bases = []
    for node in common.body:
        if isinstance(node, ast.ClassDef) and node.name.endswith("Error"):
            if len(node.bases) != 1 or not isinstance(node.bases[0], ast.Name):
                raise Unsupported(f"class {node.name}: expected exactly one named base class")
            bases.append((node.name, node.bases[0].id))
    lines.append("Definition ERROR_BASES : list (list Z * list Z) := [" + "; ".join(f"({text(a)}, {text(b)})" for a, b in bases) + "].")
    mv = module_assign(tree, "MIN_PYTHON_VERSION_INFO")
    if not (isinstance(mv, ast.Tuple) and all(isinstance(e, ast.Constant) and isinstance(e.value, int) for e in mv.elts)):
        raise Unsupported("MIN_PYTHON_VERSION_INFO is not a tuple of int literals")
    lines.append("Definition MIN_PYTHON_VERSION_INFO : list Z := [" + "; ".join(f"{e.value}%Z" for e in mv.elts) + "].")
    # check_python_version: `if sys.version_info < min_version:` ... `min_version[:3]` ... return False / return True
    fn = func_def(common, "check_python_version")
    ifs = [st for st in fn.body if isinstance(st, ast.If)]
    if len(ifs) != 1 or ifs[0].orelse:
        raise Unsupported("check_python_version: expected one `if` without else")
    t = ifs[0].test
    ok = (isinstance(t, ast.Compare) and len(t.ops) == 1 and isinstance(t.left, ast.Attribute) and t.left.attr == "version_info"
          and isinstance(t.comparators[0], ast.Name) and t.comparators[0].id == fn.args.args[0].arg)
    if not ok:
        raise Unsupported("check_python_version: expected `sys.version_info <op> min_version`")
    op = {ast.Lt: "<", ast.LtE: "<=", ast.Gt: ">", ast.GtE: ">="}.get(type(t.ops[0]))
    if op is None:
        raise Unsupported("check_python_version: unsupported comparison")
    lines.append(f"Definition VERSION_CHECK_OP : list Z := {text(op)}.")

    def ret_const(stmts):
        r = [st for st in stmts if isinstance(st, ast.Return)]
        if len(r) != 1 or not (isinstance(r[0].value, ast.Constant) and isinstance(r[0].value.value, bool)):
            raise Unsupported("check_python_version: expected `return <bool literal>`")
        return r[0].value.value
    lines.append(f"Definition VERSION_CHECK_RETURNS : list bool := [{'true' if ret_const(ifs[0].body) else 'false'}; {'true' if ret_const(fn.body) else 'false'}].")
    sl = [n for n in ast.walk(ifs[0]) if isinstance(n, ast.Subscript) and isinstance(n.slice, ast.Slice)]
    if len(sl) != 1 or sl[0].slice.lower is not None or not (isinstance(sl[0].slice.upper, ast.Constant) and isinstance(sl[0].slice.upper.value, int)):
        raise Unsupported("check_python_version: expected one slice [:k]")
    lines.append(f"Definition VERSION_CHECK_SLICE : Z := {sl[0].slice.upper.value}%Z.")
    # check_python_version(MIN_PYTHON_VERSION_INFO) is called at import of tree.py
    calls = [n for n in tree.body if isinstance(n, ast.Expr) and isinstance(n.value, ast.Call) and isinstance(n.value.func, ast.Name)
             and n.value.func.id == "check_python_version"]
    arg_ok = len(calls) == 1 and len(calls[0].value.args) == 1 and isinstance(calls[0].value.args[0], ast.Name) \
        and calls[0].value.args[0].id == "MIN_PYTHON_VERSION_INFO"
    lines.append(f"Definition VERSION_CHECKED_AT_IMPORT : bool := {'true' if arg_ok else 'false'}.")
    return lines


# section name -> (function, source files it reads, properties whose obligations use it)
SECTIONS = [
    ("CONNECTORS", sec_connectors, ["common", "tree"]),
    ("CONST", sec_const, ["common", "tree", "typed", "fs", "init"]),
    ("FS", sec_fs, ["fs"]),
    ("ENUMS", sec_enums, ["common", "diff"]),
    ("MERMAID", sec_mermaid, ["mermaid"]),
    ("EXPORT", sec_export, ["mermaid", "dot"]),
    ("TRAVERSE", sec_traverse, ["node"]),
    ("TREEGEN", sec_treegen, []),
    ("FILTER", sec_filter, []),
    ("DICTLIST", sec_dictlist, []),
    ("DOCS", sec_docs, []),
    ("LOCK", sec_lock, ["tree", "typed", "fs", "dot", "node"]),
    ("NAV", sec_nav, ["node"]),
    ("NAVT", sec_navt, ["typed"]),
    ("MISC", sec_misc, ["tree", "node", "typed"]),
    ("MISCPRINT", sec_misc_print, ["tree", "node", "typed"]),
    ("MISCMERMAID", sec_misc_mermaid, ["tree", "node", "mermaid"]),
    ("MISCCOMMON", sec_misc_common, ["common", "tree"]),
]
FILES = dict(common="common.py", tree="tree.py", typed="typed_tree.py", fs="fs.py", diff="diff.py", mermaid="mermaid.py",
             dot="dot.py", init="__init__.py", node="node.py")

_DEF_RE = __import__("re").compile(r"^Definition (\w+) : (.*?) :=", __import__("re").M | __import__("re").S)


def dummy(ty: str) -> str:
    ty = ty.strip()
    if ty.startswith("list"):
        return "[]"
    if ty == "Z":
        return "0%Z"
    if ty == "nat":
        return "0"
    if ty == "bool":
        return "false"
    if ty.startswith("option"):
        return "None"
    if ty == "gjson":
        return "GNull"
    raise Unsupported(f"no dummy value for type {ty}")


def main():
    """Every section is lifted on its own: a section whose source no longer has the shape the walk understands is
    emitted with dummy values of the last known good types and `GEN_<SECTION>_OK := false`, so that exactly the
    proof obligations that depend on it break (every Properties/Cxx.v that uses a section states `GEN_<SECTION>_OK = true`)."""
    mods, errs = {}, {}
    for k, fn in FILES.items():
        try:
            mods[k] = parse(fn)
        except (SyntaxError, OSError) as e:
            errs[k] = f"{fn}: {e}"
    decls = json.loads(DECLS.read_text()) if DECLS.exists() else {}
    lines = ["(* GENERATED by harness/gen_facts.py from /repo -- do not edit *)",
             "From Coq Require Import List ZArith String.", "Import ListNotations.", "",
             "(* lock skeletons: every control-flow path of every snapshot operation; [Call m] re-enters",
             "   a snapshot operation whose method id is m = index in SNAPSHOT_METHOD_NAMES *)",
             "Inductive lev := Acq | Rel | Read | Call (m : nat).", "",
             "(* JSON values of the user guide's literal example documents *)",
             "Inductive gjson := GNull | GBool (b : bool) | GInt (z : Z) | GStr (s : list Z)",
             "  | GList (l : list gjson) | GDict (d : list (list Z * gjson)).", ""]
    failed = []
    new_decls = dict(decls)
    for name, fn, needs in SECTIONS:
        lines.append(f"(* ---- section {name} ---- *)")
        try:
            missing = [errs[k] for k in needs if k in errs]
            if missing:
                raise Unsupported("; ".join(missing))
            sec = fn(mods)
            lines.extend(sec)
            lines.append(f"Definition GEN_{name}_OK : bool := true.")
            new_decls[name] = [[a, " ".join(b.split())] for a, b in _DEF_RE.findall("\n".join(sec))]
        except Unsupported as e:
            failed.append(f"{name}: {e}")
            lines.append("(* NOT LIFTED: " + str(e).replace("*)", "* )") + " *)")
            for a, b in decls.get(name, []):
                if a.startswith("prog_"):
                    continue    # named programs are not invented: obligations naming them stop compiling
                lines.append(f"Definition {a} : {b} := {dummy(b)}.")
            lines.append(f"Definition GEN_{name}_OK : bool := false.")
        lines.append("")
    new = "\n".join(lines) + "\n"
    OUT.parent.mkdir(parents=True, exist_ok=True)
    if not OUT.exists() or OUT.read_text() != new:
        OUT.write_text(new)
    if not failed and new_decls != decls and os.environ.get("GEN_FACTS_UPDATE_DECLS"):
        DECLS.write_text(json.dumps(new_decls, indent=1) + "\n")
    for f in failed:
        print(f"gen_facts: section not lifted: {f}", file=sys.stderr)
    return 3 if failed else 0


if __name__ == "__main__":
    try:
        sys.exit(main())
    except Exception as e:   # noqa: BLE001  (fail closed: leave a Generated.v that cannot satisfy any obligation)
        print(f"gen_facts: {e}", file=sys.stderr)
        OUT.parent.mkdir(parents=True, exist_ok=True)
        OUT.write_text("(* gen_facts failed: " + str(e).replace("*)", "* )") + " *)\nDefinition GEN_FACTS_FAILED : True := I.\n")
        sys.exit(2)
