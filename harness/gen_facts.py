"""Regenerate coq/gen/Generated.v from the *source text* of /repo (ast only, no import).

Fail-closed: any shape this walk does not understand is an error (exit 2) and
the proof obligations depending on Generated.v count as not discharged.

Lifted verbatim: tables and lexical structure that *are* data –
  CONNECTORS / DEFAULT_CONNECTOR_STYLE            (C16)
  FILE_FORMAT_VERSION, ROOT ids, DEFAULT_KEY_MAPs (C05, C12, C19)
  IterMethod members, DiffClassification members  (C06, C11)
  Mermaid edge/node templates                     (C17)
  lock skeletons of the snapshot operations       (C18)
"""
from __future__ import annotations

import ast
import os
import sys
from pathlib import Path

REPO = Path(os.environ.get("NUTREE_REPO", "/repo"))
OUT = Path(__file__).resolve().parent.parent / "coq" / "gen" / "Generated.v"


class Unsupported(Exception):
    pass


def parse(name):
    return ast.parse((REPO / "nutree" / name).read_text(), filename=name)


def text(s: str) -> str:
    return "[" + "; ".join(str(ord(c)) for c in s) + "]%Z"


def module_assign(mod, name):
    for node in mod.body:
        if isinstance(node, ast.Assign) and len(node.targets) == 1 and isinstance(node.targets[0], ast.Name) and node.targets[0].id == name:
            return node.value
        if isinstance(node, ast.AnnAssign) and isinstance(node.target, ast.Name) and node.target.id == name and node.value is not None:
            return node.value
    raise Unsupported(f"module-level assignment {name} not found")


def class_def(mod, name):
    for node in mod.body:
        if isinstance(node, ast.ClassDef) and node.name == name:
            return node
    raise Unsupported(f"class {name} not found")


def class_assign(cls, name):
    for node in cls.body:
        if isinstance(node, ast.Assign) and len(node.targets) == 1 and isinstance(node.targets[0], ast.Name) and node.targets[0].id == name:
            return node.value
    raise Unsupported(f"{cls.name}.{name} not found")


def func_def(scope, name):
    for node in scope.body:
        if isinstance(node, (ast.FunctionDef,)) and node.name == name:
            return node
    raise Unsupported(f"function {name} not found")


def const_str(node):
    if isinstance(node, ast.Constant) and isinstance(node.value, str):
        return node.value
    raise Unsupported(f"expected a string literal at line {getattr(node, 'lineno', '?')}")


def str_dict(node):
    if not isinstance(node, ast.Dict):
        raise Unsupported("expected a dict literal")
    return [(const_str(k), const_str(v)) for k, v in zip(node.keys, node.values)]


# ---------------------------------------------------------------------------
# lock skeletons (C18)
# ---------------------------------------------------------------------------
NON_STRUCTURAL = {"name", "DEFAULT_KEY_MAP", "DEFAULT_VALUE_MAP", "DEFAULT_CONNECTOR_STYLE", "__class__",
                  "serialize_mapper", "deserialize_mapper", "calc_data_id", "_lock"}
#: methods of the tree object that read the node structure (directly or below)
STRUCT_CALLS = {"to_list_iter", "to_dot", "iterator", "__iter__", "_root", "system_root", "children",
                "to_dict_list", "format", "format_iter", "_node_by_id", "_nodes_by_data_id", "find_all",
                "find_first", "count", "first_child", "last_child", "visit", "to_rdf_graph", "copy_to"}
#: calls that re-enter another snapshot operation on the same tree (the callee brackets itself)
DELEGATES = {"save", "copy", "tree_to_dotfile"}


def lock_skeleton(fn: ast.FunctionDef, subject: str):
    """Event list of a snapshot operation: A(cquire) R(ead) L(release) C(all op).

    An event R is emitted for every read of the subject's structure
    (`subject._root`, iteration over `subject`, structural method calls),
    A/L for `with subject:` brackets, C for delegation to another snapshot
    operation of the same tree.  Nested function definitions are rejected."""
    events: list[str] = []

    def is_subject(n):
        return isinstance(n, ast.Name) and n.id == subject

    def is_super_call(n):
        return isinstance(n, ast.Call) and isinstance(n.func, ast.Name) and n.func.id == "super"

    def visit_expr(n):
        if n is None:
            return
        if isinstance(n, ast.Call):
            f = n.func
            # evaluate arguments first (Python order: func, then args)
            if isinstance(f, ast.Attribute) and (is_subject(f.value) or is_super_call(f.value)):
                for a in n.args:
                    visit_expr(a)
                for k in n.keywords:
                    visit_expr(k.value)
                if f.attr in DELEGATES:
                    events.append("C")
                elif f.attr in STRUCT_CALLS:
                    events.append("R")
                elif f.attr in NON_STRUCTURAL or f.attr.startswith("DEFAULT_"):
                    pass
                else:
                    raise Unsupported(f"{fn.name}: call of unknown method {f.attr} on {subject} (line {n.lineno})")
                return
            if isinstance(f, ast.Name) and f.id in DELEGATES and any(
                    (isinstance(k.value, ast.Name) and k.value.id == subject) for k in n.keywords):
                for a in n.args:
                    visit_expr(a)
                for k in n.keywords:
                    visit_expr(k.value)
                events.append("C")
                return
            for c in ast.iter_child_nodes(n):
                visit_expr(c)
            return
        if isinstance(n, ast.Attribute) and is_subject(n.value):
            if n.attr in STRUCT_CALLS:
                events.append("R")
            elif n.attr in NON_STRUCTURAL or n.attr.startswith("DEFAULT_"):
                pass
            else:
                raise Unsupported(f"{fn.name}: unknown attribute {n.attr} of {subject} (line {n.lineno})")
            # a chain like self._root._add_from(...) reads below
            return
        if isinstance(n, (ast.Lambda, ast.FunctionDef)):
            raise Unsupported(f"{fn.name}: nested function")
        for c in ast.iter_child_nodes(n):
            visit_expr(c)

    def visit_stmts(stmts):
        for s in stmts:
            if isinstance(s, ast.With):
                items = s.items
                if len(items) == 1 and is_subject(items[0].context_expr):
                    events.append("A")
                    visit_stmts(s.body)
                    events.append("L")
                    continue
                for it in items:
                    visit_expr(it.context_expr)
                visit_stmts(s.body)
            elif isinstance(s, ast.For):
                if is_subject(s.iter):
                    events.append("R")
                else:
                    visit_expr(s.iter)
                visit_stmts(s.body)
                visit_stmts(s.orelse)
            elif isinstance(s, (ast.If, ast.While)):
                visit_expr(s.test)
                visit_stmts(s.body)
                visit_stmts(s.orelse)
            elif isinstance(s, ast.Try):
                visit_stmts(s.body)
                for h in s.handlers:
                    visit_stmts(h.body)
                visit_stmts(s.orelse)
                visit_stmts(s.finalbody)
            elif isinstance(s, (ast.FunctionDef, ast.ClassDef)):
                raise Unsupported(f"{fn.name}: nested definition {s.name}")
            elif isinstance(s, ast.Expr) and isinstance(s.value, ast.Constant):
                continue  # docstring
            else:
                for c in ast.iter_child_nodes(s):
                    visit_expr(c)

    visit_stmts(fn.body)
    # collapse runs of reads: the bracket discipline does not depend on how many
    out = []
    for e in events:
        if e == "R" and out and out[-1] == "R":
            continue
        out.append(e)
    return out


def doc_examples():
    """The literal native-format documents of docs/sphinx/ug_serialize.rst: every
    indented literal block that is a JSON object with a "meta" and a "nodes"
    member.  The guide writes one of them with a trailing comma inside an
    object; `,` directly before a closing brace/bracket is dropped, nothing
    else is touched.  Fail closed if fewer than 4 are found."""
    import json
    import re

    rst = (REPO / "docs" / "sphinx" / "ug_serialize.rst").read_text(encoding="utf8").splitlines()
    blocks = []
    i = 0
    while i < len(rst):
        if rst[i].rstrip() == "    {":
            j = i
            while j < len(rst) and rst[j].rstrip() != "    }":
                if rst[j].strip() and not rst[j].startswith("    "):
                    break
                j += 1
            if j < len(rst) and rst[j].rstrip() == "    }":
                blocks.append("\n".join(rst[i:j + 1]))
                i = j
        i += 1
    docs = []
    for b in blocks:
        if '"meta"' not in b or '"nodes"' not in b:
            continue
        norm = re.sub(r",(\s*[}\]])", r"\1", b)
        try:
            docs.append(json.loads(norm, object_pairs_hook=lambda kv: ("dict", kv)))
        except ValueError as e:
            raise Unsupported(f"ug_serialize.rst: example document is not JSON: {e}")
    if len(docs) < 4:
        raise Unsupported(f"ug_serialize.rst: expected 4 native-format example documents, found {len(docs)}")
    return docs


def gjson(v) -> str:
    if v is None:
        return "GNull"
    if isinstance(v, bool):
        return f"(GBool {'true' if v else 'false'})"
    if isinstance(v, int):
        return f"(GInt ({v})%Z)"
    if isinstance(v, str):
        return f"(GStr {text(v)})"
    if isinstance(v, list):
        return "(GList [" + "; ".join(gjson(x) for x in v) + "])"
    if isinstance(v, tuple) and v[0] == "dict":
        return "(GDict [" + "; ".join(f"({text(k)}, {gjson(x)})" for k, x in v[1]) + "])"
    raise Unsupported(f"example document: unsupported JSON value {v!r}")


def ev_list(evs):
    m = {"A": "Acq", "L": "Rel", "R": "Read", "C": "Call"}
    return "[" + "; ".join(m[e] for e in evs) + "]"


# ---------------------------------------------------------------------------
def main():
    common = parse("common.py")
    tree = parse("tree.py")
    typed = parse("typed_tree.py")
    fs = parse("fs.py")
    diff = parse("diff.py")
    mermaid = parse("mermaid.py")
    dot = parse("dot.py")
    init = parse("__init__.py")

    lines = ["(* GENERATED by harness/gen_facts.py from /repo -- do not edit *)",
             "From Coq Require Import List ZArith String.", "Import ListNotations.", ""]

    # --- CONNECTORS
    conn = module_assign(common, "CONNECTORS")
    if not isinstance(conn, ast.Dict):
        raise Unsupported("CONNECTORS is not a dict literal")
    rows = []
    for k, v in zip(conn.keys, conn.values):
        name = const_str(k)
        if not isinstance(v, ast.Tuple):
            raise Unsupported(f"CONNECTORS[{name}] is not a tuple literal")
        segs = [const_str(e) for e in v.elts]
        rows.append((name, segs))
    lines.append("Definition CONNECTORS : list (list Z * list (list Z)) := [")
    lines.append(";\n".join(f"  ({text(n)}, [{'; '.join(text(s) for s in segs)}])" for n, segs in rows))
    lines.append("].")
    tcls = class_def(tree, "Tree")
    lines.append(f"Definition DEFAULT_CONNECTOR_STYLE : list Z := {text(const_str(class_assign(tcls, 'DEFAULT_CONNECTOR_STYLE')))}.")

    # --- format constants
    lines.append(f"Definition FILE_FORMAT_VERSION : list Z := {text(const_str(module_assign(common, 'FILE_FORMAT_VERSION')))}.")
    lines.append(f"Definition NUTREE_VERSION : list Z := {text(const_str(module_assign(init, '__version__')))}.")
    lines.append(f"Definition ROOT_DATA_ID : list Z := {text(const_str(module_assign(common, 'ROOT_DATA_ID')))}.")
    rn = module_assign(common, "ROOT_NODE_ID")
    if not (isinstance(rn, ast.Constant) and isinstance(rn.value, int)):
        raise Unsupported("ROOT_NODE_ID")
    lines.append(f"Definition ROOT_NODE_ID : Z := {rn.value}%Z.")

    def kmap(cls, nm):
        return "[" + "; ".join(f"({text(a)}, {text(b)})" for a, b in str_dict(class_assign(cls, nm))) + "]"

    lines.append(f"Definition TREE_KEY_MAP : list (list Z * list Z) := {kmap(tcls, 'DEFAULT_KEY_MAP')}.")
    ttcls = class_def(typed, "TypedTree")
    lines.append(f"Definition TYPED_KEY_MAP : list (list Z * list Z) := {kmap(ttcls, 'DEFAULT_KEY_MAP')}.")
    lines.append(f"Definition FS_KEY_MAP : list (list Z * list Z) := {kmap(class_def(fs, 'FileSystemTree'), 'DEFAULT_KEY_MAP')}.")
    lines.append(f"Definition DEFAULT_CHILD_TYPE : list Z := {text(const_str(class_assign(ttcls, 'DEFAULT_CHILD_TYPE')))}.")
    for nm, cls in (("TREE", tcls), ("TYPED", ttcls)):
        v = class_assign(cls, "DEFAULT_VALUE_MAP")
        if not (isinstance(v, ast.Dict) and not v.keys):
            raise Unsupported(f"{nm} DEFAULT_VALUE_MAP is not an empty dict literal")
        lines.append(f"Definition {nm}_VALUE_MAP : list (list Z * list (list Z)) := [].")
    # FileSystemTree must not override DEFAULT_VALUE_MAP (it inherits Tree's)
    if any(isinstance(n, ast.Assign) and isinstance(n.targets[0], ast.Name) and n.targets[0].id == "DEFAULT_VALUE_MAP"
           for n in class_def(fs, "FileSystemTree").body):
        raise Unsupported("FileSystemTree overrides DEFAULT_VALUE_MAP")

    # --- literal example documents of the user guide (C12)
    lines.append("")
    lines.append("Inductive gjson := GNull | GBool (b : bool) | GInt (z : Z) | GStr (s : list Z)")
    lines.append("  | GList (l : list gjson) | GDict (d : list (list Z * gjson)).")
    docs = doc_examples()
    for i, d in enumerate(docs):
        lines.append(f"Definition DOC_EXAMPLE_{i} : gjson := {gjson(d)}.")
    lines.append("Definition DOC_EXAMPLES : list gjson := [" + "; ".join(f"DOC_EXAMPLE_{i}" for i in range(len(docs))) + "].")

    # --- enums
    def enum_members(mod, name):
        cls = class_def(mod, name)
        res = []
        for n in cls.body:
            if isinstance(n, ast.Assign) and isinstance(n.targets[0], ast.Name) and isinstance(n.value, ast.Constant):
                res.append((n.targets[0].id, n.value.value))
        return res

    im = enum_members(common, "IterMethod")
    lines.append("Definition ITER_METHODS : list (list Z * list Z) := [" + "; ".join(f"({text(a)}, {text(b)})" for a, b in im) + "].")
    dc = enum_members(diff, "DiffClassification")
    lines.append("Definition DIFF_CLASSES : list (list Z * Z) := [" + "; ".join(f"({text(a)}, {b}%Z)" for a, b in dc) + "].")

    # --- mermaid templates
    for nm in ("DEFAULT_NODE_TEMPLATE", "DEFAULT_EDGE_TEMPLATE", "DEFAULT_EDGE_TEMPLATE_TYPED"):
        lines.append(f"Definition MERMAID_{nm} : list Z := {text(const_str(module_assign(mermaid, nm)))}.")

    # --- lock skeletons
    lines.append("")
    lines.append("Inductive lev := Acq | Rel | Read | Call.")
    progs = [
        ("tree_copy", lock_skeleton(func_def(tcls, "copy"), "self")),
        ("tree_copy_to", lock_skeleton(func_def(tcls, "copy_to"), "self")),
        ("tree_filtered", lock_skeleton(func_def(tcls, "filtered"), "self")),
        ("tree_to_dict_list", lock_skeleton(func_def(tcls, "to_dict_list"), "self")),
        ("tree_save", lock_skeleton(func_def(tcls, "save"), "self")),
        ("typed_save", lock_skeleton(func_def(ttcls, "save"), "self")),
        ("tree_to_dotfile", lock_skeleton(func_def(tcls, "to_dotfile"), "self")),
        ("dot_tree_to_dotfile", lock_skeleton(func_def(dot, "tree_to_dotfile"), "tree")),
    ]
    for nm, evs in progs:
        lines.append(f"Definition prog_{nm} : list lev := {ev_list(evs)}.")
    lines.append("Definition SNAPSHOT_PROGS : list (list Z * list lev) := [" +
                 "; ".join(f"({text(nm)}, prog_{nm})" for nm, _ in progs) + "].")
    # __enter__/__exit__ must be exactly acquire / release of self._lock
    for meth, call in (("__enter__", "acquire"), ("__exit__", "release")):
        fn = func_def(tcls, meth)
        calls = [n for n in ast.walk(fn) if isinstance(n, ast.Call) and isinstance(n.func, ast.Attribute)]
        ok = (len(calls) == 1 and calls[0].func.attr == call and isinstance(calls[0].func.value, ast.Attribute)
              and calls[0].func.value.attr == "_lock")
        lines.append(f"Definition LOCK_{call.upper()}_OK : bool := {'true' if ok else 'false'}.")
    # the lock is a re-entrant lock
    init_fn = func_def(tcls, "__init__")
    rl = [n for n in ast.walk(init_fn) if isinstance(n, ast.Assign) and isinstance(n.targets[0], ast.Attribute)
          and n.targets[0].attr == "_lock"]
    is_rlock = (len(rl) == 1 and isinstance(rl[0].value, ast.Call) and isinstance(rl[0].value.func, ast.Attribute)
                and rl[0].value.func.attr == "RLock")
    lines.append(f"Definition LOCK_IS_RLOCK : bool := {'true' if is_rlock else 'false'}.")

    new = "\n".join(lines) + "\n"
    OUT.parent.mkdir(parents=True, exist_ok=True)
    if not OUT.exists() or OUT.read_text() != new:
        OUT.write_text(new)
    return 0


if __name__ == "__main__":
    try:
        sys.exit(main())
    except (Unsupported, SyntaxError, OSError) as e:
        # fail closed: leave a Generated.v that cannot satisfy any obligation
        print(f"gen_facts: {e}", file=sys.stderr)
        OUT.parent.mkdir(parents=True, exist_ok=True)
        OUT.write_text("(* gen_facts failed: " + str(e).replace("*)", "* )") + " *)\nDefinition GEN_FACTS_FAILED : True := I.\n")
        sys.exit(2)
