"""Regenerate coq/gen/Generated.v from the *source text* of /repo (ast only, no import).

Fail-closed: any shape this walk does not understand is an error (exit 2) and
the proof obligations depending on Generated.v count as not discharged.

Lifted verbatim: tables and lexical structure that *are* data –
  CONNECTORS / DEFAULT_CONNECTOR_STYLE            (C16)
  FILE_FORMAT_VERSION, ROOT ids, DEFAULT_KEY_MAPs (C05, C12, C19)
  IterMethod members, DiffClassification members  (C06, C11)
  Mermaid edge/node templates                     (C17)
  lock skeletons of the snapshot operations       (C18)
"""
from __future__ import annotations

import ast
import os
import sys
from pathlib import Path

REPO = Path(os.environ.get("NUTREE_REPO", "/repo"))
OUT = Path(__file__).resolve().parent.parent / "coq" / "gen" / "Generated.v"


class Unsupported(Exception):
    pass


def parse(name):
    return ast.parse((REPO / "nutree" / name).read_text(), filename=name)


def text(s: str) -> str:
    return "[" + "; ".join(str(ord(c)) for c in s) + "]%Z"


def module_assign(mod, name):
    for node in mod.body:
        if isinstance(node, ast.Assign) and len(node.targets) == 1 and isinstance(node.targets[0], ast.Name) and node.targets[0].id == name:
            return node.value
        if isinstance(node, ast.AnnAssign) and isinstance(node.target, ast.Name) and node.target.id == name and node.value is not None:
            return node.value
    raise Unsupported(f"module-level assignment {name} not found")


def class_def(mod, name):
    for node in mod.body:
        if isinstance(node, ast.ClassDef) and node.name == name:
            return node
    raise Unsupported(f"class {name} not found")


def class_assign(cls, name):
    for node in cls.body:
        if isinstance(node, ast.Assign) and len(node.targets) == 1 and isinstance(node.targets[0], ast.Name) and node.targets[0].id == name:
            return node.value
    raise Unsupported(f"{cls.name}.{name} not found")


def func_def(scope, name):
    for node in scope.body:
        if isinstance(node, (ast.FunctionDef,)) and node.name == name:
            return node
    raise Unsupported(f"function {name} not found")


def const_str(node):
    if isinstance(node, ast.Constant) and isinstance(node.value, str):
        return node.value
    raise Unsupported(f"expected a string literal at line {getattr(node, 'lineno', '?')}")


def str_dict(node):
    if not isinstance(node, ast.Dict):
        raise Unsupported("expected a dict literal")
    return [(const_str(k), const_str(v)) for k, v in zip(node.keys, node.values)]


# ---------------------------------------------------------------------------
# lock skeletons (C18)
# ---------------------------------------------------------------------------
NON_STRUCTURAL = {"name", "DEFAULT_KEY_MAP", "DEFAULT_VALUE_MAP", "DEFAULT_CONNECTOR_STYLE", "__class__",
                  "serialize_mapper", "deserialize_mapper", "calc_data_id", "_lock"}
#: methods of the tree object that read the node structure (directly or below)
STRUCT_CALLS = {"to_list_iter", "to_dot", "iterator", "__iter__", "_root", "system_root", "children",
                "to_dict_list", "format", "format_iter", "_node_by_id", "_nodes_by_data_id", "find_all",
                "find_first", "count", "first_child", "last_child", "visit", "to_rdf_graph", "copy_to"}
#: calls that re-enter another snapshot operation on the same tree (the callee brackets itself)
DELEGATES = {"save", "copy", "tree_to_dotfile"}


def lock_skeleton(fn: ast.FunctionDef, subject: str):
    """Event list of a snapshot operation: A(cquire) R(ead) L(release) C(all op).

    An event R is emitted for every read of the subject's structure
    (`subject._root`, iteration over `subject`, structural method calls),
    A/L for `with subject:` brackets, C for delegation to another snapshot
    operation of the same tree.  Nested function definitions are rejected."""
    events: list[str] = []

    def is_subject(n):
        return isinstance(n, ast.Name) and n.id == subject

    def is_super_call(n):
        return isinstance(n, ast.Call) and isinstance(n.func, ast.Name) and n.func.id == "super"

    def visit_expr(n):
        if n is None:
            return
        if isinstance(n, ast.Call):
            f = n.func
            # evaluate arguments first (Python order: func, then args)
            if isinstance(f, ast.Attribute) and (is_subject(f.value) or is_super_call(f.value)):
                for a in n.args:
                    visit_expr(a)
                for k in n.keywords:
                    visit_expr(k.value)
                if f.attr in DELEGATES:
                    events.append("C")
                elif f.attr in STRUCT_CALLS:
                    events.append("R")
                elif f.attr in NON_STRUCTURAL or f.attr.startswith("DEFAULT_"):
                    pass
                else:
                    raise Unsupported(f"{fn.name}: call of unknown method {f.attr} on {subject} (line {n.lineno})")
                return
            if isinstance(f, ast.Name) and f.id in DELEGATES and any(
                    (isinstance(k.value, ast.Name) and k.value.id == subject) for k in n.keywords):
                for a in n.args:
                    visit_expr(a)
                for k in n.keywords:
                    visit_expr(k.value)
                events.append("C")
                return
            for c in ast.iter_child_nodes(n):
                visit_expr(c)
            return
        if isinstance(n, ast.Attribute) and is_subject(n.value):
            if n.attr in STRUCT_CALLS:
                events.append("R")
            elif n.attr in NON_STRUCTURAL or n.attr.startswith("DEFAULT_"):
                pass
            else:
                raise Unsupported(f"{fn.name}: unknown attribute {n.attr} of {subject} (line {n.lineno})")
            # a chain like self._root._add_from(...) reads below
            return
        if isinstance(n, (ast.Lambda, ast.FunctionDef)):
            raise Unsupported(f"{fn.name}: nested function")
        for c in ast.iter_child_nodes(n):
            visit_expr(c)

    def visit_stmts(stmts):
        for s in stmts:
            if isinstance(s, ast.With):
                items = s.items
                if len(items) == 1 and is_subject(items[0].context_expr):
                    events.append("A")
                    visit_stmts(s.body)
                    events.append("L")
                    continue
                for it in items:
                    visit_expr(it.context_expr)
                visit_stmts(s.body)
            elif isinstance(s, ast.For):
                if is_subject(s.iter):
                    events.append("R")
                else:
                    visit_expr(s.iter)
                visit_stmts(s.body)
                visit_stmts(s.orelse)
            elif isinstance(s, (ast.If, ast.While)):
                visit_expr(s.test)
                visit_stmts(s.body)
                visit_stmts(s.orelse)
            elif isinstance(s, ast.Try):
                visit_stmts(s.body)
                for h in s.handlers:
                    visit_stmts(h.body)
                visit_stmts(s.orelse)
                visit_stmts(s.finalbody)
            elif isinstance(s, (ast.FunctionDef, ast.ClassDef)):
                raise Unsupported(f"{fn.name}: nested definition {s.name}")
            elif isinstance(s, ast.Expr) and isinstance(s.value, ast.Constant):
                continue  # docstring
            else:
                for c in ast.iter_child_nodes(s):
                    visit_expr(c)

    visit_stmts(fn.body)
    # collapse runs of reads: the bracket discipline does not depend on how many
    out = []
    for e in events:
        if e == "R" and out and out[-1] == "R":
            continue
        out.append(e)
    return out


def ev_list(evs):
    m = {"A": "Acq", "L": "Rel", "R": "Read", "C": "Call"}
    return "[" + "; ".join(m[e] for e in evs) + "]"


# ---------------------------------------------------------------------------
# ---------------------------------------------------------------------------
# tree_generator.py (C20): lexical structure the model of RandomTree.v relies on
# ---------------------------------------------------------------------------
def tree_generator_facts(lines):
    tg = parse("tree_generator.py")
    mk = func_def(tg, "_make_tree")
    # spec.pop("<key>", default) in _make_tree, in source order
    pops = [n for n in ast.walk(mk) if isinstance(n, ast.Call) and isinstance(n.func, ast.Attribute) and n.func.attr == "pop"
            and isinstance(n.func.value, ast.Name) and n.func.value.id == "spec"]
    pops.sort(key=lambda n: (n.lineno, n.col_offset))
    if not pops or any(len(n.args) != 2 for n in pops):
        raise Unsupported("_make_tree: spec.pop(key, default) calls not found")
    lines.append("Definition TG_POPPED : list (list Z) := [" + "; ".join(text(const_str(n.args[0])) for n in pops) + "].")
    cnt = [n for n in pops if const_str(n.args[0]) == ":count"]
    if len(cnt) != 1 or not (isinstance(cnt[0].args[1], ast.Constant) and type(cnt[0].args[1].value) is int):
        raise Unsupported("_make_tree: default of :count is not an int literal")
    lines.append(f"Definition TG_COUNT_DEFAULT : Z := {cnt[0].args[1].value}%Z.")
    ors = [n for n in ast.walk(mk) if isinstance(n, ast.BoolOp) and isinstance(n.op, ast.Or) and len(n.values) == 2
           and isinstance(n.values[0], ast.Call) and getattr(n.values[0].func, "id", "") == "_resolve_random"
           and isinstance(n.values[1], ast.Constant) and type(n.values[1].value) is int]
    if len(ors) != 1:
        raise Unsupported("_make_tree: `count = _resolve_random(count) or <int>` not found")
    lines.append(f"Definition TG_COUNT_OR : Z := {ors[0].values[1].value}%Z.")
    # for i in range(count): i += 1
    loops = [n for n in ast.walk(mk) if isinstance(n, ast.For) and isinstance(n.iter, ast.Call) and getattr(n.iter.func, "id", "") == "range"]
    if len(loops) != 1 or not (len(loops[0].iter.args) == 1 and getattr(loops[0].iter.args[0], "id", "") == "count"):
        raise Unsupported("_make_tree: `for i in range(count)` not found")
    first = loops[0].body[0]
    if not (isinstance(first, ast.AugAssign) and isinstance(first.op, ast.Add) and getattr(first.target, "id", "") == loops[0].target.id
            and isinstance(first.value, ast.Constant) and type(first.value.value) is int):
        raise Unsupported("_make_tree: `i += <int>` is not the first statement of the child loop")
    lines.append(f"Definition TG_IDX_BASE : Z := {first.value.value}%Z.")
    # macros={"idx": i, "hier_idx": p}
    mac = [kw.value for n in ast.walk(mk) if isinstance(n, ast.Call) for kw in n.keywords if kw.arg == "macros"]
    if len(mac) != 1 or not isinstance(mac[0], ast.Dict) or not all(isinstance(v, ast.Name) for v in mac[0].values):
        raise Unsupported("_make_tree: macros={...} dict literal not found")
    lines.append("Definition TG_MACROS : list (list Z * list Z) := [" +
                 "; ".join(f"({text(const_str(k))}, {text(v.id)})" for k, v in zip(mac[0].keys, mac[0].values)) + "].")
    # p = f"{prefix}.{i}" if prefix else f"{i}"
    ps = [n for n in ast.walk(mk) if isinstance(n, ast.Assign) and getattr(n.targets[0], "id", "") == "p" and isinstance(n.value, ast.IfExp)]
    ok = False
    if len(ps) == 1:
        e = ps[0].value
        j1, j2 = e.body, e.orelse
        ok = (getattr(e.test, "id", "") == "prefix" and isinstance(j1, ast.JoinedStr) and isinstance(j2, ast.JoinedStr)
              and len(j1.values) == 3 and isinstance(j1.values[0], ast.FormattedValue) and getattr(j1.values[0].value, "id", "") == "prefix"
              and isinstance(j1.values[1], ast.Constant) and isinstance(j1.values[2], ast.FormattedValue)
              and getattr(j1.values[2].value, "id", "") == "i" and len(j2.values) == 1
              and isinstance(j2.values[0], ast.FormattedValue) and getattr(j2.values[0].value, "id", "") == "i")
    if not ok:
        raise Unsupported('_make_tree: `p = f"{prefix}<sep>{i}" if prefix else f"{i}"` not found')
    lines.append(f"Definition TG_HIER_SEP : list Z := {text(ps[0].value.body.values[1].value)}.")
    # _merge_specs: order of the three sources
    mg = func_def(tg, "_merge_specs")
    src = []
    for st in mg.body:
        v = st.value if isinstance(st, (ast.Assign, ast.Expr)) else None
        if isinstance(st, ast.Return):
            continue
        call = v
        if isinstance(call, ast.Call) and isinstance(call.func, ast.Attribute) and call.func.attr == "copy":
            call = call.func.value          # types.get("*", {}).copy()
            arg = call
        elif isinstance(call, ast.Call) and isinstance(call.func, ast.Attribute) and call.func.attr == "update" and len(call.args) == 1:
            arg = call.args[0]
        else:
            raise Unsupported("_merge_specs: unexpected statement")
        if isinstance(arg, ast.Name):
            src.append(arg.id)
        elif isinstance(arg, ast.Call) and isinstance(arg.func, ast.Attribute) and arg.func.attr == "get" and getattr(arg.func.value, "id", "") == "types":
            k = arg.args[0]
            src.append(const_str(k) if isinstance(k, ast.Constant) else k.id)
        else:
            raise Unsupported("_merge_specs: unexpected source")
    lines.append("Definition TG_MERGE_ORDER : list (list Z) := [" + "; ".join(text(x) for x in src) + "].")
    # Randomizer._skip_value: use = self.probability == 1.0 or random.random() <op> self.probability; return not use
    sk = func_def(class_def(tg, "Randomizer"), "_skip_value")
    cmp_ = [n for n in ast.walk(sk) if isinstance(n, ast.Compare) and isinstance(n.left, ast.Call) and isinstance(n.left.func, ast.Attribute)
            and n.left.func.attr == "random"]
    ret = [n for n in ast.walk(sk) if isinstance(n, ast.Return)]
    if len(cmp_) != 1 or len(cmp_[0].ops) != 1 or len(ret) != 1 or not (isinstance(ret[0].value, ast.UnaryOp) and isinstance(ret[0].value.op, ast.Not)):
        raise Unsupported("_skip_value: unexpected shape")
    lines.append(f"Definition TG_SKIP_CMP : list Z := {text(type(cmp_[0].ops[0]).__name__)}.")
    # every function of the random module / fabulist the file calls
    calls = sorted({n.func.attr for n in ast.walk(tg) if isinstance(n, ast.Call) and isinstance(n.func, ast.Attribute)
                    and isinstance(n.func.value, ast.Name) and n.func.value.id == "random"})
    lines.append("Definition TG_RANDOM_CALLS : list (list Z) := [" + "; ".join(text(c) for c in calls) + "].")
    uses = sorted({n.attr for n in ast.walk(tg) if isinstance(n, ast.Attribute) and isinstance(n.value, ast.Name) and n.value.id == "random"})
    lines.append("Definition TG_RANDOM_USES : list (list Z) := [" + "; ".join(text(c) for c in uses) + "].")
    # RangeRandomizer.generate: uniform / randrange on exactly (self.min, self.max)
    rg = func_def(class_def(tg, "RangeRandomizer"), "generate")
    rc = [n for n in ast.walk(rg) if isinstance(n, ast.Call) and isinstance(n.func, ast.Attribute) and getattr(n.func.value, "id", "") == "random"]
    okr = sorted(n.func.attr for n in rc) == ["randrange", "uniform"] and all(
        len(n.args) == 2 and not n.keywords and all(isinstance(a, ast.Attribute) and getattr(a.value, "id", "") == "self" for a in n.args)
        and [a.attr for a in n.args] == ["min", "max"] for n in rc)
    lines.append(f"Definition TG_RANGE_ARGS_OK : bool := {'true' if okr else 'false'}.")
    # DateRangeRandomizer.generate: randrange(self.delta_days); stamp = (timestamp() + ONE_DAY_SEC) * 1000.0
    dg = func_def(class_def(tg, "DateRangeRandomizer"), "generate")
    dc = [n for n in ast.walk(dg) if isinstance(n, ast.Call) and isinstance(n.func, ast.Attribute) and getattr(n.func.value, "id", "") == "random"]
    okd = (len(dc) == 1 and dc[0].func.attr == "randrange" and len(dc[0].args) == 1 and isinstance(dc[0].args[0], ast.Attribute)
           and dc[0].args[0].attr == "delta_days")
    st = [n for n in ast.walk(dg) if isinstance(n, ast.Assign) and getattr(n.targets[0], "id", "") == "stamp_ms"]
    oks = False
    if len(st) == 1:
        e = st[0].value
        oks = (isinstance(e, ast.BinOp) and isinstance(e.op, ast.Mult) and isinstance(e.right, ast.Constant) and e.right.value == 1000.0
               and isinstance(e.left, ast.BinOp) and isinstance(e.left.op, ast.Add) and getattr(e.left.right, "id", "") == "ONE_DAY_SEC"
               and isinstance(e.left.left, ast.Call) and getattr(e.left.left.func, "attr", "") == "timestamp")
    one = [n for n in ast.walk(dg) if isinstance(n, ast.Assign) and getattr(n.targets[0], "id", "") == "ONE_DAY_SEC"]
    try:
        one_v = eval(compile(ast.Expression(one[0].value), "<one>", "eval"), {"__builtins__": {}}) if len(one) == 1 else None
    except Exception:
        one_v = None
    lines.append(f"Definition TG_DATE_OK : bool := {'true' if okd and oks and one_v == 86400 else 'false'}.")
    # build_random_tree: the root relation key, and the '*' key of _merge_specs
    br = func_def(tg, "build_random_tree")
    roots = [kw.value for n in ast.walk(br) if isinstance(n, ast.Call) and getattr(n.func, "id", "") == "_make_tree"
             for kw in n.keywords if kw.arg == "parent_type"]
    if len(roots) != 1:
        raise Unsupported("build_random_tree: _make_tree(parent_type=...) not found")
    lines.append(f"Definition TG_ROOT : list Z := {text(const_str(roots[0]))}.")


def main():
    common = parse("common.py")
    tree = parse("tree.py")
    typed = parse("typed_tree.py")
    fs = parse("fs.py")
    diff = parse("diff.py")
    mermaid = parse("mermaid.py")
    dot = parse("dot.py")
    init = parse("__init__.py")

    lines = ["(* GENERATED by harness/gen_facts.py from /repo -- do not edit *)",
             "From Coq Require Import List ZArith String.", "Import ListNotations.", ""]

    # --- CONNECTORS
    conn = module_assign(common, "CONNECTORS")
    if not isinstance(conn, ast.Dict):
        raise Unsupported("CONNECTORS is not a dict literal")
    rows = []
    for k, v in zip(conn.keys, conn.values):
        name = const_str(k)
        if not isinstance(v, ast.Tuple):
            raise Unsupported(f"CONNECTORS[{name}] is not a tuple literal")
        segs = [const_str(e) for e in v.elts]
        rows.append((name, segs))
    lines.append("Definition CONNECTORS : list (list Z * list (list Z)) := [")
    lines.append(";\n".join(f"  ({text(n)}, [{'; '.join(text(s) for s in segs)}])" for n, segs in rows))
    lines.append("].")
    tcls = class_def(tree, "Tree")
    lines.append(f"Definition DEFAULT_CONNECTOR_STYLE : list Z := {text(const_str(class_assign(tcls, 'DEFAULT_CONNECTOR_STYLE')))}.")

    # --- format constants
    lines.append(f"Definition FILE_FORMAT_VERSION : list Z := {text(const_str(module_assign(common, 'FILE_FORMAT_VERSION')))}.")
    lines.append(f"Definition NUTREE_VERSION : list Z := {text(const_str(module_assign(init, '__version__')))}.")
    lines.append(f"Definition ROOT_DATA_ID : list Z := {text(const_str(module_assign(common, 'ROOT_DATA_ID')))}.")
    rn = module_assign(common, "ROOT_NODE_ID")
    if not (isinstance(rn, ast.Constant) and isinstance(rn.value, int)):
        raise Unsupported("ROOT_NODE_ID")
    lines.append(f"Definition ROOT_NODE_ID : Z := {rn.value}%Z.")

    def kmap(cls, nm):
        return "[" + "; ".join(f"({text(a)}, {text(b)})" for a, b in str_dict(class_assign(cls, nm))) + "]"

    lines.append(f"Definition TREE_KEY_MAP : list (list Z * list Z) := {kmap(tcls, 'DEFAULT_KEY_MAP')}.")
    ttcls = class_def(typed, "TypedTree")
    lines.append(f"Definition TYPED_KEY_MAP : list (list Z * list Z) := {kmap(ttcls, 'DEFAULT_KEY_MAP')}.")
    lines.append(f"Definition FS_KEY_MAP : list (list Z * list Z) := {kmap(class_def(fs, 'FileSystemTree'), 'DEFAULT_KEY_MAP')}.")
    lines.append(f"Definition DEFAULT_CHILD_TYPE : list Z := {text(const_str(class_assign(ttcls, 'DEFAULT_CHILD_TYPE')))}.")
    for nm, cls in (("TREE", tcls), ("TYPED", ttcls)):
        v = class_assign(cls, "DEFAULT_VALUE_MAP")
        if not (isinstance(v, ast.Dict) and not v.keys):
            raise Unsupported(f"{nm} DEFAULT_VALUE_MAP is not an empty dict literal")

    # --- enums
    def enum_members(mod, name):
        cls = class_def(mod, name)
        res = []
        for n in cls.body:
            if isinstance(n, ast.Assign) and isinstance(n.targets[0], ast.Name) and isinstance(n.value, ast.Constant):
                res.append((n.targets[0].id, n.value.value))
        return res

    im = enum_members(common, "IterMethod")
    lines.append("Definition ITER_METHODS : list (list Z * list Z) := [" + "; ".join(f"({text(a)}, {text(b)})" for a, b in im) + "].")
    dc = enum_members(diff, "DiffClassification")
    lines.append("Definition DIFF_CLASSES : list (list Z * Z) := [" + "; ".join(f"({text(a)}, {b}%Z)" for a, b in dc) + "].")

    # --- mermaid templates
    for nm in ("DEFAULT_NODE_TEMPLATE", "DEFAULT_EDGE_TEMPLATE", "DEFAULT_EDGE_TEMPLATE_TYPED"):
        lines.append(f"Definition MERMAID_{nm} : list Z := {text(const_str(module_assign(mermaid, nm)))}.")

    # --- lock skeletons
    lines.append("")
    lines.append("Inductive lev := Acq | Rel | Read | Call.")
    progs = [
        ("tree_copy", lock_skeleton(func_def(tcls, "copy"), "self")),
        ("tree_copy_to", lock_skeleton(func_def(tcls, "copy_to"), "self")),
        ("tree_filtered", lock_skeleton(func_def(tcls, "filtered"), "self")),
        ("tree_to_dict_list", lock_skeleton(func_def(tcls, "to_dict_list"), "self")),
        ("tree_save", lock_skeleton(func_def(tcls, "save"), "self")),
        ("typed_save", lock_skeleton(func_def(ttcls, "save"), "self")),
        ("tree_to_dotfile", lock_skeleton(func_def(tcls, "to_dotfile"), "self")),
        ("dot_tree_to_dotfile", lock_skeleton(func_def(dot, "tree_to_dotfile"), "tree")),
    ]
    for nm, evs in progs:
        lines.append(f"Definition prog_{nm} : list lev := {ev_list(evs)}.")
    lines.append("Definition SNAPSHOT_PROGS : list (list Z * list lev) := [" +
                 "; ".join(f"({text(nm)}, prog_{nm})" for nm, _ in progs) + "].")
    # __enter__/__exit__ must be exactly acquire / release of self._lock
    for meth, call in (("__enter__", "acquire"), ("__exit__", "release")):
        fn = func_def(tcls, meth)
        calls = [n for n in ast.walk(fn) if isinstance(n, ast.Call) and isinstance(n.func, ast.Attribute)]
        ok = (len(calls) == 1 and calls[0].func.attr == call and isinstance(calls[0].func.value, ast.Attribute)
              and calls[0].func.value.attr == "_lock")
        lines.append(f"Definition LOCK_{call.upper()}_OK : bool := {'true' if ok else 'false'}.")
    # the lock is a re-entrant lock
    init_fn = func_def(tcls, "__init__")
    rl = [n for n in ast.walk(init_fn) if isinstance(n, ast.Assign) and isinstance(n.targets[0], ast.Attribute)
          and n.targets[0].attr == "_lock"]
    is_rlock = (len(rl) == 1 and isinstance(rl[0].value, ast.Call) and isinstance(rl[0].value.func, ast.Attribute)
                and rl[0].value.func.attr == "RLock")
    lines.append(f"Definition LOCK_IS_RLOCK : bool := {'true' if is_rlock else 'false'}.")

    lines.append("")
    tree_generator_facts(lines)   # C20

    new = "\n".join(lines) + "\n"
    OUT.parent.mkdir(parents=True, exist_ok=True)
    if not OUT.exists() or OUT.read_text() != new:
        OUT.write_text(new)
    return 0


if __name__ == "__main__":
    try:
        sys.exit(main())
    except (Unsupported, SyntaxError, OSError) as e:
        # fail closed: leave a Generated.v that cannot satisfy any obligation
        print(f"gen_facts: {e}", file=sys.stderr)
        OUT.parent.mkdir(parents=True, exist_ok=True)
        OUT.write_text("(* gen_facts failed: " + str(e).replace("*)", "* )") + " *)\nDefinition GEN_FACTS_FAILED : True := I.\n")
        sys.exit(2)
