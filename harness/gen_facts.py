"""Regenerate coq/gen/Generated.v from the *source text* of /repo (ast only, no import).

Fail-closed: any shape this walk does not understand is an error (exit 2) and
the proof obligations depending on Generated.v count as not discharged.

Lifted verbatim: tables and lexical structure that *are* data –
  CONNECTORS / DEFAULT_CONNECTOR_STYLE            (C16)
  FILE_FORMAT_VERSION, ROOT ids, DEFAULT_KEY_MAPs (C05, C12, C19)
  IterMethod members, DiffClassification members  (C06, C11)
  Mermaid edge/node templates                     (C17)
  lock skeletons of the snapshot operations       (C18)
  literal keys of Node.to_dict / Node.from_dict, shape of the data_id test (C14)
"""
from __future__ import annotations

import ast
import os
import sys
from pathlib import Path

REPO = Path(os.environ.get("NUTREE_REPO", "/repo"))
OUT = Path(__file__).resolve().parent.parent / "coq" / "gen" / "Generated.v"


class Unsupported(Exception):
    pass


def parse(name):
    return ast.parse((REPO / "nutree" / name).read_text(), filename=name)


def text(s: str) -> str:
    return "[" + "; ".join(str(ord(c)) for c in s) + "]%Z"


def module_assign(mod, name):
    for node in mod.body:
        if isinstance(node, ast.Assign) and len(node.targets) == 1 and isinstance(node.targets[0], ast.Name) and node.targets[0].id == name:
            return node.value
        if isinstance(node, ast.AnnAssign) and isinstance(node.target, ast.Name) and node.target.id == name and node.value is not None:
            return node.value
    raise Unsupported(f"module-level assignment {name} not found")


def class_def(mod, name):
    for node in mod.body:
        if isinstance(node, ast.ClassDef) and node.name == name:
            return node
    raise Unsupported(f"class {name} not found")


def class_assign(cls, name):
    for node in cls.body:
        if isinstance(node, ast.Assign) and len(node.targets) == 1 and isinstance(node.targets[0], ast.Name) and node.targets[0].id == name:
            return node.value
    raise Unsupported(f"{cls.name}.{name} not found")


def func_def(scope, name):
    for node in scope.body:
        if isinstance(node, (ast.FunctionDef,)) and node.name == name:
            return node
    raise Unsupported(f"function {name} not found")


def const_str(node):
    if isinstance(node, ast.Constant) and isinstance(node.value, str):
        return node.value
    raise Unsupported(f"expected a string literal at line {getattr(node, 'lineno', '?')}")


def str_dict(node):
    if not isinstance(node, ast.Dict):
        raise Unsupported("expected a dict literal")
    return [(const_str(k), const_str(v)) for k, v in zip(node.keys, node.values)]


# ---------------------------------------------------------------------------
# lock skeletons (C18)
# ---------------------------------------------------------------------------
NON_STRUCTURAL = {"name", "DEFAULT_KEY_MAP", "DEFAULT_VALUE_MAP", "DEFAULT_CONNECTOR_STYLE", "__class__",
                  "serialize_mapper", "deserialize_mapper", "calc_data_id", "_lock"}
#: methods of the tree object that read the node structure (directly or below)
STRUCT_CALLS = {"to_list_iter", "to_dot", "iterator", "__iter__", "_root", "system_root", "children",
                "to_dict_list", "format", "format_iter", "_node_by_id", "_nodes_by_data_id", "find_all",
                "find_first", "count", "first_child", "last_child", "visit", "to_rdf_graph", "copy_to"}
#: calls that re-enter another snapshot operation on the same tree (the callee brackets itself)
DELEGATES = {"save", "copy", "tree_to_dotfile"}


def lock_skeleton(fn: ast.FunctionDef, subject: str):
    """Event list of a snapshot operation: A(cquire) R(ead) L(release) C(all op).

    An event R is emitted for every read of the subject's structure
    (`subject._root`, iteration over `subject`, structural method calls),
    A/L for `with subject:` brackets, C for delegation to another snapshot
    operation of the same tree.  Nested function definitions are rejected."""
    events: list[str] = []

    def is_subject(n):
        return isinstance(n, ast.Name) and n.id == subject

    def is_super_call(n):
        return isinstance(n, ast.Call) and isinstance(n.func, ast.Name) and n.func.id == "super"

    def visit_expr(n):
        if n is None:
            return
        if isinstance(n, ast.Call):
            f = n.func
            # evaluate arguments first (Python order: func, then args)
            if isinstance(f, ast.Attribute) and (is_subject(f.value) or is_super_call(f.value)):
                for a in n.args:
                    visit_expr(a)
                for k in n.keywords:
                    visit_expr(k.value)
                if f.attr in DELEGATES:
                    events.append("C")
                elif f.attr in STRUCT_CALLS:
                    events.append("R")
                elif f.attr in NON_STRUCTURAL or f.attr.startswith("DEFAULT_"):
                    pass
                else:
                    raise Unsupported(f"{fn.name}: call of unknown method {f.attr} on {subject} (line {n.lineno})")
                return
            if isinstance(f, ast.Name) and f.id in DELEGATES and any(
                    (isinstance(k.value, ast.Name) and k.value.id == subject) for k in n.keywords):
                for a in n.args:
                    visit_expr(a)
                for k in n.keywords:
                    visit_expr(k.value)
                events.append("C")
                return
            for c in ast.iter_child_nodes(n):
                visit_expr(c)
            return
        if isinstance(n, ast.Attribute) and is_subject(n.value):
            if n.attr in STRUCT_CALLS:
                events.append("R")
            elif n.attr in NON_STRUCTURAL or n.attr.startswith("DEFAULT_"):
                pass
            else:
                raise Unsupported(f"{fn.name}: unknown attribute {n.attr} of {subject} (line {n.lineno})")
            # a chain like self._root._add_from(...) reads below
            return
        if isinstance(n, (ast.Lambda, ast.FunctionDef)):
            raise Unsupported(f"{fn.name}: nested function")
        for c in ast.iter_child_nodes(n):
            visit_expr(c)

    def visit_stmts(stmts):
        for s in stmts:
            if isinstance(s, ast.With):
                items = s.items
                if len(items) == 1 and is_subject(items[0].context_expr):
                    events.append("A")
                    visit_stmts(s.body)
                    events.append("L")
                    continue
                for it in items:
                    visit_expr(it.context_expr)
                visit_stmts(s.body)
            elif isinstance(s, ast.For):
                if is_subject(s.iter):
                    events.append("R")
                else:
                    visit_expr(s.iter)
                visit_stmts(s.body)
                visit_stmts(s.orelse)
            elif isinstance(s, (ast.If, ast.While)):
                visit_expr(s.test)
                visit_stmts(s.body)
                visit_stmts(s.orelse)
            elif isinstance(s, ast.Try):
                visit_stmts(s.body)
                for h in s.handlers:
                    visit_stmts(h.body)
                visit_stmts(s.orelse)
                visit_stmts(s.finalbody)
            elif isinstance(s, (ast.FunctionDef, ast.ClassDef)):
                raise Unsupported(f"{fn.name}: nested definition {s.name}")
            elif isinstance(s, ast.Expr) and isinstance(s.value, ast.Constant):
                continue  # docstring
            else:
                for c in ast.iter_child_nodes(s):
                    visit_expr(c)

    visit_stmts(fn.body)
    # collapse runs of reads: the bracket discipline does not depend on how many
    out = []
    for e in events:
        if e == "R" and out and out[-1] == "R":
            continue
        out.append(e)
    return out


def ev_list(evs):
    m = {"A": "Acq", "L": "Rel", "R": "Read", "C": "Call"}
    return "[" + "; ".join(m[e] for e in evs) + "]"


# ---------------------------------------------------------------------------
def main():
    common = parse("common.py")
    tree = parse("tree.py")
    typed = parse("typed_tree.py")
    fs = parse("fs.py")
    diff = parse("diff.py")
    mermaid = parse("mermaid.py")
    dot = parse("dot.py")
    init = parse("__init__.py")

    lines = ["(* GENERATED by harness/gen_facts.py from /repo -- do not edit *)",
             "From Coq Require Import List ZArith String.", "Import ListNotations.", ""]

    # --- CONNECTORS
    conn = module_assign(common, "CONNECTORS")
    if not isinstance(conn, ast.Dict):
        raise Unsupported("CONNECTORS is not a dict literal")
    rows = []
    for k, v in zip(conn.keys, conn.values):
        name = const_str(k)
        if not isinstance(v, ast.Tuple):
            raise Unsupported(f"CONNECTORS[{name}] is not a tuple literal")
        segs = [const_str(e) for e in v.elts]
        rows.append((name, segs))
    lines.append("Definition CONNECTORS : list (list Z * list (list Z)) := [")
    lines.append(";\n".join(f"  ({text(n)}, [{'; '.join(text(s) for s in segs)}])" for n, segs in rows))
    lines.append("].")
    tcls = class_def(tree, "Tree")
    lines.append(f"Definition DEFAULT_CONNECTOR_STYLE : list Z := {text(const_str(class_assign(tcls, 'DEFAULT_CONNECTOR_STYLE')))}.")

    # --- format constants
    lines.append(f"Definition FILE_FORMAT_VERSION : list Z := {text(const_str(module_assign(common, 'FILE_FORMAT_VERSION')))}.")
    lines.append(f"Definition NUTREE_VERSION : list Z := {text(const_str(module_assign(init, '__version__')))}.")
    lines.append(f"Definition ROOT_DATA_ID : list Z := {text(const_str(module_assign(common, 'ROOT_DATA_ID')))}.")
    rn = module_assign(common, "ROOT_NODE_ID")
    if not (isinstance(rn, ast.Constant) and isinstance(rn.value, int)):
        raise Unsupported("ROOT_NODE_ID")
    lines.append(f"Definition ROOT_NODE_ID : Z := {rn.value}%Z.")

    def kmap(cls, nm):
        return "[" + "; ".join(f"({text(a)}, {text(b)})" for a, b in str_dict(class_assign(cls, nm))) + "]"

    lines.append(f"Definition TREE_KEY_MAP : list (list Z * list Z) := {kmap(tcls, 'DEFAULT_KEY_MAP')}.")
    ttcls = class_def(typed, "TypedTree")
    lines.append(f"Definition TYPED_KEY_MAP : list (list Z * list Z) := {kmap(ttcls, 'DEFAULT_KEY_MAP')}.")
    lines.append(f"Definition FS_KEY_MAP : list (list Z * list Z) := {kmap(class_def(fs, 'FileSystemTree'), 'DEFAULT_KEY_MAP')}.")
    lines.append(f"Definition DEFAULT_CHILD_TYPE : list Z := {text(const_str(class_assign(ttcls, 'DEFAULT_CHILD_TYPE')))}.")
    for nm, cls in (("TREE", tcls), ("TYPED", ttcls)):
        v = class_assign(cls, "DEFAULT_VALUE_MAP")
        if not (isinstance(v, ast.Dict) and not v.keys):
            raise Unsupported(f"{nm} DEFAULT_VALUE_MAP is not an empty dict literal")

    # --- enums
    def enum_members(mod, name):
        cls = class_def(mod, name)
        res = []
        for n in cls.body:
            if isinstance(n, ast.Assign) and isinstance(n.targets[0], ast.Name) and isinstance(n.value, ast.Constant):
                res.append((n.targets[0].id, n.value.value))
        return res

    im = enum_members(common, "IterMethod")
    lines.append("Definition ITER_METHODS : list (list Z * list Z) := [" + "; ".join(f"({text(a)}, {text(b)})" for a, b in im) + "].")
    dc = enum_members(diff, "DiffClassification")
    lines.append("Definition DIFF_CLASSES : list (list Z * Z) := [" + "; ".join(f"({text(a)}, {b}%Z)" for a, b in dc) + "].")

    # --- mermaid templates
    for nm in ("DEFAULT_NODE_TEMPLATE", "DEFAULT_EDGE_TEMPLATE", "DEFAULT_EDGE_TEMPLATE_TYPED"):
        lines.append(f"Definition MERMAID_{nm} : list Z := {text(const_str(module_assign(mermaid, nm)))}.")

    # --- lock skeletons
    lines.append("")
    lines.append("Inductive lev := Acq | Rel | Read | Call.")
    progs = [
        ("tree_copy", lock_skeleton(func_def(tcls, "copy"), "self")),
        ("tree_copy_to", lock_skeleton(func_def(tcls, "copy_to"), "self")),
        ("tree_filtered", lock_skeleton(func_def(tcls, "filtered"), "self")),
        ("tree_to_dict_list", lock_skeleton(func_def(tcls, "to_dict_list"), "self")),
        ("tree_save", lock_skeleton(func_def(tcls, "save"), "self")),
        ("typed_save", lock_skeleton(func_def(ttcls, "save"), "self")),
        ("tree_to_dotfile", lock_skeleton(func_def(tcls, "to_dotfile"), "self")),
        ("dot_tree_to_dotfile", lock_skeleton(func_def(dot, "tree_to_dotfile"), "tree")),
    ]
    for nm, evs in progs:
        lines.append(f"Definition prog_{nm} : list lev := {ev_list(evs)}.")
    lines.append("Definition SNAPSHOT_PROGS : list (list Z * list lev) := [" +
                 "; ".join(f"({text(nm)}, prog_{nm})" for nm, _ in progs) + "].")
    # __enter__/__exit__ must be exactly acquire / release of self._lock
    for meth, call in (("__enter__", "acquire"), ("__exit__", "release")):
        fn = func_def(tcls, meth)
        calls = [n for n in ast.walk(fn) if isinstance(n, ast.Call) and isinstance(n.func, ast.Attribute)]
        ok = (len(calls) == 1 and calls[0].func.attr == call and isinstance(calls[0].func.value, ast.Attribute)
              and calls[0].func.value.attr == "_lock")
        lines.append(f"Definition LOCK_{call.upper()}_OK : bool := {'true' if ok else 'false'}.")
    # the lock is a re-entrant lock
    init_fn = func_def(tcls, "__init__")
    rl = [n for n in ast.walk(init_fn) if isinstance(n, ast.Assign) and isinstance(n.targets[0], ast.Attribute)
          and n.targets[0].attr == "_lock"]
    is_rlock = (len(rl) == 1 and isinstance(rl[0].value, ast.Call) and isinstance(rl[0].value.func, ast.Attribute)
                and rl[0].value.func.attr == "RLock")
    lines.append(f"Definition LOCK_IS_RLOCK : bool := {'true' if is_rlock else 'false'}.")

    # --- C14: literal keys of the dict form (Node.to_dict / Node.from_dict) and the data_id test
    node_mod = parse("node.py")
    ncls = class_def(node_mod, "Node")
    td = func_def(ncls, "to_dict")
    found = []
    for n in ast.walk(td):
        if isinstance(n, ast.Dict) and n.keys and all(isinstance(k, ast.Constant) and isinstance(k.value, str) for k in n.keys):
            for k in n.keys:
                found.append((k.lineno, k.col_offset, k.value))
        if (isinstance(n, ast.Subscript) and isinstance(n.ctx, ast.Store) and isinstance(n.value, ast.Name) and n.value.id == "res"):
            found.append((n.lineno, n.col_offset, const_str(n.slice)))
    if not found:
        raise Unsupported("Node.to_dict: no literal keys found")
    lines.append("Definition TO_DICT_KEYS : list (list Z) := [" + "; ".join(text(k) for _, _, k in sorted(found)) + "].")
    # shape of the data_id test: 1 = [if self._data_id != hash(self._data):] (raises for unhashable data, D30b);
    # 2 = [try: is_default = self._data_id == hash(self._data) / except TypeError: is_default = False] + [if not is_default:]
    def is_self_attr(n, attr):
        return isinstance(n, ast.Attribute) and n.attr == attr and isinstance(n.value, ast.Name) and n.value.id == "self"

    def is_hash_of_data(n):
        return (isinstance(n, ast.Call) and isinstance(n.func, ast.Name) and n.func.id == "hash" and len(n.args) == 1
                and is_self_attr(n.args[0], "_data"))

    def sets_data_id(st):
        return isinstance(st, ast.If) and any(
            isinstance(b, ast.Assign) and isinstance(b.targets[0], ast.Subscript) and isinstance(b.targets[0].slice, ast.Constant)
            and b.targets[0].slice.value == "data_id" and is_self_attr(b.value, "_data_id") for b in st.body)

    def guarded_try(st):
        if not (isinstance(st, ast.Try) and len(st.body) == 1 and len(st.handlers) == 1 and not st.orelse and not st.finalbody):
            return None
        b, h = st.body[0], st.handlers[0]
        if not (isinstance(b, ast.Assign) and isinstance(b.targets[0], ast.Name) and isinstance(b.value, ast.Compare)
                and len(b.value.ops) == 1 and isinstance(b.value.ops[0], ast.Eq) and is_self_attr(b.value.left, "_data_id")
                and is_hash_of_data(b.value.comparators[0])):
            return None
        if not (isinstance(h.type, ast.Name) and h.type.id == "TypeError" and len(h.body) == 1 and isinstance(h.body[0], ast.Assign)
                and isinstance(h.body[0].targets[0], ast.Name) and h.body[0].targets[0].id == b.targets[0].id
                and isinstance(h.body[0].value, ast.Constant) and h.body[0].value.value is False):
            return None
        return b.targets[0].id

    id_test = 0
    flag = None
    for st in td.body:
        g = guarded_try(st)
        if g:
            flag = g
        if sets_data_id(st):
            t = st.test
            if (isinstance(t, ast.Compare) and len(t.ops) == 1 and isinstance(t.ops[0], ast.NotEq)
                    and is_self_attr(t.left, "_data_id") and is_hash_of_data(t.comparators[0])):
                id_test = 1
            elif (flag and isinstance(t, ast.UnaryOp) and isinstance(t.op, ast.Not) and isinstance(t.operand, ast.Name)
                  and t.operand.id == flag):
                id_test = 2
    lines.append(f"Definition TO_DICT_ID_TEST : Z := {id_test}%Z.")
    # statement skeleton of Node.to_dict: 0 res = {...}; 5 try: is_default = ...; 1 if <id test>: res["data_id"] = ...; 2 res = call_mapper(...);
    # 3 if self._children: ...; 4 return res; 9 anything else (doc strings skipped)
    skel = []
    for st in td.body:
        if isinstance(st, ast.Expr) and isinstance(st.value, ast.Constant) and isinstance(st.value.value, str):
            continue
        if isinstance(st, (ast.Assign, ast.AnnAssign)) and isinstance(st.value, ast.Dict):
            skel.append(0)
        elif sets_data_id(st):
            skel.append(1)
        elif guarded_try(st):
            skel.append(5)
        elif (isinstance(st, ast.Assign) and isinstance(st.value, ast.Call) and isinstance(st.value.func, ast.Name)
              and st.value.func.id == "call_mapper"):
            skel.append(2)
        elif (isinstance(st, ast.If) and isinstance(st.test, ast.Attribute) and st.test.attr == "_children"
              and any("children" == getattr(getattr(n, "slice", None), "value", None) for b in st.body for n in ast.walk(b)
                      if isinstance(n, ast.Subscript))):
            skel.append(3)
        elif isinstance(st, ast.Return):
            skel.append(4)
        else:
            skel.append(9)
    lines.append("Definition TO_DICT_SKELETON : list Z := [" + "; ".join(f"{k}%Z" for k in skel) + "].")
    fdn = func_def(ncls, "from_dict")
    found = []
    for n in ast.walk(fdn):
        if (isinstance(n, ast.Subscript) and isinstance(n.ctx, ast.Load) and isinstance(n.value, ast.Name) and n.value.id == "item"):
            found.append((n.lineno, n.col_offset, const_str(n.slice)))
        if (isinstance(n, ast.Call) and isinstance(n.func, ast.Attribute) and n.func.attr == "get"
                and isinstance(n.func.value, ast.Name) and n.func.value.id == "item" and len(n.args) == 1):
            found.append((n.lineno, n.col_offset, const_str(n.args[0])))
    if not found:
        raise Unsupported("Node.from_dict: no literal keys found")
    lines.append("Definition FROM_DICT_KEYS : list (list Z) := [" + "; ".join(text(k) for _, _, k in sorted(found)) + "].")

    new = "\n".join(lines) + "\n"
    OUT.parent.mkdir(parents=True, exist_ok=True)
    if not OUT.exists() or OUT.read_text() != new:
        OUT.write_text(new)
    return 0


if __name__ == "__main__":
    try:
        sys.exit(main())
    except (Unsupported, SyntaxError, OSError) as e:
        # fail closed: leave a Generated.v that cannot satisfy any obligation
        print(f"gen_facts: {e}", file=sys.stderr)
        OUT.parent.mkdir(parents=True, exist_ok=True)
        OUT.write_text("(* gen_facts failed: " + str(e).replace("*)", "* )") + " *)\nDefinition GEN_FACTS_FAILED : True := I.\n")
        sys.exit(2)
