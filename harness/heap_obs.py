"""Raw-pointer observation of the implementation for the heap refinement (coq/theories/Mut/Heap.v,
Cases/CaseHeap.v).

After every step of a replayed history, for EVERY node object ever allocated in the world (live, removed,
refused at creation), grouped by the tree it was created in and in allocation order:

    [n, _parent, _children, _tree]     _parent:   []            None
                                                  [0]           the system root of a tree
                                                  [k]           node k
                                       _children: []            None
                                                  [[k1,...]]    a list object (an EMPTY list object is [[]],
                                                                which the model never produces: the code
                                                                stores None instead of [])
                                       _tree:     1 / 0         is not None / is None

plus the root's `_children` per tree.  The heap model (h_step) covers the operations named in MODELLED; from the
first other operation on, both sides render the marker -1.

One `HeapObserver` per replay; use `post` as the post-hook of mut_ex.replay; the rendered list is `obs`.
"""
from __future__ import annotations

MODELLED_PREFIXES = ("(OAdd ", "(ORemove ", "(ORemoveChildren ", "(OClear ", "(OMove ", "(OMeta ", "(ONewTree ", "(ODel ", "(OShort ", "(OSetData ", "(ORename ",
                     "(OSort ", "(OAddNode ", "(OAddTree ", "(OCopyTo ", "(OTreeCopy ", "(ONodeCopy ",
                     "(OFilter ", "(OFromDict ", "(OTreeFromDict ")


# the tree a node object is created in (recorded at construction: a node that is created and removed again within
# one operation - a refused from_dict - has `_tree is None` by the time the step is observed)
import common as _H  # noqa: E402  (installs the allocation-index wrapper first)
from nutree.node import Node as _Node  # noqa: E402

_HOME_TREE: dict[int, object] = {}
_prev_init = _Node.__init__


def _home_init(self, *a, **kw):
    p = kw.get("parent")
    if p is not None:
        _HOME_TREE[id(self)] = getattr(p, "_tree", None)
    return _prev_init(self, *a, **kw)


_Node.__init__ = _home_init


def modelled(coq_op: str) -> bool:
    return coq_op.strip().startswith(MODELLED_PREFIXES)


class HeapObserver:
    def __init__(self):
        self.home: dict[int, int] = {}      # node (relative allocation index) -> index of the tree it was created in
        self.lost = False                   # an unmodelled op was executed
        self.obs: list = []

    # -- encoding ------------------------------------------------------------
    @staticmethod
    def _par(w, node):
        p = node._parent
        if p is None:
            return []
        if any(p is t._root for t in w.trees):
            return [0]
        return [w.rel(p)]

    @staticmethod
    def _ch(w, node):
        c = node._children
        if c is None:
            return []
        return [[w.rel(x) for x in c]]

    def _adopt(self, w, new_ids):
        for n in new_ids:
            nd = w.raw(n)
            t = _HOME_TREE.get(id(nd), getattr(nd, "_tree", None))
            ti = next((i for i, x in enumerate(w.trees) if x is t), -1)
            self.home[n] = ti

    def render(self, w):
        out = []
        for ti, t in enumerate(w.trees):
            nodes = []
            for n in sorted(k for k, v in self.home.items() if v == ti):
                nd = w.raw(n)
                nodes.append([n, self._par(w, nd), self._ch(w, nd), 1 if nd._tree is not None else 0])
            out.append([self._ch(w, t._root), nodes])
        return out

    # -- hook --------------------------------------------------------------------
    def post(self, w, si, step, ctx):
        self._adopt(w, step.get("new_ids", []))
        if not modelled(step["coq"]):
            self.lost = True
        self.obs.append(-1 if self.lost else self.render(w))
        return []

    def peek(self, w, step):
        """observation after `step` without recording it (for alternatives)"""
        return self.obs[-1]
