"""C04 effect oracle: an independent, direct specification of every mutation's documented effect.

Written from the documentation of nutree (doc strings of add_child/move_to/remove/sort_children/
set_data/..., user guide) on plain nested lists.  It shares no code with the Coq model
(coq/theories/Mut/Machine.v) nor with the implementation: it only sees the observation of the
world before the operation (`step["before"]`), the operation, its outcome and the observation after
(`step["after"]`), i.e. per tree `[forest, reg, idx, parents]` with `forest = [[id, payload, [children]]*]`
and `payload = [data object, data_id, kind, meta]`.

For each op the spec answers one of
    ("ok", expected forest of the tree the op works on [, expected result])   new nodes carry id None
    ("refuse",)   documented-invalid: must fail with a library error class, world observably unchanged
    ("fault",)    a user callback raised: must fail with that error, world unchanged
    ("any",)      outside the documented domain: only the frame of the other trees is checked
and `check` compares.  Because the whole forest (identity, data, id, kind, meta, order of every node)
is compared, the *frame condition* - every node not named in the effect keeps identity, data, id,
meta, parent and sibling order - is part of every comparison; trees the op does not name must be
unchanged in every observed component.
"""
from __future__ import annotations

import copy

import common as H

REFUSAL_CLASSES = (1, 2, 3, 4, 5, 6, 7)     # anything but ECrash(8): a deliberate refusal
DEFAULT_KIND = "child"


# ---------------------------------------------------------------------------
# nested-list helpers
# ---------------------------------------------------------------------------
def walk(forest, parent=0):
    for n in forest:
        yield n, parent
        yield from walk(n[2], n[0])


def locate(forest, nid):
    """(sibling list, index, node) of node nid, or None"""
    for i, n in enumerate(forest):
        if n[0] == nid:
            return forest, i, n
        r = locate(n[2], nid)
        if r:
            return r
    return None


def kids(forest, p):
    if p == 0:
        return forest
    r = locate(forest, p)
    return None if r is None else r[2][2]


def branch_ids(node):
    return [node[0]] + [x for c in node[2] for x in branch_ids(c)]


def did_of(node):
    return node[1][1]


def position(lst, before):
    """documented insert position in a non-empty list; None = invalid (`before` node is not a child)"""
    n = len(lst)
    if before is None or before is False:
        return n
    if before is True:
        return 0
    if isinstance(before, int):
        return max(0, n + before) if before < 0 else min(before, n)
    for i, c in enumerate(lst):
        if c[0] == before["n"]:
            return i
    return None


def insert(lst, x, before):
    pos = position(lst, before)
    lst.insert(pos, x)


def fresh_copy(node, deep, top_kind, keep_kinds):
    """expected copy of a branch: ids unknown (None), same data object and data_id, no meta"""
    obj, did, kind, _meta = node[1]

    def rec(n):
        return [None, [n[1][0], n[1][1], n[1][2] if keep_kinds else [], []], [rec(c) for c in n[2]]]

    return [None, [obj, did, top_kind, []], [rec(c) for c in node[2]] if deep else []]


def same_modulo_new(exp, got, new_ids, used):
    """structural equality where id None in `exp` matches any unused id from new_ids"""
    if len(exp) != len(got):
        return False
    for e, g in zip(exp, got):
        if e[0] is None:
            if g[0] not in new_ids or g[0] in used:
                return False
            used.add(g[0])
        elif e[0] != g[0]:
            return False
        if e[1] != g[1]:
            return False
        if not same_modulo_new(e[2], g[2], new_ids, used):
            return False
    return True


# ---------------------------------------------------------------------------
class Ctx:
    def __init__(self, step, w):
        self.step = step
        self.w = w
        self.before = step["before"]

    def forest(self, ti):
        return copy.deepcopy(self.before[ti][0])

    def typed(self, ti):
        return isinstance(self.w.trees[ti], H.TypedTree)

    def calc(self, ti, obj):
        """data_id the tree's id callback gives to a data object; raises KeyError('fault') if it raises"""
        spec = self.w.calcs[ti]
        if spec is None:
            return hash(obj)
        if isinstance(spec, str):
            spec = {"fn": spec, "raise": []}
        if any(obj is self.w.U.objs[i] for i in spec.get("raise", []) + spec.get("unhashable", [])):
            raise Fault()           # the hook raises, or returns a value that cannot be a data_id
        return {"hash": hash, "name": lambda d: f"{d}", "mod7": lambda d: hash(d) % 7}[spec["fn"]](obj)

    def obj(self, d):
        return self.w.U.index(self.w.U.objs[d])


class Fault(Exception):
    pass


def kind_sx(k):
    return [] if k is None else [k]


def spec_add_at(c: Ctx, ti, p, d, did, kind, before):
    f = c.forest(ti)
    ch = kids(f, p)
    if ch is None:
        return ("any",)
    if isinstance(before, dict) and position(ch, before) is None:
        return ("refuse",)
    if isinstance(did, dict):           # an unhashable explicit data_id: refused, nothing may change
        raise Fault()
    new_id = did if did is not None else c.calc(ti, c.w.U.objs[d])
    nd = H.sx_did(new_id)
    if any(did_of(x) == nd for x in ch):
        return ("refuse",)
    k = kind_sx(kind if kind is not None else DEFAULT_KIND) if c.typed(ti) else []
    node = [None, [c.obj(d), nd, k, []], []]
    if ch:
        insert(ch, node, before)
    else:
        ch.append(node)
    return ("ok", f, "new")


def spec(c: Ctx):
    op = c.step["op"]
    k = op[0]
    if k == "new":
        return ("any",)
    if k == "add":
        _, ti, p, d, did, kind, before = op
        return spec_add_at(c, ti, p, d, did, kind, before)
    if k == "short":
        _, ti, n, how, d, did, kind = op
        f = c.forest(ti)
        if how == "append_child":
            return spec_add_at(c, ti, n, d, did, kind, None)
        if how == "prepend_child":
            return spec_add_at(c, ti, n, d, did, kind, True)
        loc = locate(f, n)
        par = next(p for x, p in walk(f) if x[0] == n)
        own_kind = loc[2][1][2][0] if loc[2][1][2] else None     # "a new node of same kind"
        if how == "prepend_sibling":
            return spec_add_at(c, ti, par, d, did, own_kind, {"n": n})
        nxt = loc[0][loc[1] + 1][0] if loc[1] + 1 < len(loc[0]) else None
        return spec_add_at(c, ti, par, d, did, own_kind, None if nxt is None else {"n": nxt})
    if k == "move":
        _, ti, n, tti, target, before = op
        if c.typed(ti) or ti != tti:
            return ("refuse",)
        f = c.forest(ti)
        lst, i, node = locate(f, n)
        if target in branch_ids(node):
            return ("refuse",)
        tch = kids(f, target)
        if isinstance(before, dict) and position(tch, before) is None:
            return ("refuse",)
        cur = next(p for x, p in walk(f) if x[0] == n)
        if cur != target and any(did_of(x) == did_of(node) for x in tch):
            return ("refuse",)
        if isinstance(before, dict) and before["n"] == n:
            return ("ok", f, [])
        del lst[i]
        tch = kids(f, target)
        if tch:
            insert(tch, node, before)
        else:
            tch.append(node)
        return ("ok", f, [])
    if k == "remove":
        _, ti, n, keep, wc = op
        f = c.forest(ti)
        node = locate(f, n)[2]
        victims = [x[0] for x, _ in walk(f) if did_of(x) == did_of(node)] if wc else [n]

        def contract(lst):
            out = []
            for x in lst:
                if x[0] in victims:
                    out.extend(contract(x[2]) if keep else [])
                else:
                    out.append([x[0], x[1], contract(x[2])])
            return out

        g = contract(f)
        if keep:
            for x, _ in list(walk(g)) + [([0, None, g], 0)]:
                ds = [did_of(y) for y in x[2]]
                if any(ds.count(v) > 1 for v in ds):
                    return ("refuse",)
        return ("ok", g, [])
    if k == "remove_children":
        _, ti, n = op
        f = c.forest(ti)
        del kids(f, n)[:]
        return ("ok", f, [])
    if k == "clear":
        return ("ok", [], [])
    if k == "del":
        _, ti, key = op
        f = c.forest(ti)
        if "nid" in key:
            m = [key["nid"]]
        else:
            if "id" in key:
                kv = key["id"]
                obj = kv
            else:
                obj = c.w.U.objs[key["d"]]
                kv = obj if isinstance(obj, (int, str)) and not isinstance(obj, bool) else None
            m = [x[0] for x, _ in walk(f) if kv is not None and did_of(x) == H.sx_did(kv)]
            if not m:
                cd = H.sx_did(c.calc(ti, obj))
                m = [x[0] for x, _ in walk(f) if did_of(x) == cd]
        if len(m) != 1:
            return ("refuse",)
        lst, i, _ = locate(f, m[0])
        del lst[i]
        return ("ok", f, [])
    if k == "set_data":
        _, ti, n, d, did, wc = op
        return spec_set_data(c, ti, n, d, did, wc)
    if k == "rename":
        _, ti, n, d = op
        node = locate(c.forest(ti), n)[2]
        if not isinstance(c.w.U.objs[node[1][0]], str):
            return ("refuse",)
        return spec_set_data(c, ti, n, d, None, None)
    if k == "meta":
        _, ti, n, mo = op
        f = c.forest(ti)
        node = locate(f, n)[2]
        m = [list(e) for e in node[1][3]]
        keys = [e[0] for e in m]

        def setk(kk, vv):
            if kk in keys:
                m[keys.index(kk)][1] = H.meta_val(vv)
            else:
                m.append([kk, H.meta_val(vv)])
                keys.append(kk)

        if mo[0] == "set":
            if mo[2] is None:
                m = [e for e in m if e[0] != mo[1]]
            else:
                setk(mo[1], mo[2])
        elif mo[0] == "clear":
            m = [] if mo[1] is None else [e for e in m if e[0] != mo[1]]
        else:
            if mo[2]:
                m, keys = [], []
            for kk, vv in mo[1].items():
                setk(kk, vv)
        node[1][3] = m
        return ("ok", f, [])
    if k == "sort":
        return ("sort",)
    if k == "addnode":
        _, ti, p, sti, src, did, kind, before, deep = op
        if c.typed(ti) != c.typed(sti):
            return ("refuse",)
        f = c.forest(ti)
        sf = f if sti == ti else c.forest(sti)
        s = locate(sf, src)[2]
        ch = kids(f, p)
        if deep and did is not None:
            return ("refuse",)
        if did is not None and H.sx_did(did) != did_of(s):
            return ("refuse",)
        if any(did_of(x) == did_of(s) for x in ch):
            return ("refuse",)
        if deep and sti == ti and p in branch_ids(s):
            return ("refuse",)
        if isinstance(before, dict) and position(ch, before) is None:
            return ("refuse",)
        typed = c.typed(ti)
        node = fresh_copy(s, bool(deep), kind_sx(kind if kind is not None else DEFAULT_KIND) if typed else [], typed)
        if ch:
            insert(ch, node, before)
        else:
            ch.append(node)
        return ("ok", f, "new")
    if k == "copyto":
        _, sti, src, ti, target, add_self, before, deep = op
        if c.typed(ti) != c.typed(sti):
            return ("refuse",)
        f = c.forest(ti)
        sf = f if sti == ti else c.forest(sti)
        typed = c.typed(ti)
        if add_self:
            return spec_with_op(c, ["addnode", ti, target, sti, src, None, None, before, deep])
        srcs = kids(sf, src)
        ch = kids(f, target)
        if not srcs:
            return ("refuse",)
        if any(did_of(x) == did_of(s) for x in ch for s in srcs):
            return ("refuse",)
        if deep and sti == ti and any(target in branch_ids(s) for s in srcs):
            return ("refuse",)
        ch.extend(fresh_copy(s, bool(deep), kind_sx(DEFAULT_KIND) if typed else [], typed) for s in copy.deepcopy(srcs))
        return ("ok", f, None if src == 0 else "first")
    if k == "addtree":
        _, ti, p, sti, before, deep = op
        if c.typed(ti) and not c.typed(sti):
            return ("refuse",)
        if c.typed(ti) != c.typed(sti):
            return ("any",)
        f = c.forest(ti)
        sf = f if sti == ti else c.forest(sti)
        ch = kids(f, p)
        deep = True if deep is None else deep
        if not sf:                      # an empty source tree: nothing to add, `before` is not even looked at
            return ("ok", f, None)
        if any(did_of(x) == did_of(s) for x in ch for s in sf):
            return ("refuse",)
        if deep and sti == ti and any(p in branch_ids(s) for s in sf):
            return ("refuse",)
        if isinstance(before, dict) and sf and position(ch, before) is None:
            return ("refuse",)
        typed = c.typed(ti)
        block = [fresh_copy(s, deep, kind_sx(DEFAULT_KIND) if typed else [], typed) for s in copy.deepcopy(sf)]
        pos = position(ch, before) if ch else 0
        ch[pos:pos] = block
        return ("ok", f, None)
    if k in ("treecopy", "nodecopy"):
        return ("newtree",)
    if k == "from_dict":
        _, ti, p, items = op
        f = c.forest(ti)
        ch = kids(f, p)
        if ch:                          # documented for an empty node only (assert)
            return ("refuse",)
        built = build_items(c, items, c.typed(ti), lambda obj: c.calc(ti, obj))
        if built is None:
            return ("refuse",)
        ch.extend(built)
        return ("ok", f, [])
    if k == "tree_from_dict":
        built = build_items(c, op[1], False, hash)
        return ("newtree_items", built)
    if k == "filter":
        _, ti, n, verd = op
        f = c.forest(ti)
        state = {"stopped": False}
        if any(v.rstrip("!") == "raise" for v in verd.values()):
            return ("any",)

        def filt(lst):
            out = []
            for x in lst:
                v = "skip" if state["stopped"] else verd.get(str(x[0]), "T").rstrip("!")
                if v == "stop":          # the node that stops and everything after it is not accepted
                    state["stopped"] = True
                    v = "skip"
                if v == "T":
                    out.append([x[0], x[1], filt(x[2])])
                elif v in ("F", "N"):    # kept only as the ancestor of an accepted node
                    ch = filt(x[2])
                    if ch:
                        out.append([x[0], x[1], ch])
                elif v == "skip_keep":
                    out.append([x[0], x[1], []])
                elif v == "select":
                    out.append(x)
            return out

        ch = kids(f, n)
        ch[:] = filt(ch)
        return ("ok", f, [])
    return ("any",)


def build_items(c, items, typed, calc):
    """nested list-of-dicts -> expected new branches (ids unknown); None if two siblings would share a data_id"""
    out = []
    for d, did, sub in items:
        if isinstance(did, dict):
            raise Fault()
        nd = H.sx_did(did if did is not None else calc(c.w.U.objs[d]))
        if any(did_of(x) == nd for x in out):
            return None
        below = build_items(c, sub, typed, calc)
        if below is None:
            return None
        out.append([None, [c.obj(d), nd, kind_sx(DEFAULT_KIND) if typed else [], []], below])
    return out


def spec_with_op(c, op):
    c2 = Ctx(dict(c.step, op=op), c.w)
    return spec(c2)


def spec_set_data(c: Ctx, ti, n, d, did, wc):
    f = c.forest(ti)
    node = locate(f, n)[2]
    if d is None and did is None:
        return ("refuse",)
    if isinstance(did, dict):           # an unhashable explicit data_id
        raise Fault()
    new_obj = None
    if d is not None and c.obj(d) != node[1][0]:
        new_obj = c.obj(d)
        if did is None:
            did = c.calc(ti, c.w.U.objs[d])
    new_did = None
    if did is not None and H.sx_did(did) != did_of(node):
        new_did = H.sx_did(did)
    group = [x for x, _ in walk(f) if did_of(x) == did_of(node)]
    if len(group) > 1 and wc is None:
        return ("refuse",)
    targets = group if (wc and len(group) > 1) else [node]
    if new_did is not None:
        for t in targets:
            lst = locate(f, t[0])[0]
            if any(did_of(s) == new_did for s in lst if all(s is not g for g in targets)):
                return ("refuse",)
    for t in targets:
        if new_did is not None:
            t[1][1] = new_did
        if new_obj is not None:
            t[1][0] = new_obj
    return ("ok", f, [])


# ---------------------------------------------------------------------------
def check_sort(c: Ctx, step):
    op = step["op"]
    _, ti, p, keyfn, reverse, deep = op
    bf = step["before"][ti][0]
    af = step["after"][ti][0]
    tbl = (keyfn or {}).get("tbl", {})

    def key(node):
        if str(node[0]) in tbl:
            return tbl[str(node[0])]
        return f"{c.w.U.objs[node[1][0]]}"

    region = []          # child lists that must come out sorted

    def collect(lst, inside, depth):
        ok = True
        for x in lst:
            collect(x[2], inside or x[0] == p, 0)
    # walk both trees in parallel through identity
    amap = {x[0]: x for x, _ in walk(af)}
    bmap = {x[0]: x for x, _ in walk(bf)}
    if set(amap) != set(bmap):
        return "sort changed the set of nodes"

    def sorted_lists(node_id, top):
        """ids of the parents whose child lists are in the sorted region"""
        out = [node_id]
        if deep:
            lst = bf if node_id == 0 else bmap[node_id][2]
            for x in lst:
                out.extend(sorted_lists(x[0], False))
        return out

    region = set(sorted_lists(p, True))
    faulty = False
    for par in [0] + list(bmap):
        bl = bf if par == 0 else bmap[par][2]
        al = af if par == 0 else amap[par][2]
        if sorted(x[0] for x in bl) != sorted(x[0] for x in al):
            return f"sort: children of {par} are not a permutation of what they were"
        if [x[1] for x in sorted(bl, key=lambda x: x[0])] != [x[1] for x in sorted(al, key=lambda x: x[0])]:
            return f"sort changed the payload of a child of {par}"
        if par in region and any(key(x) is None for x in bl):
            faulty = True
    if faulty:
        # whether the key of a single child is evaluated at all is not documented: any outcome,
        # as long as every child list is still a permutation with unchanged payloads (checked above)
        return None
    if step["res"][0] != 0:
        return f"sort failed with {step['res']}"
    for par in [0] + list(bmap):
        bl = bf if par == 0 else bmap[par][2]
        al = af if par == 0 else amap[par][2]
        if par not in region:
            if [x[0] for x in bl] != [x[0] for x in al]:
                return f"sort: children of {par} are outside the sorted region but were reordered"
            continue
        ks = [key(x) for x in al]
        for a, b in zip(ks, ks[1:]):
            if (a < b) if reverse else (a > b):
                return f"sort: children of {par} are not ordered by key (reverse={reverse})"
        # stability: equal keys keep their original relative order (also with reverse=True)
        orig = {x[0]: i for i, x in enumerate(bl)}
        for x, y in zip(al, al[1:]):
            if key(x) == key(y) and orig[x[0]] > orig[y[0]]:
                return f"sort: children of {par} with equal keys changed their relative order (not stable)"
    return None


def check_newtree(c: Ctx, step):
    op = step["op"]
    if step["res"][0] != 0:
        return f"{op[0]} failed with {step['res']}"
    nti = step["res"][1][0]
    if nti != len(step["before"]) or len(step["after"]) != nti + 1:
        return f"{op[0]}: no new tree"
    if step["after"][:nti] != step["before"]:
        return f"{op[0]} changed an existing tree (the source must be left unchanged)"
    sti = op[1]
    sf = step["before"][sti][0]
    typed = c.typed(sti)
    if op[0] == "treecopy":
        exp = [fresh_copy(s, True, s[1][2], typed) for s in sf]
    else:
        s = locate(sf, op[2])[2]
        if op[3]:
            exp = [fresh_copy(s, True, kind_sx(DEFAULT_KIND) if typed else [], typed)]
        else:
            exp = [fresh_copy(x, True, x[1][2], typed) for x in s[2]]
    if not same_modulo_new(exp, step["after"][nti][0], set(step["new_ids"]), set()):
        return f"{op[0]}: the copy is not faithful (same data objects, data_ids, kinds, order; fresh nodes)"
    return None


def check(step, w=None):
    """None, or a message saying how the step deviates from the documented effect."""
    if w is None:
        return None
    op = step["op"]
    res = step["res"]
    if res == [1, 99]:
        return None
    c = Ctx(step, w)
    try:
        s = spec(c)
    except Fault:
        s = ("fault",)
    before, after = step["before"], step["after"]
    name = op[0]
    if s[0] == "any":
        return frame_others(op, before, after, None)
    if s[0] == "sort":
        return check_sort(c, step) or frame_others(op, before, after, op[1])
    if s[0] == "newtree":
        return check_newtree(c, step)
    if s[0] == "newtree_items":
        if s[1] is None:
            if res[0] != 1 or res[1] not in REFUSAL_CLASSES or before != after:
                return f"effect: {name} with duplicate sibling ids must be refused and leave the world unchanged (result {res})"
            return None
        if res[0] != 0 or len(after) != len(before) + 1 or after[:len(before)] != before:
            return f"effect: {name} must add exactly one new tree and touch no other (result {res})"
        if not same_modulo_new(s[1], after[-1][0], set(step["new_ids"]), set()):
            return f"effect: {name}: the new tree is {brief(after[-1][0])} but the items give {brief(s[1])}"
        return None
    if s[0] == "refuse":
        if res[0] != 1 or res[1] not in REFUSAL_CLASSES:
            return f"effect: {name} with documented-invalid arguments was not refused (result {res})"
        if before != after:
            return f"effect: {name} was refused but the tree changed"
        return None
    if s[0] == "fault":
        if res[0] != 1:
            return f"effect: {name}: the id callback raised but the call succeeded"
        if before != after:
            return f"effect: {name}: the id callback raised and the tree changed"
        return None
    # ok
    if res[0] != 0:
        return f"effect: {name} with valid arguments failed with {H.ERR_NAMES.get(res[1], res[1])}"
    ti = op[1] if name not in ("copyto",) else op[3]
    exp = s[1]
    got = after[ti][0]
    used = set()
    if not same_modulo_new(exp, got, set(step["new_ids"]), used):
        if brief(got) == brief(exp).replace("None", "?") or brief(got) == brief(exp):
            gp = {x[0]: x[1] for x, _ in walk(got)}
            for x, _ in walk(exp):
                if x[0] is not None and gp.get(x[0]) != x[1]:
                    return f"effect: {name}: node {x[0]} has payload [data, data_id, kind, meta] = {gp.get(x[0])} but the documented effect gives {x[1]}"
        return f"effect: {name}: tree is {brief(got)} but the documented effect gives {brief(exp)}"
    want = s[2]
    if want == "new":
        newtop = [x for x in used]
        if len(res[1]) != 1 or res[1][0] not in used:
            return f"effect: {name} did not return the new node"
    elif want == []:
        if res[1] != []:
            return f"effect: {name} returned {res[1]}"
    return frame_others(op, before, after, ti)


def frame_others(op, before, after, ti):
    for i, b in enumerate(before):
        if i == ti:
            continue
        if op[0] in ("filter", "from_dict", "new", "addtree") and ti is None and i == op[1]:
            continue
        if i >= len(after) or after[i] != b:
            return f"effect: {op[0]} changed tree {i}, which it does not name"
    return None


def brief(forest):
    def r(n):
        return f"{n[0]}" + ("(" + " ".join(r(c) for c in n[2]) + ")" if n[2] else "")
    return "[" + " ".join(r(n) for n in forest) + "]"
