"""History engine for the Layer-B (mutation machine) properties C01-C04, C07, C13.

One *history* is a JSON-able dict

    {"univ": [SPEC*], "ops": [OP*]}

`univ` is the data universe (harness/build.py specs: ``s:<str> i:<int> t:<a,b>
e:<v>`` value-equal objects - two ``e:1`` entries are equal but distinct -,
``p:<v>`` identity-hashed, ``d:<v>`` frozen dataclass, ``w:<v>`` DictWrapper).
Data objects are named by their index in `univ`; nodes by their *relative
allocation index* (1 = first node object constructed while the history runs,
0 = the system root of the tree named next to it); trees by creation order.
The ops mirror `Machine.op` (coq/theories/Mut/Machine.v) one to one:

    ["new", typed, CALC]                               ONewTree
    ["add", ti, p, d, DID, KIND, BEFORE]               OAdd        p.add_child(data)
    ["short", ti, n, HOW, d, DID, KIND]                OShort      append_child|prepend_child|prepend_sibling|append_sibling
    ["addnode", ti, p, sti, src, DID, KIND, BEFORE, DEEP]   OAddNode   p.add_child(node)
    ["addtree", ti, p, sti, BEFORE, DEEP]              OAddTree    p.add_child(tree)
    ["copyto", sti, src, ti, target, add_self, BEFORE, deep]  OCopyTo  (src = 0: Tree.copy_to)
    ["treecopy", sti]                                  OTreeCopy   Tree.copy()
    ["nodecopy", sti, src, add_self]                   ONodeCopy   Node.copy()
    ["move", ti, n, tti, target, BEFORE]               OMove       (target = 0: the Tree object; tti != ti: a node of another tree)
    ["remove", ti, n, keep_children, with_clones]      ORemove
    ["remove_children", ti, n]                         ORemoveChildren
    ["clear", ti]                                      OClear
    ["del", ti, KEY]                                   ODel        del tree[key]
    ["sort", ti, p, KEYFN, reverse, deep]              OSort       (p = 0: Tree.sort)
    ["set_data", ti, n, d|null, DID, with_clones|null] OSetData
    ["rename", ti, n, d]                               ORename
    ["meta", ti, n, METAOP]                            OMeta
    ["filter", ti, n, VERDICTS]                        OFilter     (n = 0: Tree.filter)
    ["from_dict", ti, p, ITEMS]                        OFromDict   Node.from_dict
    ["tree_from_dict", ITEMS]                          OTreeFromDict  Tree.from_dict

    CALC    null | "name" | "mod7" | {"fn": "hash"|"name"|"mod7", "raise": [d*], "unhashable": [d*]}   (calc_data_id callback; raises on /
            returns a list for the listed data; either way the machine's id table has no entry and the outcome is ECrash, see outcome_of)
    DID     null | int | str | {"u": [..]}   explicit data_id; {"u": ..} = a list, i.e. UNHASHABLE (only with data the tree's hook has no id for)
    KIND    null | str                 (dropped for plain trees)
    BEFORE  null | true | false | int | {"n": node}
    DEEP    null | true | false
    KEY     {"d": d} | {"id": DID} | {"nid": node}
    KEYFN   null (default key = name) | {"tbl": {"<node>": str|null}}   (null entry: the key callback raises; absent: name)
    METAOP  ["set", k, v|null] | ["clear", k|null] | ["update", {k: v}, replace]
    VERDICTS {"<node>": "T"|"F"|"N"|"skip"|"skip_keep"|"select"|"stop"|"raise"}   (absent: "T"; a trailing "!" raises the control instead of returning it)
    ITEMS   [[d, DID, ITEMS]*]

API
---
``replay(hist, oracles=(...), queries=True) -> Run``   (queries: after every step - or from step index `queries` on - the
    read-only API is called on every tree, `run_queries`; results are not compared here, the calls warm whatever caches exist)
    runs the history on the nutree found in NUTREE_REPO.  Every op runs inside try/except;
    the outcome is ``[0, [ids]]`` (returned node / new tree index) or ``[1, common.err_class(e)]``.
    An op whose node/tree references are not live (never generated; can appear while shrinking)
    is not executed and gives ``[1, 99]`` exactly as `CaseMut.step_chk`.  After EVERY step the full
    state of every tree is observed through pointers and the public API and rendered exactly like
    `CaseMut.sx_world_x` (= `Machine.sx_world` plus, per node, `node.parent` and `node.tree`):
        tree  = [forest, reg, idx, parents]
        forest = [[id, [obj, did, kind, meta], [children]]*]   by `_children` identity walk
        reg    = `_node_by_id` values in dict order;  idx = `_nodes_by_data_id` items in dict order
        parents = [[id, id of node.parent (0 = none), 1 if node.tree is the tree else 0]*] in pre-order
    Run fields: ``obs`` (list of [res, world] per step = `CaseMut.run_hist`), ``coq`` (the Coq term of
    the same history, a `list op`), ``steps`` (dicts: op, res, before, after, new_ids, coq), ``fails``
    (list of (step index, oracle name, message)), ``stats``.
``coq_case(run)``, ``coq_alts(setup_run, alt_runs)``  Coq terms of type `CaseMut.mcase`.
Oracles (independent of the Coq model and of the code under test; all walk pointers by identity):
    ``wf_oracle(tree)``       C01: reachable = counted, parent/child consistency, owner, node ids unique, no zombie
    ``index_oracle(tree)``    C02: index groups exact, public lookups exact
    ``sibling_oracle(tree)``  C03: no two children of one parent with equal data_id
    ``refusal_oracle(step)``  C13: after a library refusal the observable state is unchanged
    ``caller_oracle(world)``   C04 frame on the caller's side: the ONE dict the replayer passes to update_meta() for equal
                              payloads (and mutates after each call) and the lists passed to from_dict stay the caller's;
                              run together with the effect oracle
    ``effect_oracle(step, world)``  C04: documented effect + frame condition (harness/mut_spec.py, an independent
                              specification of every op on nested lists)
    (the three tree oracles take an optional second argument `world` so that messages name nodes by relative id)
``run_group(group, oracles)`` replays one exhaustive group (setup + every alternative) and returns
``(coq term CAlts, observation, [Run])``; ``first(iterable)``; ``World`` (rel/raw/live_node/obs...) is the
implementation side of a running history (use ``replay(..., keep_world=True).world`` to probe the live trees
after a history, e.g. for C02 lookups or C07 independence checks); ``execute(world, op)`` runs one op.
Generators: ``gen_shapes(shapes, ...)`` (explicit deeper shapes, EXTRA_SHAPES), ``gen_exhaustive(nmax, ...)`` (every single op with every argument on every forest <= nmax
nodes, as (setup, alternatives) groups), ``gen_random(rng, n_ops, ...)`` (mostly-valid histories),
``gen_malformed(rng, n_ops)`` (invalid `before`, colliding ids, foreign targets, moves into the own
branch; removed nodes are never referenced).  ``shrink_candidates(hist)``: drop ops, drop setup nodes.
``gen_addtree()``: two-tree worlds x every add(tree)/copy_to argument.  ``setup_ops(nodes, ti, typed)``: the add ops that
build a forest given in build.py NODE format.  ``Gen``: the stateful generator behind gen_random (``Gen(rng).step()``).
``compact_universe(hist)``, ``renumber(op, dropped_ids)``: shrinking helpers.
``CORPUS``: minimal witnesses of the defects repaired by fixes/D*.diff (each fails on the unchanged code) and regression
histories (ids starting with R-).
A property module is a thin wrapper: ``descs`` yields histories / groups from the generators, ``run`` calls ``replay`` or
``run_group`` with the oracles it owns, uses ``coq_case``/``coq_alts`` as Coq input for `CaseMut.run_mut` (or feeds
``Run.coq`` to its own case function) and ``Run.fails`` as oracle verdict; see harness/props/C04.py.
"""
from __future__ import annotations

import copy as _copy
import json
import random
import sys

import build as B
import common as H
from common import Tree, TypedTree, Node

from nutree.common import (AmbiguousMatchError, SelectBranch, SkipBranch, StopTraversal,  # noqa: F401
                           UniqueConstraintError)

EMODEL = 99
LIB_ERRORS = (1, 2, 3, 5)          # EUnique EAmbiguous EValue ENotImpl: "the library's errors"
DEFAULT_KIND = "child"
OP_RECURSION_LIMIT = 400
MAX_DEPTH = 100             # observation cut-off: deeper structures render as [-3, [], []] (the model never does)
CALLER_MARK = "__caller__"  # key the harness adds to ITS OWN dict after update_meta returned


class CallbackFault(Exception):
    """Raised by harness callbacks (calc_data_id / sort key / predicate) on demand."""


# ---------------------------------------------------------------------------
# Coq rendering helpers
# ---------------------------------------------------------------------------
def coq_before(b):
    if b is None:
        return "BNone"
    if b is True:
        return "BTrue"
    if b is False:
        return "BFalse"
    if isinstance(b, int):
        return f"(BIdx {H.z(b)})"
    return f"(BNode {int(b['n'])})"


def coq_obool(b):
    return "None" if b is None else f"(Some {H.coq_bool(b)})"


def coq_odid(d):
    return "None" if d is None else f"(Some {H.coq_did(d)})"


def is_unhashable(did):
    """DID form {"u": [...]}: an explicit data_id that is a list (unhashable)"""
    return isinstance(did, dict) and "u" in did


def py_did(did):
    return list(did["u"]) if is_unhashable(did) else did


def outcome_of(e):
    """[1, class] of an exception an op raised.  A data_id the tree cannot use - the `calc_data_id` hook raised, or
    the hook / the caller supplied an unhashable value (TypeError: unhashable type) - is ONE outcome, ECrash(8),
    which is what the machine answers when its id table has no entry for the data object."""
    if isinstance(e, CallbackFault) or (isinstance(e, TypeError) and "unhashable" in str(e)):
        return [1, 8]
    return [1, H.err_class(e)]


def coq_kind(k):
    return H.coq_opt(k, H.coq_text)


def did_sx(d):
    """total version of common.sx_did: a data_id the model cannot produce (None of a zombie) renders as [2, 0]"""
    try:
        return H.sx_did(d)
    except TypeError:
        return [2, 0]


def meta_sx(meta):
    return [[str(k), H.meta_val(v)] for k, v in (meta or {}).items()]


# ---------------------------------------------------------------------------
class World:
    """The implementation side of a running history."""

    def __init__(self, univ):
        self.univ_specs = list(univ)
        self.U = B.make_universe(univ)
        self.base = H.alloc_count()
        self.trees: list = []
        self.calcs: list = []
        self.caller_dicts: dict = {}     # update_meta payload (json) -> the ONE dict object the caller passes for it
        self.caller_msgs: list = []      # aliasing found while an op ran (from_dict arguments)
        self.caller_keys: dict = {}      # sort key table (json) -> the ONE key function the caller passes for it

    # -- references -----------------------------------------------------
    def rel(self, node) -> int:
        if node is None:
            return -1
        k = H.nid(node)
        return 0 if k == 0 else k - self.base

    def allocated(self) -> int:
        return H.alloc_count() - self.base

    def raw(self, n):
        if not isinstance(n, int) or n < 1 or n > self.allocated():
            return None
        return H._KEEP[self.base + n - 1]

    def live_node(self, n, ti=None):
        """The node object if it is registered in a tree of this world (in tree `ti` if given)."""
        nd = self.raw(n)
        if nd is None:
            return None
        t = nd._tree
        if t is None or not any(t is x for x in self.trees):
            return None
        if ti is not None and (ti >= len(self.trees) or t is not self.trees[ti]):
            return None
        if t._node_by_id.get(nd._node_id) is not nd:
            return None
        return nd

    def tree(self, ti):
        return self.trees[ti] if isinstance(ti, int) and 0 <= ti < len(self.trees) else None

    def parent_ref(self, ti, p):
        """Node object for a parent reference: 0 = system root of tree ti."""
        t = self.tree(ti)
        if t is None:
            return None
        return t._root if p == 0 else self.live_node(p, ti)

    def dobj(self, d):
        return self.U.objs[d]

    def dcanon(self, d) -> int:
        return self.U.index(self.U.objs[d])

    def coq_dat(self, d) -> str:
        a = self.U.info(self.U.objs[d])
        return f"(D {H.z(a['obj'])} {H.z(a['eqc'])} {H.z(a['hash'])} {H.coq_bool(a['isstr'])} {H.coq_text(a['name'])})"

    # -- calc_data_id callbacks -------------------------------------------
    def calc_fn(self, spec):
        if spec is None:
            return None
        if isinstance(spec, str):
            spec = {"fn": spec, "raise": []}
        base = {"hash": lambda d: hash(d), "name": lambda d: f"{d}", "mod7": lambda d: hash(d) % 7}[spec["fn"]]
        bad = [self.U.objs[i] for i in spec.get("raise", [])]
        unh = [self.U.objs[i] for i in spec.get("unhashable", [])]

        def fn(tree, data):
            if any(data is b for b in bad):
                raise CallbackFault("calc_data_id")
            if any(data is b for b in unh):
                return [base(data)]          # a list: not usable as a key
            return base(data)

        fn.base = base
        fn.bad = bad + unh                   # the machine's id table has no entry for either
        return fn

    def no_id_for(self, ti, d) -> bool:
        """tree ti's id hook yields no usable id for data object d"""
        spec = self.calcs[ti] if isinstance(ti, int) and 0 <= ti < len(self.calcs) else None
        if not isinstance(spec, dict) or d is None:
            return False
        return self.dcanon(d) in [self.dcanon(i) for i in spec.get("raise", []) + spec.get("unhashable", [])]

    def coq_explicit(self, ti, d, did) -> str:
        """Coq `option did` of an explicit data_id.  An unhashable explicit id has no counterpart in the machine's
        `did`; it is only generated for a data object the tree's hook has no usable id for either, and rendered as
        'no explicit id': the machine then answers ECrash from its id table, the same outcome (see outcome_of)."""
        if is_unhashable(did):
            if not self.no_id_for(ti, d):
                raise NotLive()
            return "None"
        return coq_odid(did)

    def coq_calc(self, spec) -> str:
        if spec is None:
            return "None"
        fn = self.calc_fn(spec)
        ents = []
        for i, o in enumerate(self.U.objs):
            if self.U.index(o) != i:
                continue
            if any(o is b for b in fn.bad):
                ents.append(f"({i}, None)")
            else:
                ents.append(f"({i}, Some {H.coq_did(fn.base(o))})")
        return f"(Some {H.coq_list(ents)})"

    # -- observation --------------------------------------------------------
    def obs_node(self, n, depth=0):
        if depth > MAX_DEPTH:            # a cycle or a runaway copy: cut, the model can never agree
            return [-3, [], []]
        a = self.U.index(n._data) if n._data is not None or True else -1
        kind = getattr(n, "_kind", None) if isinstance(n, H.TypedNode) else None
        return [self.rel(n), [a, did_sx(n._data_id), H.sx_kind(kind), meta_sx(n._meta)],
                [self.obs_node(c, depth + 1) for c in (n._children or [])]]

    def obs_tree(self, t):
        forest = [self.obs_node(c) for c in (t._root._children or [])]
        reg = [self.rel(n) for n in t._node_by_id.values()]
        idx = [[did_sx(k), [self.rel(n) for n in v]] for k, v in t._nodes_by_data_id.items()]
        parents = []

        def walk(n, depth=0):
            if depth > MAX_DEPTH:
                return
            for c in (n._children or []):
                try:
                    p = c.parent                  # public property: None for top-level nodes
                    pr = 0 if p is None else self.rel(p)
                except Exception:                 # a zombie: the property itself fails
                    pr = -2
                parents.append([self.rel(c), pr, 1 if c.tree is t else 0])
                walk(c, depth + 1)

        walk(t._root)
        return [forest, reg, idx, parents]

    def obs(self):
        return [self.obs_tree(t) for t in self.trees]


# ---------------------------------------------------------------------------
def _bef(w: World, b):
    """python value of a BEFORE argument; (value, ok)"""
    if isinstance(b, dict):
        nd = w.live_node(b["n"])
        return nd, nd is not None
    return b, True


VERDICTS = ("T", "F", "N", "skip", "skip_keep", "select", "stop", "raise")


def _verdict(v):
    rais = v.endswith("!")
    v = v.rstrip("!")
    val = {"T": True, "F": False, "N": None}.get(v, v)
    if val == "skip":
        val = SkipBranch()
    elif val == "skip_keep":
        val = SkipBranch(and_self=False)
    elif val == "select":
        val = SelectBranch()
    elif val == "stop":
        val = StopTraversal()
    elif val == "raise":
        raise CallbackFault("predicate")
    if rais and isinstance(val, Exception):
        raise val
    return val


def coq_verdict(v):
    v = v.rstrip("!")
    return {"T": "VTrue", "F": "VFalse", "N": "VFalse", "skip": "VSkip", "skip_keep": "VSkipKeep", "select": "VSelect",
            "stop": "VStop", "raise": "VRaise"}[v]


def _items_py(w, items):
    out = []
    for d, did, ch in items:
        it = {"data": w.dobj(d)}
        if did is not None:
            it["data_id"] = py_did(did)
        if ch:
            it["children"] = _items_py(w, ch)
        out.append(it)
    return out


def _items_coq(w, items, ti=None):
    return H.coq_list(f"(DI {w.coq_dat(d)} {w.coq_explicit(ti, d, did)} {_items_coq(w, ch, ti)})" for d, did, ch in items)


def _call_from_dict(w, fn, items):
    """call from_dict with caller-owned lists/dicts, check the library did not change them, then let the
    caller go on using (mutating) them: a library that keeps the caller's lists shows it in the next observation"""
    arg = _items_py(w, items)
    snap = _items_py(w, items)
    try:
        return fn(arg)
    finally:
        if not _same_items(arg, snap):
            w.caller_msgs.append("from_dict changed the list of dicts the caller passed")

        def scribble(l):
            for it in l:
                scribble(it.get("children", []))
                it["data"] = "<caller reuses its dict>"
            l.append({"data": "<caller reuses its list>"})

        scribble(arg)


def _same_items(a, b):
    if len(a) != len(b):
        return False
    for x, y in zip(a, b):
        if set(x) != set(y) or x["data"] is not y["data"] or x.get("data_id") != y.get("data_id"):
            return False
        if not _same_items(x.get("children", []), y.get("children", [])):
            return False
    return True


def caller_oracle(w):
    """C04 frame, caller side: objects the caller passed in (update_meta dicts, from_dict lists) are the
    caller's; editing a node must never change them."""
    if w.caller_msgs:
        return "alias: " + w.caller_msgs[0]
    for slot in w.caller_dicts.values():
        if not slot["used"]:
            continue
        exp = dict(slot["payload"])
        exp[CALLER_MARK] = 1
        if slot["obj"] != exp:
            return (f"alias: the dict the caller passed to update_meta() is now {slot['obj']!r} (expected {exp!r}): "
                    "a node stored the caller's object instead of a copy and was edited")
    return None


class NotLive(Exception):
    pass


def _need(x):
    if x is None:
        raise NotLive()
    return x


def tree_nodes(t):
    return B.all_nodes(t._root)


def execute(w: World, op):
    """Run one op on the implementation.  Returns (result ids, coq term of the op).
    Raises NotLive for a reference that is not live; any other exception is the op's own."""
    k = op[0]
    typed_of = lambda ti: isinstance(w.trees[ti], TypedTree)  # noqa: E731

    def ret(r):
        if r is None:
            return []
        if isinstance(r, Node):
            return [w.rel(r)]
        if isinstance(r, Tree):
            w.trees.append(r)
            w.calcs.append(None)
            return [len(w.trees) - 1]
        raise TypeError(f"unexpected result {r!r}")

    if k == "new":
        _, typed, calc = op
        coq = f"(ONewTree {H.coq_bool(typed)} {w.coq_calc(calc)})"
        t = (TypedTree if typed else Tree)(f"T{len(w.trees)}", calc_data_id=w.calc_fn(calc))
        w.trees.append(t)
        w.calcs.append(calc)
        return (lambda: [len(w.trees) - 1]), coq, True

    if k == "add":
        _, ti, p, d, did, kind, before = op
        pn = _need(w.parent_ref(ti, p))
        bv, ok = _bef(w, before)
        if not ok:
            raise NotLive()
        if not typed_of(ti):
            kind = None
        coq = f"(OAdd {ti} {p} {w.coq_dat(d)} {w.coq_explicit(ti, d, did)} {coq_kind(kind)} {coq_before(before)})"
        kw = {}
        if did is not None:
            kw["data_id"] = py_did(did)
        if kind is not None:
            kw["kind"] = kind
        if before is not None:
            kw["before"] = bv
        tgt = w.trees[ti] if p == 0 else pn
        return (lambda: ret(tgt.add_child(w.dobj(d), **kw))), coq, False

    if k == "short":
        _, ti, n, how, d, did, kind = op
        nn = _need(w.parent_ref(ti, n))
        if n == 0 and how in ("prepend_sibling", "append_sibling"):
            raise NotLive()
        if not typed_of(ti) or how in ("prepend_sibling", "append_sibling"):
            kind = None
        hc = {"append_child": "SAppendChild", "prepend_child": "SPrependChild", "prepend_sibling": "SPrependSibling",
              "append_sibling": "SAppendSibling"}[how]
        coq = f"(OShort {ti} {n} {hc} {w.coq_dat(d)} {w.coq_explicit(ti, d, did)} {coq_kind(kind)})"
        kw = {}
        if did is not None:
            kw["data_id"] = py_did(did)
        if kind is not None:
            kw["kind"] = kind
        return (lambda: ret(getattr(nn, how)(w.dobj(d), **kw))), coq, False

    if k == "addnode":
        _, ti, p, sti, src, did, kind, before, deep = op
        pn = _need(w.parent_ref(ti, p))
        sn = _need(w.live_node(src, sti))
        bv, ok = _bef(w, before)
        if not ok:
            raise NotLive()
        if not typed_of(ti):
            kind = None
        if is_unhashable(did):
            raise NotLive()
        coq = (f"(OAddNode {ti} {p} {sti} {src} {coq_odid(did)} {coq_kind(kind)} {coq_before(before)} {coq_obool(deep)})")
        kw = {}
        if did is not None:
            kw["data_id"] = did
        if kind is not None:
            kw["kind"] = kind
        if before is not None:
            kw["before"] = bv
        if deep is not None:
            kw["deep"] = deep
        tgt = w.trees[ti] if p == 0 else pn
        return (lambda: ret(tgt.add_child(sn, **kw))), coq, False

    if k == "addtree":
        _, ti, p, sti, before, deep = op
        pn = _need(w.parent_ref(ti, p))
        st = _need(w.tree(sti))
        bv, ok = _bef(w, before)
        if not ok:
            raise NotLive()
        coq = f"(OAddTree {ti} {p} {sti} {coq_before(before)} {coq_obool(deep)})"
        kw = {}
        if before is not None:
            kw["before"] = bv
        if deep is not None:
            kw["deep"] = deep
        tgt = w.trees[ti] if p == 0 else pn
        return (lambda: ret(tgt.add_child(st, **kw))), coq, False

    if k == "copyto":
        _, sti, src, ti, target, add_self, before, deep = op
        st = _need(w.tree(sti))
        tn = _need(w.parent_ref(ti, target))
        tgt = w.trees[ti] if target == 0 else tn
        bv, ok = _bef(w, before)
        if not ok:
            raise NotLive()
        coq = (f"(OCopyTo {sti} {src} {ti} {target} {H.coq_bool(add_self)} {coq_before(before)} {H.coq_bool(deep)})")
        if src == 0:
            if add_self or before is not None:
                raise NotLive()
            return (lambda: ret(st.copy_to(tgt, deep=deep))), coq, False
        sn = _need(w.live_node(src, sti))
        return (lambda: ret(sn.copy_to(tgt, add_self=add_self, before=bv, deep=deep))), coq, False

    if k == "treecopy":
        st = _need(w.tree(op[1]))
        return (lambda: ret(st.copy())), f"(OTreeCopy {op[1]})", False

    if k == "nodecopy":
        _, sti, src, add_self = op
        sn = _need(w.live_node(src, sti))
        return (lambda: ret(sn.copy(add_self=add_self))), f"(ONodeCopy {sti} {src} {H.coq_bool(add_self)})", False

    if k == "move":
        _, ti, n, tti, target, before = op
        nn = _need(w.live_node(n, ti))
        tn = _need(w.parent_ref(tti, target))
        tgt = w.trees[tti] if target == 0 else tn
        bv, ok = _bef(w, before)
        if not ok:
            raise NotLive()
        coq = f"(OMove {ti} {n} {tti} {target} {coq_before(before)})"
        return (lambda: ret(nn.move_to(tgt, before=bv))), coq, False

    if k == "remove":
        _, ti, n, keep, wc = op
        nn = _need(w.live_node(n, ti))
        coq = f"(ORemove {ti} {n} {H.coq_bool(keep)} {H.coq_bool(wc)})"
        return (lambda: ret(nn.remove(keep_children=keep, with_clones=wc))), coq, False

    if k == "remove_children":
        _, ti, n = op
        nn = _need(w.parent_ref(ti, n))
        return (lambda: ret(nn.remove_children())), f"(ORemoveChildren {ti} {n})", False

    if k == "clear":
        t = _need(w.tree(op[1]))
        return (lambda: ret(t.clear())), f"(OClear {op[1]})", False

    if k == "del":
        _, ti, key = op
        t = _need(w.tree(ti))
        if "nid" in key:
            nn = _need(w.live_node(key["nid"], ti))
            pk = nn.node_id
            coq = f"(ODel {ti} (KNode {key['nid']}))"
        elif "id" in key:
            pk = key["id"]
            cf = w.calc_fn(w.calcs[ti])
            try:
                v = hash(pk) if cf is None else cf(t, pk)
                fb = "(Some " + H.coq_did(v) + ")" if isinstance(v, (int, str)) else "None"    # unhashable answer: unusable
            except CallbackFault:
                fb = "None"
            coq = f"(ODel {ti} (KDid {H.coq_did(pk)} {fb}))"
        else:
            pk = w.dobj(key["d"])
            as_did = H.coq_did(pk) if isinstance(pk, (int, str)) and not isinstance(pk, bool) else None
            coq = f"(ODel {ti} (KData {w.coq_dat(key['d'])} {'None' if as_did is None else '(Some ' + as_did + ')'}))"

        def go():
            del t[pk]
            return []

        return go, coq, False

    if k == "sort":
        _, ti, p, keyfn, reverse, deep = op
        pn = _need(w.parent_ref(ti, p))
        t = w.trees[ti]
        tbl = (keyfn or {}).get("tbl", {})
        ents = []
        for nd in tree_nodes(t):
            r = w.rel(nd)
            kv = tbl.get(str(r), nd.name)
            ents.append(f"({r}%nat, {H.coq_opt(kv, H.coq_text)})")
        coq = f"(OSort {ti} {p} {H.coq_list(ents)} {H.coq_bool(reverse)} {H.coq_bool(deep)})"
        if keyfn is None:
            key = None
        else:
            # the caller keeps ONE key function per key table for the whole history and passes it again
            ck = json.dumps(tbl, sort_keys=True)
            key = w.caller_keys.get(ck)
            if key is None:
                def key(node, tbl=tbl):
                    v = tbl.get(str(w.rel(node)), node.name)
                    if v is None:
                        raise CallbackFault("sort key")
                    return v
                w.caller_keys[ck] = key
        if p == 0:
            return (lambda: ret(t.sort(key=key, reverse=reverse, deep=deep))), coq, False
        return (lambda: ret(pn.sort_children(key=key, reverse=reverse, deep=deep))), coq, False

    if k == "set_data":
        _, ti, n, d, did, wc = op
        nn = _need(w.live_node(n, ti))
        if is_unhashable(did) and (d is None or nn._data is w.dobj(d)):
            raise NotLive()      # only with NEW data the hook has no id for (see World.coq_explicit)
        coq = (f"(OSetData {ti} {n} {'None' if d is None else '(Some ' + w.coq_dat(d) + ')'} {w.coq_explicit(ti, d, did)} {coq_obool(wc)})")
        return (lambda: ret(nn.set_data(None if d is None else w.dobj(d), data_id=py_did(did), with_clones=wc))), coq, False

    if k == "rename":
        _, ti, n, d = op
        nn = _need(w.live_node(n, ti))
        return (lambda: ret(nn.rename(w.dobj(d)))), f"(ORename {ti} {n} {w.coq_dat(d)})", False

    if k == "meta":
        _, ti, n, mo = op
        nn = _need(w.live_node(n, ti))
        if mo[0] == "set":
            c = f"(MSet {H.coq_text(mo[1])} {H.coq_opt(mo[2], lambda v: '(' + H.sx(H.meta_val(v)) + ')')})"
            f = lambda: nn.set_meta(mo[1], mo[2])  # noqa: E731
        elif mo[0] == "clear":
            c = f"(MClear {H.coq_opt(mo[1], H.coq_text)})"
            f = lambda: nn.clear_meta(mo[1])  # noqa: E731
        else:
            vals = H.coq_list(f"({H.coq_text(kk)}, {H.sx(H.meta_val(vv))})" for kk, vv in mo[1].items())
            c = f"(MUpdate {vals} {H.coq_bool(mo[2])})"
            # The caller keeps ONE dict per payload for the whole history, passes it again and again and goes
            # on using it (adds a key) after each call: an implementation that stores the caller's object
            # instead of a copy shows the marker / the other nodes' edits in the next observation.
            slot = w.caller_dicts.setdefault(json.dumps(mo[1], sort_keys=True), {"payload": dict(mo[1]), "obj": {}, "used": False})
            obj = slot["obj"]

            def f():
                obj.clear()
                obj.update(slot["payload"])
                slot["used"] = True
                try:
                    nn.update_meta(obj, replace=mo[2])
                finally:
                    obj[CALLER_MARK] = 1
        return (lambda: ret(f())), f"(OMeta {ti} {n} {c})", False

    if k == "filter":
        _, ti, n, verd = op
        pn = _need(w.parent_ref(ti, n))
        t = w.trees[ti]
        ents = [f"({w.rel(nd)}%nat, {coq_verdict(verd.get(str(w.rel(nd)), 'T'))})" for nd in tree_nodes(t)]
        coq = f"(OFilter {ti} {n} {H.coq_list(ents)})"

        def pred(node):
            return _verdict(verd.get(str(w.rel(node)), "T"))

        if n == 0:
            return (lambda: ret(t.filter(pred))), coq, False
        return (lambda: ret(pn.filter(pred))), coq, False

    if k == "from_dict":
        _, ti, p, items = op
        pn = _need(w.parent_ref(ti, p))
        coq = f"(OFromDict {ti} {p} {_items_coq(w, items, ti)})"
        return (lambda: ret(_call_from_dict(w, pn.from_dict, items))), coq, False

    if k == "tree_from_dict":
        items = op[1]
        coq = f"(OTreeFromDict {_items_coq(w, items)})"
        return (lambda: ret(_call_from_dict(w, Tree.from_dict, items))), coq, False

    raise ValueError(f"unknown op {op!r}")


def op_node_refs(op):
    """All node references (relative ids != 0) an op mentions, for the 'removed nodes are never referenced' rule."""
    k = op[0]
    refs = []

    def bef(b):
        if isinstance(b, dict):
            refs.append(b["n"])

    if k == "add":
        refs.append(op[2]); bef(op[6])
    elif k == "short":
        refs.append(op[2])
    elif k == "addnode":
        refs += [op[2], op[4]]; bef(op[7])
    elif k == "addtree":
        refs.append(op[2]); bef(op[4])
    elif k == "copyto":
        refs += [op[2], op[4]]; bef(op[6])
    elif k == "nodecopy":
        refs.append(op[2])
    elif k == "move":
        refs += [op[2], op[4]]; bef(op[5])
    elif k in ("remove", "remove_children", "set_data", "rename", "meta", "filter", "from_dict", "sort"):
        refs.append(op[2])
    elif k == "del" and "nid" in op[2]:
        refs.append(op[2]["nid"])
    return [r for r in refs if r]


# ---------------------------------------------------------------------------
class Run:
    def __init__(self):
        self.obs = []
        self.coq_ops = []
        self.steps = []
        self.fails = []
        self.stats = {}
        self.world = None

    @property
    def coq(self):
        return H.coq_list(self.coq_ops)


ALL_ORACLES = ("wf", "index", "sibling", "refusal", "effect")


def replay(hist, oracles=ALL_ORACLES, keep_world=False, queries=True) -> Run:
    w = World(hist["univ"])
    run = Run()
    before = w.obs()
    for si, op in enumerate(hist["ops"]):
        alloc0 = w.allocated()
        ntrees0 = len(w.trees)
        try:
            thunk, coq, _ = execute(w, op)
        except NotLive:
            # mirror CaseMut.step_chk: not a public operation, nothing happens.  The Coq term still
            # has to be well-typed, so the op is replaced by a reference to a tree that does not exist.
            run.coq_ops.append("(OClear 999)")
            res = [1, EMODEL]
            after = before
            run.obs.append([res, after])
            run.steps.append(dict(op=op, res=res, before=before, after=after, new_ids=[], coq=run.coq_ops[-1]))
            continue
        run.coq_ops.append(coq)
        _old = sys.getrecursionlimit()
        sys.setrecursionlimit(OP_RECURSION_LIMIT)   # a runaway recursion (D06) must stay observable
        try:
            res = [0, thunk()]
        except RecursionError:
            res = [1, 8]
        except Exception as e:  # every op's own failure is an observation
            res = outcome_of(e)
        finally:
            sys.setrecursionlimit(_old)
        # a tree object created by a failing op is not part of the world
        after = w.obs()
        alias_msg = None
        if queries is True or (queries is not False and queries is not None and si >= queries):
            run_queries(w)          # query - mutate - query again: the next op meets warmed caches
            hostile_queries(w)      # ... and whatever the queries handed back is destroyed by the caller
            after2 = w.obs()
            if changed(after, after2):
                alias_msg = (f"alias: after {op[0]} the caller emptied the lists / dicts returned by find_all, get_clones, "
                             "get_siblings, get_parent_list, to_dict(_list) and the TREE changed: a query handed out internal state")
        step = dict(op=op, res=res, before=before, after=after, new_ids=list(range(alloc0 + 1, w.allocated() + 1)),
                    new_trees=list(range(ntrees0, len(w.trees))), coq=coq)
        run.obs.append([res, after])
        run.steps.append(step)
        kind = op[0] + (":" + H.ERR_NAMES.get(res[1], str(res[1])) if res[0] else "")
        run.stats[kind] = run.stats.get(kind, 0) + 1
        for name in oracles:
            msg = None
            try:
                if name == "wf":
                    msg = first(wf_oracle(t, w) for t in w.trees)
                elif name == "index":
                    msg = first(index_oracle(t, w) for t in w.trees)
                elif name == "sibling":
                    msg = first(sibling_oracle(t, w) for t in w.trees)
                elif name == "refusal":
                    msg = refusal_oracle(step)
                elif name == "effect":
                    msg = effect_oracle(step, w) or caller_oracle(w)
            except RecursionError:
                msg = f"{name}: the state after {op[0]} is cyclic or nests too deep to be examined (runaway structure)"
            except Exception as e:  # a corrupted implementation state must be a verdict, not a harness error
                msg = f"{name}: the state after {op[0]} cannot be examined: {type(e).__name__}: {str(e)[:120]}"
            if msg:
                run.fails.append((si, name, msg))
        if alias_msg:
            run.fails.append((si, "effect" if "effect" in oracles or not oracles else oracles[0], alias_msg))
            after = after2          # the next step starts from what the tree really is
        before = after
    if keep_world:
        run.world = w
    return run


def run_queries(w):
    """Call the read-only API on every tree between two mutations (results are other properties' business; here
    they only have to be CALLED, so that a cache or memo filled by a query and not reset by the next mutator
    shows in the next observation).  Never raises; skipped on a tree that is not a tree any more."""
    from nutree.common import IterMethod
    _old = sys.getrecursionlimit()
    sys.setrecursionlimit(OP_RECURSION_LIMIT)
    try:
        for t in w.trees:
            try:
                order, probs = _reach(t)
                if probs or len(order) > 200:
                    continue
                calls = [lambda: len(t), lambda: t.count, lambda: t.count_unique, lambda: bool(t), lambda: list(t),
                         lambda: list(t.iterator(IterMethod.POST_ORDER)), lambda: list(t.iterator(IterMethod.LEVEL_ORDER)),
                         lambda: t.calc_height(), lambda: t.format(), lambda: t.format(repr="{node.data_id}", style="list"),
                         lambda: t.to_dict_list(), lambda: t.children, lambda: t._self_check()]
                for n in order[:4] + order[-2:]:
                    calls += [lambda n=n: n.data in t, lambda n=n: t.find(n.data), lambda n=n: t.find_all(data_id=n.data_id),
                              lambda n=n: t.find_first(node_id=n.node_id), lambda n=n: t[n.data_id],
                              lambda n=n: n.depth(), lambda n=n: n.calc_height(), lambda n=n: n.get_path(), lambda n=n: n.is_clone(),
                              lambda n=n: n.get_clones(), lambda n=n: n.get_siblings(add_self=True), lambda n=n: n.get_index(),
                              lambda n=n: n.count_descendants(), lambda n=n: list(n), lambda n=n: n.format(),
                              lambda n=n: n.get_parent_list(), lambda n=n: n.is_last_sibling(), lambda n=n: n.next_sibling(),
                              lambda n=n: n.find_all(match=".*"), lambda n=n: n.to_dict()]
                for c in calls:
                    try:
                        c()
                    except Exception:
                        pass
            except Exception:
                pass
    finally:
        sys.setrecursionlimit(_old)


def hostile_queries(w, limit=6):
    """Ask the lookups / clone queries / navigation lists and DESTROY what comes back (del r[:], dict.clear()):
    a result is the caller's object; if it is internal state of the tree (the clone list of the index, ...)
    the next observation, the invariants and a duplicate-add probe show it.  `children` / `get_children` /
    `get_siblings(add_self=True)` / `meta` are documented to hand out the live object and are left alone."""
    _old = sys.getrecursionlimit()
    sys.setrecursionlimit(OP_RECURSION_LIMIT)
    try:
        for t in w.trees:
            try:
                order, probs = _reach(t)
                if probs or len(order) > 200:
                    continue
                pick = order[:limit // 2] + order[-(limit - limit // 2):] if len(order) > limit else order
                calls = [lambda: t.find_all(match=".*"), lambda: t.to_dict_list(), lambda: t.find_all(match=lambda n: True, max_results=2)]
                for n in pick:
                    calls += [lambda n=n: t.find_all(data_id=n.data_id), lambda n=n: t.find_all(n.data),
                              lambda n=n: t.find_all(data_id=n.data_id, max_results=5),
                              lambda n=n: n.get_clones(), lambda n=n: n.get_clones(add_self=True),
                              lambda n=n: n.find_all(data_id=n.data_id, add_self=True), lambda n=n: n.find_all(n.data),
                              lambda n=n: n.get_siblings(add_self=False), lambda n=n: n.get_parent_list(),
                              lambda n=n: n.get_parent_list(add_self=True), lambda n=n: n.to_dict()]
                for c in calls:
                    try:
                        r = c()
                        if isinstance(r, list):
                            del r[:]
                        elif isinstance(r, dict):
                            r.clear()
                    except Exception:
                        pass
            except Exception:
                pass
    finally:
        sys.setrecursionlimit(_old)


def safe_obs(obs):
    """The observation if it can be rendered as an sx term, else a marker the model can never produce."""
    try:
        H.sx(obs)
        return obs
    except RecursionError:
        return [-3]


def changed(a, b):
    """a != b for snapshots that may nest very deep"""
    try:
        return a != b
    except RecursionError:
        return True


def first(it):
    for x in it:
        if x:
            return x
    return None


def coq_case(run: Run) -> str:
    return f"(CHist {run.coq})"


def coq_alts(setup: Run, alts) -> str:
    """alts: list of Run objects that all start with the ops of `setup` and have exactly one more op."""
    return f"(CAlts {setup.coq} {H.coq_list(r.coq_ops[-1] for r in alts)})"


# ---------------------------------------------------------------------------
# Oracles C01-C03, C13 (by identity, independent of model and of the code's own self-check)
# ---------------------------------------------------------------------------
def _reach(t, nid=H.nid):
    """(nodes in pre-order, problems) by an identity walk of `_children`."""
    root = t._root
    seen = {}
    order = []
    probs = []

    def rec(n, anc):
        if len(anc) > MAX_DEPTH:
            probs.append(f"tree deeper than {MAX_DEPTH} levels (cyclic or runaway structure)")
            return
        for c in (n._children or []):
            if id(c) in seen:
                probs.append(f"node {nid(c)} is reachable twice")
                continue
            seen[id(c)] = c
            order.append(c)
            if c._parent is not n:
                probs.append(f"node {nid(c)}: _parent is not the node whose child list holds it")
            if any(a is c for a in anc):
                probs.append(f"node {nid(c)} is its own ancestor")
                continue
            rec(c, anc + [c])

    rec(root, [root])
    return order, probs


def wf_oracle(t, w=None):
    nid = w.rel if w is not None else H.nid
    """C01.  Returns None or the first problem."""
    from nutree.tree import _DELETED_TAG
    order, probs = _reach(t, nid)
    if probs:
        return "wf: " + probs[0]
    root = t._root
    for c in order:
        if c._tree is not t or c.tree is not t:
            return f"wf: reachable node {nid(c)} does not report the tree as owner"
        if c._data is _DELETED_TAG:
            return f"wf: reachable node {nid(c)} was unregistered (zombie)"
        pp = c.parent
        if (pp is None) != (c._parent is root) or (pp is not None and pp is not c._parent):
            return f"wf: node {nid(c)}.parent disagrees with the child list it is in"
        n_occ = sum(1 for x in (c._parent._children or []) if x is c)
        if n_occ != 1:
            return f"wf: node {nid(c)} occurs {n_occ} times in its parent's child list"
    if t.count != len(order) or len(t) != len(order):
        return f"wf: count {t.count} != reachable {len(order)}"
    nids = [c.node_id for c in order]
    if len(set(nids)) != len(nids):
        return "wf: node ids are not unique"
    reach = {id(c) for c in order}
    for k, v in t._node_by_id.items():
        if id(v) not in reach:
            return f"wf: registered node {nid(v)} is not reachable"
        if v._node_id != k:
            return f"wf: registry key of node {nid(v)} is not its node_id"
    unordered = list(t.iterator(H.nutree.IterMethod.UNORDERED))
    if sorted(id(x) for x in unordered) != sorted(reach):
        return "wf: iterator(UNORDERED) is not the reachable set"
    return None


def index_oracle(t, w=None):
    nid = w.rel if w is not None else H.nid
    """C02: `_nodes_by_data_id` groups and the public lookups are exact."""
    order, _ = _reach(t, nid)
    by = {}
    for n in order:
        by.setdefault(n._data_id, []).append(n)
    ix = t._nodes_by_data_id
    for d in ix:
        if d not in by:
            return f"index: stale key {d!r}"
    for d, ns in by.items():
        got = ix.get(d)
        if got is None:
            return f"index: key {d!r} missing"
        if sorted(id(x) for x in got) != sorted(id(x) for x in ns):
            return f"index: group {d!r} is {[nid(x) for x in got]} expected {[nid(x) for x in ns]}"
        pub = t.find_all(data_id=d)
        if sorted(id(x) for x in pub) != sorted(id(x) for x in ns):
            return f"index: find_all(data_id={d!r}) wrong"
        if not any(t.find_first(data_id=d) is x for x in ns):
            return f"index: find_first(data_id={d!r}) wrong"
    if t.count_unique != len(by):
        return f"index: count_unique {t.count_unique} != {len(by)}"
    for n in order:
        if t.find_first(node_id=n.node_id) is not n:
            return f"index: find_first(node_id) of node {nid(n)} wrong"
        grp = by[n._data_id]
        if sorted(id(x) for x in n.get_clones(add_self=True)) != sorted(id(x) for x in grp):
            return f"index: get_clones(add_self) of node {nid(n)} wrong"
        if sorted(id(x) for x in n.get_clones()) != sorted(id(x) for x in grp if x is not n):
            return f"index: get_clones of node {nid(n)} wrong"
        if n.is_clone() != (len(grp) > 1):
            return f"index: is_clone of node {nid(n)} wrong"
    return None


def sibling_oracle(t, w=None):
    nid = w.rel if w is not None else H.nid
    """C03: no parent (root included) holds two children with one data_id."""
    order, _ = _reach(t, nid)
    for p in [t._root] + order:
        ids = [c._data_id for c in (p._children or [])]
        if len(set(ids)) != len(ids):
            return f"sibling: two children of {nid(p)} share a data_id"
    return None


def refusal_oracle(step):
    """C13 (refusal half): a library error leaves the observable state unchanged."""
    res = step["res"]
    if res[0] == 1 and res[1] in LIB_ERRORS and step["before"] != step["after"]:
        return f"refusal: state changed although {step['op'][0]} was refused with {H.ERR_NAMES[res[1]]}"
    return None


def effect_oracle(step, w=None):
    import mut_spec
    return mut_spec.check(step, w)


# ---------------------------------------------------------------------------
# Generators
# ---------------------------------------------------------------------------
UNIV_DEFAULT = ["s:a", "s:b", "s:c", "e:1", "e:1", "e:2", "i:7", "t:1,2", "p:1", "d:3", "w:4", "s:", "i:0"]
DIDS = [None, None, None, "X1", "X2", 5]
KINDS = ["k1", "k2"]


def setup_ops(nodes, ti=0, typed=False):
    """Ops that build the forest `nodes` (build.py NODE format) in tree ti, pre-order; node k of the
    pre-order gets relative id k (when nothing else was allocated before)."""
    ops = []
    counter = [0]

    def go(p, lst):
        for lbl, kind, did, kids in lst:
            counter[0] += 1
            me = counter[0]
            ops.append(["add", ti, p, lbl, did, kind if typed else None, None])
            go(me, kids)

    go(0, nodes)
    return ops


def live_ids(w: World, ti):
    return [w.rel(n) for n in tree_nodes(w.trees[ti])]


class Gen:
    """Stateful random generation: the next op is chosen by looking at the real current state,
    the produced history is a plain list that replays deterministically."""

    def __init__(self, rng, univ=None, malformed=False, ops=None):
        self.rng = rng
        self.univ = list(univ or UNIV_DEFAULT)
        self.w = World(self.univ)
        self.ops = []
        self.malformed = malformed
        self.allowed = ops

    def do(self, op):
        self.ops.append(op)
        _old = sys.getrecursionlimit()
        sys.setrecursionlimit(OP_RECURSION_LIMIT)
        try:
            thunk, _, _ = execute(self.w, op)
            thunk()
        except Exception:
            pass
        finally:
            sys.setrecursionlimit(_old)
        run_queries(self.w)

    REPEATABLE = ("sort", "set_data", "rename", "meta", "move", "filter", "remove_children", "del")
    PERTURB = ["rename", "rename", "set_data", "move", "move", "sort", "meta"]

    def repeat_step(self):
        """op X ... a few NON-ADDING mutations ... op X again, verbatim (same arguments, same caller objects)"""
        rng = self.rng
        cands = [o for o in self.ops if o[0] in self.REPEATABLE
                 and all(self.w.live_node(r) is not None for r in op_node_refs(o))]
        if not cands:
            return
        op = rng.choice(cands[-8:])
        if rng.random() < 0.5:          # make sure the first occurrence is recent: issue it now as well
            self.do(_copy.deepcopy(op))
        saved = self.allowed
        self.allowed = self.PERTURB
        try:
            for _ in range(rng.randint(1, 3)):
                self.step()
        finally:
            self.allowed = saved
        if all(self.w.live_node(r) is not None for r in op_node_refs(op)):
            self.do(_copy.deepcopy(op))

    def pick_tree(self):
        return self.rng.randrange(len(self.w.trees))

    def bad_data(self, ti):
        """data objects tree ti's id hook raises for / answers an unhashable value for"""
        spec = self.w.calcs[ti]
        return (spec.get("raise", []) + spec.get("unhashable", [])) if isinstance(spec, dict) else []

    def any_node(self, ti, root=True):
        ids = live_ids(self.w, ti)
        if root:
            ids = ids + [0]
        return self.rng.choice(ids) if ids else None

    def before_arg(self, ti, p):
        rng = self.rng
        pn = self.w.parent_ref(ti, p)
        ch = [self.w.rel(c) for c in (pn._children or [])] if pn is not None else []
        opts = [None, None, None, True, False, 0, 1, -1]
        if ch:
            opts += [{"n": rng.choice(ch)}, {"n": rng.choice(ch)}, len(ch), len(ch) - 1, -len(ch)]
        if self.malformed:
            others = [x for t in range(len(self.w.trees)) for x in live_ids(self.w, t) if x not in ch]
            opts += [7, -9, 2]
            if others:
                opts += [{"n": rng.choice(others)}] * 3
        return rng.choice(opts)

    def step(self):
        rng = self.rng
        w = self.w
        names = self.allowed or ["add"] * 5 + ["short"] * 3 + ["addnode"] * 2 + ["move"] * 4 + ["remove"] * 3 + [
            "remove_children", "sort", "sort", "set_data", "set_data", "rename", "meta", "meta", "copyto", "addtree", "treecopy",
            "nodecopy", "clear", "del", "filter", "from_dict", "repeat", "repeat", "repeat", "dupadd", "dupadd", "spread", "spread"]
        k = rng.choice(names)
        if k == "repeat":
            return self.repeat_step()
        ti = self.pick_tree()
        typed = isinstance(w.trees[ti], TypedTree)
        ids = live_ids(w, ti)
        nd = len(self.univ)
        kind = rng.choice(KINDS + [None]) if typed else None
        if k == "add":
            p = self.any_node(ti)
            d = rng.randrange(nd)
            did = rng.choice(DIDS)
            bad = self.bad_data(ti)
            if bad and rng.random() < 0.3:       # data the tree's hook has no usable id for, maybe with an unhashable explicit id
                d = rng.choice(bad)
                did = rng.choice([None, {"u": [1]}])
            return self.do(["add", ti, p, d, did, kind, self.before_arg(ti, p)])
        if k == "dupadd":                        # probe: the data (and id) of an existing child again under its parent
            if not ids:
                return
            n = w.live_node(rng.choice(ids), ti)
            did = n._data_id if isinstance(n._data_id, str) else None
            return self.do(["add", ti, w.rel(n._parent), w.U.index(n._data), did, kind, rng.choice([None, True])])
        if k == "spread":                        # grow a clone group: the same data (and id) under other parents
            if not ids:
                return
            n = w.live_node(rng.choice(ids), ti)
            did = n._data_id if isinstance(n._data_id, str) else None
            for _ in range(rng.randint(1, 3)):
                self.do(["add", ti, self.any_node(ti), w.U.index(n._data), did, kind, None])
            return
        if k == "short":
            how = rng.choice(["append_child", "prepend_child", "prepend_sibling", "append_sibling"])
            n = self.any_node(ti, root=how.endswith("child"))
            if n is None:
                return
            return self.do(["short", ti, n, how, rng.randrange(nd), rng.choice(DIDS), kind])
        if k == "addnode":
            sti = self.pick_tree()
            src = self.any_node(sti, root=False)
            if src is None:
                return
            p = self.any_node(ti)
            did = rng.choice([None, None, None, "X1"]) if self.malformed else None
            return self.do(["addnode", ti, p, sti, src, did, kind, self.before_arg(ti, p), rng.choice([None, True, False])])
        if k == "addtree":
            sti = self.pick_tree()
            if sti == ti and not self.malformed:
                return
            p = self.any_node(ti)
            return self.do(["addtree", ti, p, sti, self.before_arg(ti, p), rng.choice([None, True, False])])
        if k == "copyto":
            sti = self.pick_tree()
            src = self.any_node(sti, root=True)
            tgt = self.any_node(ti)
            add_self = src != 0 and rng.random() < 0.6
            before = self.before_arg(ti, tgt) if add_self else None
            return self.do(["copyto", sti, src, ti, tgt, add_self, before, rng.random() < 0.5])
        if k == "treecopy":
            if len(w.trees) >= 3:
                return
            return self.do(["treecopy", ti])
        if k == "nodecopy":
            if len(w.trees) >= 3 or not ids:
                return
            return self.do(["nodecopy", ti, rng.choice(ids), rng.random() < 0.6])
        if k == "move":
            if not ids:
                return
            n = rng.choice(ids)
            # mostly inside one tree; now and then (more often in the malformed stream) into ANOTHER tree,
            # there mostly below one of its nodes rather than the Tree object
            tti = ti if rng.random() < (0.6 if self.malformed else 0.85) else self.pick_tree()
            tgt = self.any_node(tti)
            if tti != ti and tgt == 0 and rng.random() < 0.7:
                other = live_ids(w, tti)
                if other:
                    tgt = rng.choice(other)
            if not self.malformed and tgt != 0:
                nn, tn = w.live_node(n, ti), w.live_node(tgt, tti)
                if tn is nn or tn.is_descendant_of(nn):
                    if rng.random() < 0.9:
                        return
            return self.do(["move", ti, n, tti, tgt, self.before_arg(tti, tgt)])
        if k == "remove":
            if not ids:
                return
            return self.do(["remove", ti, rng.choice(ids), rng.random() < 0.4, rng.random() < 0.3])
        if k == "remove_children":
            n = self.any_node(ti)
            if n == 0 and rng.random() < 0.8:
                return
            return self.do(["remove_children", ti, n])
        if k == "clear":
            if rng.random() < 0.7:
                return
            return self.do(["clear", ti])
        if k == "del":
            if not ids:
                return
            n = w.live_node(rng.choice(ids), ti)
            form = rng.choice(["d", "id", "nid"])
            if form == "d":
                return self.do(["del", ti, {"d": w.U.index(n._data)}])
            if form == "id" and isinstance(n._data_id, (int, str)):
                return self.do(["del", ti, {"id": n._data_id}])
            return self.do(["del", ti, {"nid": w.rel(n)}])
        if k == "sort":
            p = self.any_node(ti)
            keyfn = None
            if rng.random() < 0.5:
                tbl = {str(i): rng.choice(["a", "b", "b", "c", "zz"]) for i in ids if rng.random() < 0.8}
                if self.malformed and ids and rng.random() < 0.5:
                    tbl[str(rng.choice(ids))] = None
                keyfn = {"tbl": tbl}
            return self.do(["sort", ti, p, keyfn, rng.random() < 0.4, rng.random() < 0.6])
        if k == "set_data":
            if not ids:
                return
            d = rng.choice([None] + list(range(nd)))
            did = rng.choice([None, None, "X1", "X2", 5, 0, ""])
            bad = self.bad_data(ti)
            if bad and rng.random() < 0.3:
                d = rng.choice(bad)
                did = rng.choice([None, None, {"u": [1]}])
            n = rng.choice(ids)
            if rng.random() < 0.3:               # prefer a member of a big clone group
                big = [w.rel(x) for x in tree_nodes(w.trees[ti]) if len(w.trees[ti]._nodes_by_data_id.get(x._data_id, ())) >= 3]
                if big:
                    n = rng.choice(big)
            return self.do(["set_data", ti, n, d, did, rng.choice([None, True, True, False])])
        if k == "rename":
            if not ids:
                return
            strs = [i for i, s in enumerate(self.univ) if s.startswith("s:")]
            return self.do(["rename", ti, rng.choice(ids), rng.choice(strs)])
        if k == "meta":
            if not ids:
                return
            mo = rng.choice([["set", "k", 1], ["set", "k", None], ["set", "j", "v"], ["clear", None], ["clear", "k"], ["set", "", 2], ["clear", ""],
                             ["update", {"z": 1, "k": 2}, False], ["update", {"z": 1, "k": 2}, True], ["clear", "z"], ["set", "z", 9],
                             ["update", {"z": 1, "k": 2}, False], ["update", {"z": 3}, True], ["update", {}, True]])
            return self.do(["meta", ti, rng.choice(ids), mo])
        if k == "filter":
            if rng.random() < 0.5:
                return
            vs = ["T", "T", "T", "F", "F", "N", "skip", "skip_keep", "select", "stop", "skip!", "stop!"]
            if self.malformed:
                vs.append("raise")
            verd = {str(i): rng.choice(vs) for i in ids}
            return self.do(["filter", ti, self.any_node(ti), verd])
        if k == "from_dict":
            def items(depth):
                return [[rng.randrange(nd), rng.choice(DIDS), items(depth + 1) if depth < 2 and rng.random() < 0.4 else []]
                        for _ in range(rng.randint(1, 3))]
            if rng.random() < 0.3 and len(w.trees) < 3:
                return self.do(["tree_from_dict", items(0)])
            leaves = [i for i in ids if not w.live_node(i, ti)._children]
            if not leaves:
                return
            return self.do(["from_dict", ti, rng.choice(leaves), items(0)])


def gen_random(rng, n_ops=30, *, malformed=False, univ=None, ntrees=None, ops=None):
    g = Gen(rng, univ=univ, malformed=malformed, ops=ops)
    ntrees = ntrees or rng.choice([1, 1, 2, 3])
    for i in range(ntrees):
        typed = rng.random() < 0.3
        calc = rng.choice([None, None, None, "name", "mod7"])
        if rng.random() < (0.4 if malformed else 0.2):
            k1, k2 = rng.sample(range(len(g.univ)), 2)
            calc = {"fn": rng.choice(["hash", "name"]), "raise": [k1], "unhashable": [k2]}
        g.do(["new", typed, calc])
    # a few nodes first, so that the interesting ops have something to work on
    for _ in range(rng.randint(2, 8)):
        ti = g.pick_tree()
        typed = isinstance(g.w.trees[ti], TypedTree)
        g.do(["add", ti, g.any_node(ti), rng.randrange(len(g.univ)), rng.choice(DIDS), rng.choice(KINDS) if typed else None, None])
    tries = 0
    while len(g.ops) < n_ops + ntrees and tries < 10 * n_ops:
        tries += 1
        try:
            g.step()
        except Exception:       # the generator must survive a corrupted implementation state
            pass
    return {"univ": g.univ, "ops": g.ops}


def gen_malformed(rng, n_ops=25, **kw):
    return gen_random(rng, n_ops, malformed=True, **kw)


# -- exhaustive single-op enumeration ------------------------------------------
LABELINGS = {
    # label by pre-order index: all distinct strings
    "distinct": (lambda n: [f"s:n{i}" for i in range(n)] + ["s:new", "e:9"], lambda i, d, s: (i, None, None)),
    # equal-comparing objects under distinct explicit ids (identity vs equality)
    "equal": (lambda n: ["e:1"] * n + ["e:1", "s:new"], lambda i, d, s: (i, None, f"k{i}")),
    # clones: label depends on depth+sibling index -> same data in different parents
    "clones": (lambda n: ["s:a", "s:b", "e:5", "e:5", "s:new", "s:c"], lambda i, d, s: ((d + s) % 4, None, None)),
}


def before_choices(nch, child_ids, foreign):
    out = [None, True, False, 0, 1, -1, nch, nch + 1, -nch - 1]
    out += [{"n": c} for c in child_ids]
    out += [{"n": f} for f in foreign[:1]]
    seen = []
    for b in out:
        if not any(b == x and type(b) is type(x) for x in seen):
            seen.append(b)
    return seen


def single_ops(shape_nodes, univ, typed=False, families=None):
    """All single ops with all arguments on the forest built by setup_ops(shape_nodes) in tree 0."""
    fam = families
    ids = []
    kids = {0: []}

    def go(p, lst):
        for lbl, kind, did, ch in lst:
            me = len(ids) + 1
            ids.append(me)
            kids[p].append(me)
            kids[me] = []
            go(me, ch)

    go(0, shape_nodes)
    n = len(ids)
    new_d = univ.index("s:new")
    alt_d = len(univ) - 1
    label_of = {}

    def lab(lst):
        for lbl, kind, did, ch in lst:
            label_of[len(label_of) + 1] = (lbl, did)
            lab(ch)

    lab(shape_nodes)
    out = []

    def want(f):
        return fam is None or f in fam

    kind = "k1" if typed else None
    for p in [0] + ids:
        foreign = [x for x in ids if x not in kids[p]]
        bcs = before_choices(len(kids[p]), kids[p], foreign)
        if want("add"):
            for b in bcs:
                out.append(["add", 0, p, new_d, None, kind, b])
            # colliding data / colliding explicit id
            for c in kids[p][:2]:
                lbl, did = label_of[c]
                out.append(["add", 0, p, lbl, did, kind, None])
            out.append(["add", 0, p, alt_d, "X1", kind, True])
        if want("short"):
            for how in ("append_child", "prepend_child"):
                out.append(["short", 0, p, how, new_d, None, kind])
            if p:
                for how in ("prepend_sibling", "append_sibling"):
                    out.append(["short", 0, p, how, new_d, None, None])
        if want("addnode"):
            for s in ids:
                for deep in (None, True, False):
                    for b in (None, True) + tuple({"n": c} for c in kids[p][:1]):
                        out.append(["addnode", 0, p, 0, s, None, kind, b, deep])
        if want("copyto"):
            for s in ids:
                for add_self in (True, False):
                    for deep in (True, False):
                        out.append(["copyto", 0, s, 0, p, add_self, True if add_self and deep else None, deep])
        if want("sort"):
            for rev in (False, True):
                for deep in (False, True):
                    out.append(["sort", 0, p, None, rev, deep])
                    out.append(["sort", 0, p, {"tbl": {str(i): "ab"[(i * 7 // 3) % 2] for i in ids}}, rev, deep])
        if want("remove_children"):
            out.append(["remove_children", 0, p])
        if want("filter") and p == 0 and n <= 3:
            import itertools
            for combo in itertools.product(["T", "F", "skip", "skip_keep", "select", "stop"], repeat=n):
                out.append(["filter", 0, 0, {str(i + 1): v for i, v in enumerate(combo)}])
    for x in ids:
        if want("move"):
            for p in [0] + ids:
                foreign = [y for y in ids if y not in kids[p]]
                for b in before_choices(len(kids[p]), kids[p], foreign):
                    out.append(["move", 0, x, 0, p, b])
        if want("remove"):
            for keep in (False, True):
                for wc in (False, True):
                    out.append(["remove", 0, x, keep, wc])
        if want("set_data"):
            for d in (None, new_d, alt_d, label_of[x][0]) + tuple(label_of[y][0] for y in ids[:2]):
                for did in (None, "X1", 0, "") + tuple(label_of[y][1] for y in ids[:1] if label_of[y][1] is not None):
                    for wc in (None, True, False):
                        out.append(["set_data", 0, x, d, did, wc])
            out.append(["rename", 0, x, new_d])
        if want("meta"):
            for mo in (["set", "k", 1], ["set", "k", None], ["clear", None], ["clear", "k"], ["update", {"z": 1}, False],
                       ["update", {"z": 1}, True]):
                out.append(["meta", 0, x, mo])
        if want("del"):
            out.append(["del", 0, {"d": label_of[x][0]}])
            out.append(["del", 0, {"nid": x}])
            if label_of[x][1] is not None:
                out.append(["del", 0, {"id": label_of[x][1]}])
        if want("nodecopy"):
            out.append(["nodecopy", 0, x, True])
            out.append(["nodecopy", 0, x, False])
    if want("clear"):
        out.append(["clear", 0])
    if want("treecopy"):
        out.append(["treecopy", 0])
    # de-duplicate
    seen = set()
    res = []
    for o in out:
        key = H.digest(o)
        if key not in seen:
            seen.add(key)
            res.append(o)
    return res


# deeper shapes than the exhaustive bound reaches: two siblings at depth 3 / 4, a wide level below a chain
EXTRA_SHAPES = [((((), ()),),), (((((), ()),),),), (((), ((), ())), ((), ())), ((((), (), ()),), ())]


def gen_shapes(shapes, *, labelings=("distinct", "equal"), typed=(False,), families=None):
    """Like gen_exhaustive, for an explicit list of forest shapes."""
    for shape in shapes:
        n = H.shape_size(shape)
        for lname in labelings:
            mk_univ, labeler = LABELINGS[lname]
            for ty in typed:
                univ = mk_univ(n)
                nodes = B.shape_to_nodes(shape, (lambda i, d, s: (labeler(i, d, s)[0], ("k1", "k2")[s % 2] if ty else None, labeler(i, d, s)[2])))
                setup = [["new", ty, None]] + setup_ops(nodes, 0, ty)
                yield dict(univ=univ, setup=setup, alts=single_ops(nodes, univ, ty, families), label=lname + "/extra", n=n)


def gen_addtree(typed=(False,)):
    """Two-tree worlds: every add(tree)/copy_to(tree) argument combination, and every cross-tree move_to
    (node of one tree -> node / Tree object of the other x `before`)."""
    for ty in typed:
        univ = ["s:a", "s:b", "s:c", "s:x", "s:y", "s:z"]
        k = "k1" if ty else None
        setup = [["new", ty, None], ["new", ty, None],
                 ["add", 0, 0, 0, None, k, None], ["add", 0, 1, 5, None, k, None], ["add", 0, 0, 1, None, k, None], ["add", 0, 0, 2, None, k, None],
                 ["add", 1, 0, 3, None, k, None], ["add", 1, 0, 4, None, k, None], ["add", 1, 5, 5, None, k, None]]
        alts = []
        for p, ch in ((0, [5, 6]), (5, [7]), (6, [])):
            for b in before_choices(len(ch), ch, [1]):
                for deep in (None, False):
                    alts.append(["addtree", 1, p, 0, b, deep])
            alts.append(["copyto", 0, 0, 1, p, False, None, True])
        alts.append(["addtree", 0, 0, 1, None, None])
        alts.append(["addtree", 1, 7, 1, None, None])
        # cross-tree move_to: every node of tree 0 to every NODE of tree 1 (and to the Tree object) x the forms of
        # `before`; documented: "Can only move nodes inside same tree" - refused, nothing changes in either tree
        for n in (1, 2, 3, 4):
            for tgt, ch in ((0, [5, 6]), (5, [7]), (6, []), (7, [])):
                for b in [None, True, False, 0, -1] + [{"n": c} for c in ch] + [{"n": 1}]:
                    alts.append(["move", 0, n, 1, tgt, b])
        for n, tgt in ((5, 1), (7, 2), (7, 4), (6, 0)):
            alts.append(["move", 1, n, 0, tgt, None])
        yield dict(univ=univ, setup=setup, alts=alts, label="addtree" + ("/typed" if ty else ""), n=7)


def gen_sort_triples(nmax=3, *, quick=True):
    """Histories  setup; (sort X; one non-adding mutation)*; sort X  - X verbatim, same key object - on every
    forest with 2..nmax nodes (plus the deeper EXTRA_SHAPES): X over Tree.sort / sort_children of a node x
    reverse x deep x (default key | one custom key table); the mutation over rename / move-to-front of every
    node, a different sort, and an edit of the key's input."""
    shapes = [sh for n in range(2, nmax + 1) for sh in H.forests(n)] + EXTRA_SHAPES[:1 if quick else 4]
    mk_univ, labeler = LABELINGS["distinct"]
    for shape in shapes:
        n = H.shape_size(shape)
        univ = mk_univ(n)
        new_d = univ.index("s:new")
        nodes = B.shape_to_nodes(shape, lambda i, d, s: (labeler(i, d, s)[0], None, None))
        setup = [["new", False, None]] + setup_ops(nodes, 0, False)
        ids = list(range(1, n + 1))
        tbl = {"tbl": {str(i): "cab"[i % 3] for i in ids}}
        variants = [(None, False, True), (None, True, True), (tbl, False, True), (None, False, False)]
        if not quick:
            variants += [(tbl, True, True), (tbl, True, False), (None, True, False), (tbl, False, False)]
        parents = [0] + ([1] if nodes and nodes[0][3] else [])
        labels = {}

        def lab(lst):
            for lbl, kind, did, ch in lst:
                labels[len(labels) + 1] = lbl
                lab(ch)

        lab(nodes)
        for p in parents:
            for keyfn, rv, dp in variants:
                # one history per (shape, parent, X): a chain of  X; mutation; X  on the same tree object
                x = ["sort", 0, p, keyfn, rv, dp]
                ops = list(setup)
                for i in ids:
                    ops += [_copy.deepcopy(x), ["rename", 0, i, new_d], _copy.deepcopy(x), ["rename", 0, i, labels[i]]]
                for i in ids[1:]:
                    ops += [_copy.deepcopy(x), ["move", 0, i, 0, p, True]]
                ops += [_copy.deepcopy(x), ["sort", 0, p, keyfn, not rv, dp], _copy.deepcopy(x),
                        ["sort", 0, ids[0], None, not rv, False], _copy.deepcopy(x),
                        ["set_data", 0, ids[-1], new_d, None, None], _copy.deepcopy(x)]
                yield {"univ": univ, "ops": ops}


def gen_refusal_group(families=None):
    """One tree whose `calc_data_id` hook RAISES for one data object and returns an UNHASHABLE value for another
    (plus unhashable explicit ids): every add / shortcut / set_data / rename / from_dict / del that meets such an id.
    All of them must be refused with nothing changed (count = reachable, indexes exact)."""
    univ = ["s:a", "s:b", "s:c", "s:r", "s:u", "s:new"]
    R, U, NEW = 3, 4, 5
    setup = [["new", False, {"fn": "name", "raise": [R], "unhashable": [U]}],
             ["add", 0, 0, 0, None, None, None], ["add", 0, 1, 1, None, None, None], ["add", 0, 0, 2, None, None, None],
             ["add", 0, 3, 0, None, None, None]]            # nodes 1 a, 2 b (under 1), 3 c, 4 a (under 3): a is a clone pair
    alts = []
    for d in (R, U):
        for did in (None, {"u": [1]}):
            for p in (0, 2):
                for b in (None, True):
                    alts.append(["add", 0, p, d, did, None, b])
            for n in (1, 2, 4):
                for wc in (None, True, False):
                    alts.append(["set_data", 0, n, d, did, wc])
        for n in (1, 2):
            for how in ("append_child", "prepend_child", "prepend_sibling", "append_sibling"):
                alts.append(["short", 0, n, how, d, None, None])
        for n in (1, 2, 3, 4):
            alts.append(["rename", 0, n, d])
        alts.append(["del", 0, {"d": d}])
    alts += [["from_dict", 0, 2, [[NEW, None, []], [R, None, []]]], ["from_dict", 0, 2, [[U, None, []]]],
             ["from_dict", 0, 2, [[NEW, None, [[U, {"u": [2]}, []]]]]], ["from_dict", 0, 2, [[NEW, "X", []], [U, None, []], [1, None, []]]],
             ["from_dict", 0, 4, [[R, {"u": [3]}, []]]]]
    alts = [a for a in alts if families is None or a[0] in families]
    if alts:
        yield dict(univ=univ, setup=setup, alts=alts, label="refusals", n=4)


def gen_clone_group(families=None):
    """Clone groups of 4 (one data object under four parents) and 3 (equal-but-distinct objects under one explicit
    id): every with_clones operation on members at the start / middle / end of the group."""
    univ = ["s:a", "s:p", "s:q", "s:r", "s:s", "s:new", "e:1", "e:1", "e:1"]
    NEW = 5
    setup = [["new", False, None]] + [["add", 0, 0, i, None, None, None] for i in (1, 2, 3, 4)]
    setup += [["add", 0, p, 0, None, None, None] for p in (1, 2, 3, 4)]                       # 5 6 7 8: four clones of a
    setup += [["add", 0, p, 5 + p, "E", None, None] for p in (1, 2, 3)]                       # 9 10 11: three clones by id
    alts = []
    for n in (5, 7, 8, 9, 11):
        for d, did in ((NEW, None), (None, "N"), (NEW, "N"), (None, "E"), (6, None)):
            for wc in (True, False, None):
                alts.append(["set_data", 0, n, d, did, wc])
    for n in (5, 8, 9, 10):
        for keep in (False, True):
            for wc in (True, False):
                alts.append(["remove", 0, n, keep, wc])
    alts += [["rename", 0, 5, NEW], ["del", 0, {"d": 0}], ["del", 0, {"id": "E"}], ["add", 0, 0, 0, None, None, None],
             ["add", 0, 1, 0, None, None, None], ["add", 0, 4, 8, "E", None, None], ["add", 0, 1, 8, "E", None, None]]
    alts = [a for a in alts if families is None or a[0] in families]
    if alts:
        yield dict(univ=univ, setup=setup, alts=alts, label="clone-groups", n=11)


def gen_exhaustive(nmax, *, labelings=("distinct", "equal", "clones"), typed=(False,), families=None, nmin=0):
    """Yields groups dict(univ=, setup=[ops], alts=[op*]): every single op with every argument
    on every ordered forest with nmin..nmax nodes."""
    for n in range(nmin, nmax + 1):
        for shape in H.forests(n):
            for lname in labelings:
                mk_univ, labeler = LABELINGS[lname]
                for ty in typed:
                    univ = mk_univ(n)
                    nodes = B.shape_to_nodes(shape, (lambda i, d, s: (labeler(i, d, s)[0], ("k1", "k2")[s % 2] if ty else None, labeler(i, d, s)[2])))
                    setup = [["new", ty, None]] + setup_ops(nodes, 0, ty)
                    if lname == "clones":
                        # a labeling that collides under one parent is not a constructible tree
                        r = replay({"univ": univ, "ops": setup}, oracles=())
                        if any(s["res"][0] for s in r.steps):
                            continue
                    yield dict(univ=univ, setup=setup, alts=single_ops(nodes, univ, ty, families), label=lname, n=n)
    if nmin == 0 and tuple(typed) == (False,):
        # once per property: ids the tree cannot use (raising / unhashable hook, unhashable explicit id), clone groups of 3-4
        yield from gen_refusal_group(families)
        yield from gen_clone_group(families)


# ---------------------------------------------------------------------------
# Shrinking
# ---------------------------------------------------------------------------
def shrink_candidates(hist):
    """Smaller histories: drop one op (later references to nodes allocated by it are renumbered
    when the dropped op allocated exactly the nodes it created and nothing after refers to them),
    truncate the tail, then simplify arguments."""
    ops = hist["ops"]
    n = len(ops)
    # truncate
    for cut in (n // 2, n - 1):
        if 0 < cut < n:
            yield dict(hist, ops=ops[:cut])
    # drop single ops (never the tree creations; ids after a dropped allocating op are shifted)
    r = replay(hist, oracles=())
    for i in range(n - 1, -1, -1):
        if ops[i][0] in ("new",):
            continue
        new = r.steps[i]["new_ids"]
        ntrees = r.steps[i].get("new_trees", [])
        if ntrees:
            continue
        rest = ops[:i] + [renumber(o, new) for o in ops[i + 1:]]
        if any(o is None for o in rest):
            continue
        yield dict(hist, ops=rest)
    c = compact_universe(hist)
    if c is not None:
        yield c


def _map_data(op, f):
    """apply f to every data-universe index an op mentions (a copy of the op)"""
    op = _copy.deepcopy(op)
    k = op[0]

    def items(l):
        return [[f(d), did, items(ch)] for d, did, ch in l]

    if k == "new" and isinstance(op[2], dict):
        op[2]["raise"] = [f(i) for i in op[2].get("raise", [])]
    elif k == "add":
        op[3] = f(op[3])
    elif k == "short":
        op[4] = f(op[4])
    elif k in ("set_data", "rename") and op[3] is not None:
        op[3] = f(op[3])
    elif k == "del" and "d" in op[2]:
        op[2]["d"] = f(op[2]["d"])
    elif k == "from_dict":
        op[3] = items(op[3])
    elif k == "tree_from_dict":
        op[1] = items(op[1])
    return op


def compact_universe(hist):
    """The same history over only the data objects it uses (None if nothing can be dropped)."""
    used = []
    for op in hist["ops"]:
        _map_data(op, lambda i: used.append(i) or i)
    keep = sorted(set(used))
    if len(keep) == len(hist["univ"]):
        return None
    pos = {old: new for new, old in enumerate(keep)}
    return {"univ": [hist["univ"][i] for i in keep], "ops": [_map_data(op, lambda i: pos[i]) for op in hist["ops"]]}


def renumber(op, dropped):
    """Shift node references above the dropped allocation block; None if the op refers into it."""
    if not dropped:
        return op
    lo, k = dropped[0], len(dropped)
    bad = [False]

    def f(n):
        if n in dropped:
            bad[0] = True
            return n
        return n - k if n > lo else n

    op = _copy.deepcopy(op)
    kind = op[0]

    def bef(i):
        if isinstance(op[i], dict) and "n" in op[i]:
            op[i]["n"] = f(op[i]["n"])

    def tbl(i):
        if isinstance(op[i], dict) and "tbl" in op[i]:
            op[i]["tbl"] = {str(f(int(a))): v for a, v in op[i]["tbl"].items() if int(a) not in dropped}

    if kind == "add":
        op[2] = f(op[2]); bef(6)
    elif kind == "short":
        op[2] = f(op[2])
    elif kind == "addnode":
        op[2] = f(op[2]); op[4] = f(op[4]); bef(7)
    elif kind == "addtree":
        op[2] = f(op[2]); bef(4)
    elif kind == "copyto":
        op[2] = f(op[2]); op[4] = f(op[4]); bef(6)
    elif kind == "nodecopy":
        op[2] = f(op[2])
    elif kind == "move":
        op[2] = f(op[2]); op[4] = f(op[4]); bef(5)
    elif kind in ("remove", "remove_children", "set_data", "rename", "meta", "from_dict"):
        op[2] = f(op[2])
    elif kind == "sort":
        op[2] = f(op[2]); tbl(3)
    elif kind == "filter":
        op[2] = f(op[2])
        op[3] = {str(f(int(a))): v for a, v in op[3].items() if int(a) not in dropped}
    elif kind == "del" and "nid" in op[2]:
        op[2]["nid"] = f(op[2]["nid"])
    return None if bad[0] else op


# ---------------------------------------------------------------------------
# Minimal witnesses of repaired defects (each fails an oracle on the unchanged code)
# ---------------------------------------------------------------------------
CORPUS: list = [
 {"id": "R-unusable-id", "univ": ["s:a", "s:b", "s:r", "s:u", "s:new"], "ops": [["new", False, {"fn": "name", "raise": [2], "unhashable": [3]}], ["add", 0, 0, 0, None, None, None], ["add", 0, 0, 3, None, None, None], ["add", 0, 0, 1, None, None, None], ["add", 0, 1, 3, {"u": [1]}, None, True], ["add", 0, 1, 0, None, None, None], ["add", 0, 3, 0, None, None, None], ["set_data", 0, 1, 3, None, True], ["set_data", 0, 1, 2, None, True], ["set_data", 0, 1, 4, None, True], ["add", 0, 0, 0, None, None, None], ["from_dict", 0, 6, [[4, "Y", []], [3, None, []]]], ["from_dict", 0, 6, [[4, "Y", []]]], ["remove", 0, 5, False, True], ["add", 0, 0, 2, None, None, None], ["add", 0, 0, 4, "Z", None, None]]},
 {"id": "R-meta-alias", "univ": ["s:a", "s:b", "s:c"], "ops": [["new", False, None], ["add", 0, 0, 0, None, None, None], ["add", 0, 0, 1, None, None, None], ["add", 0, 1, 2, None, None, None], ["meta", 0, 1, ["update", {"z": 1}, False]], ["meta", 0, 2, ["update", {"z": 1}, False]], ["meta", 0, 1, ["set", "k", 1]], ["meta", 0, 2, ["clear", "z"]], ["meta", 0, 3, ["update", {"z": 1}, True]], ["meta", 0, 3, ["set", "z", 5]], ["meta", 0, 1, ["update", {"q": 2}, False]], ["meta", 0, 2, ["update", {"z": 1}, True]]]},
 {"id": "D03b", "univ": ["s:a", "s:b", "s:c"], "ops": [["new", False, None], ["add", 0, 0, 0, None, None, None], ["add", 0, 1, 1, None, None, None], ["add", 0, 2, 0, None, None, None], ["add", 0, 0, 2, None, None, None], ["add", 0, 4, 0, None, None, None], ["remove", 0, 5, False, True]]},
 {"id": "R-meta", "univ": ["s:a"], "ops": [["new", False, None], ["add", 0, 0, 0, None, None, None], ["meta", 0, 1, ["set", "k", 1]], ["meta", 0, 1, ["set", "", 2]], ["meta", 0, 1, ["clear", ""]], ["meta", 0, 1, ["update", {}, True]], ["meta", 0, 1, ["update", {"z": 1}, False]], ["meta", 0, 1, ["set", "z", None]]]},
 {"id": "D70", "univ": ["s:a", "s:b", "s:x", "s:y"], "ops": [["new", False, None], ["new", False, None], ["add", 0, 0, 0, None, None, None], ["add", 0, 0, 1, None, None, None], ["add", 1, 0, 2, None, None, None], ["add", 1, 0, 3, None, None, None], ["addtree", 1, 0, 0, {"n": 4}, None]]},
 {"id": "D48", "univ": ["s:a", "s:b"], "ops": [["new", False, None], ["add", 0, 0, 0, None, None, None], ["from_dict", 0, 1, [[1, None, []], [1, None, []]]]]},
 {
  "id": "D01",
  "univ": [
   "s:a",
   "s:b"
  ],
  "ops": [
   [
    "new",
    False,
    None
   ],
   [
    "add",
    0,
    0,
    0,
    None,
    None,
    None
   ],
   [
    "add",
    0,
    1,
    1,
    None,
    None,
    None
   ],
   [
    "move",
    0,
    1,
    0,
    2,
    None
   ]
  ]
 },
 {
  "id": "D02",
  "univ": [
   "e:1",
   "e:1"
  ],
  "ops": [
   [
    "new",
    False,
    None
   ],
   [
    "add",
    0,
    0,
    0,
    "x",
    None,
    None
   ],
   [
    "add",
    0,
    0,
    1,
    "y",
    None,
    None
   ],
   [
    "remove",
    0,
    2,
    False,
    False
   ]
  ]
 },
 {
  "id": "D02b",
  "univ": [
   "e:1",
   "e:1",
   "s:p"
  ],
  "ops": [
   [
    "new",
    False,
    None
   ],
   [
    "add",
    0,
    0,
    0,
    "x",
    None,
    None
   ],
   [
    "add",
    0,
    0,
    1,
    "y",
    None,
    None
   ],
   [
    "add",
    0,
    0,
    2,
    None,
    None,
    None
   ],
   [
    "move",
    0,
    2,
    0,
    3,
    None
   ]
  ]
 },
 {
  "id": "D03",
  "univ": [
   "s:a",
   "s:b"
  ],
  "ops": [
   [
    "new",
    False,
    None
   ],
   [
    "add",
    0,
    0,
    0,
    None,
    None,
    None
   ],
   [
    "add",
    0,
    1,
    1,
    None,
    None,
    None
   ],
   [
    "add",
    0,
    2,
    0,
    None,
    None,
    None
   ],
   [
    "remove",
    0,
    3,
    False,
    True
   ]
  ]
 },
 {
  "id": "D04",
  "univ": [
   "s:a",
   "s:b"
  ],
  "ops": [
   [
    "new",
    False,
    None
   ],
   [
    "add",
    0,
    0,
    0,
    None,
    None,
    None
   ],
   [
    "add",
    0,
    1,
    1,
    None,
    None,
    {
     "n": 1
    }
   ]
  ]
 },
 {
  "id": "D42",
  "univ": [
   "s:a",
   "s:b"
  ],
  "ops": [
   [
    "new",
    False,
    None
   ],
   [
    "add",
    0,
    0,
    0,
    None,
    None,
    None
   ],
   [
    "add",
    0,
    1,
    1,
    None,
    None,
    2
   ]
  ]
 },
 {
  "id": "D06",
  "univ": [
   "s:a",
   "s:b"
  ],
  "ops": [
   [
    "new",
    False,
    None
   ],
   [
    "add",
    0,
    0,
    0,
    None,
    None,
    None
   ],
   [
    "add",
    0,
    1,
    1,
    None,
    None,
    None
   ],
   [
    "addnode",
    0,
    2,
    0,
    1,
    None,
    None,
    None,
    True
   ]
  ]
 },
 {
  "id": "D07",
  "univ": [
   "s:a",
   "s:b"
  ],
  "ops": [
   [
    "new",
    False,
    None
   ],
   [
    "add",
    0,
    0,
    0,
    None,
    None,
    None
   ],
   [
    "set_data",
    0,
    1,
    None,
    0,
    None
   ]
  ]
 },
 {
  "id": "D07b",
  "univ": [
   "s:a",
   "s:b",
   "s:c"
  ],
  "ops": [
   [
    "new",
    False,
    None
   ],
   [
    "add",
    0,
    0,
    0,
    None,
    None,
    None
   ],
   [
    "add",
    0,
    0,
    1,
    None,
    None,
    None
   ],
   [
    "add",
    0,
    2,
    2,
    None,
    None,
    None
   ],
   [
    "addnode",
    0,
    3,
    0,
    1,
    0,
    None,
    None,
    None
   ]
  ]
 },
 {
  "id": "D09",
  "univ": [
   "s:a",
   "s:b"
  ],
  "ops": [
   [
    "new",
    False,
    None
   ],
   [
    "add",
    0,
    0,
    0,
    None,
    None,
    None
   ],
   [
    "add",
    0,
    0,
    1,
    None,
    None,
    None
   ],
   [
    "add",
    0,
    2,
    0,
    None,
    None,
    None
   ],
   [
    "move",
    0,
    3,
    0,
    0,
    None
   ]
  ]
 },
 {
  "id": "D10",
  "univ": [
   "s:a",
   "s:b"
  ],
  "ops": [
   [
    "new",
    False,
    None
   ],
   [
    "add",
    0,
    0,
    0,
    None,
    None,
    None
   ],
   [
    "add",
    0,
    0,
    1,
    None,
    None,
    None
   ],
   [
    "add",
    0,
    2,
    0,
    None,
    None,
    None
   ],
   [
    "remove",
    0,
    2,
    True,
    False
   ]
  ]
 },
 {
  "id": "D11",
  "univ": [
   "s:a",
   "s:b"
  ],
  "ops": [
   [
    "new",
    False,
    None
   ],
   [
    "add",
    0,
    0,
    0,
    None,
    None,
    None
   ],
   [
    "add",
    0,
    0,
    1,
    None,
    None,
    None
   ],
   [
    "rename",
    0,
    2,
    0
   ]
  ]
 },
 {
  "id": "D12",
  "univ": [
   "s:a",
   "s:b"
  ],
  "ops": [
   [
    "new",
    False,
    None
   ],
   [
    "add",
    0,
    0,
    0,
    None,
    None,
    None
   ],
   [
    "add",
    0,
    0,
    1,
    None,
    None,
    None
   ],
   [
    "addnode",
    0,
    1,
    0,
    2,
    None,
    None,
    None,
    None
   ]
  ]
 },
 {
  "id": "D13",
  "univ": [
   "s:a",
   "s:b"
  ],
  "ops": [
   [
    "new",
    False,
    None
   ],
   [
    "add",
    0,
    0,
    0,
    None,
    None,
    None
   ],
   [
    "add",
    0,
    0,
    1,
    None,
    None,
    False
   ]
  ]
 },
 {
  "id": "D14",
  "univ": [
   "s:a",
   "s:b"
  ],
  "ops": [
   [
    "new",
    True,
    None
   ],
   [
    "add",
    0,
    0,
    0,
    None,
    "k1",
    None
   ],
   [
    "short",
    0,
    1,
    "append_sibling",
    1,
    None,
    None
   ]
  ]
 },
 {
  "id": "D15",
  "univ": [
   "s:a",
   "s:b"
  ],
  "ops": [
   [
    "new",
    True,
    None
   ],
   [
    "add",
    0,
    0,
    0,
    None,
    "k1",
    None
   ],
   [
    "short",
    0,
    1,
    "prepend_child",
    1,
    None,
    "k1"
   ]
  ]
 },
 {
  "id": "D16",
  "univ": [
   "s:a",
   "s:b"
  ],
  "ops": [
   [
    "new",
    True,
    None
   ],
   [
    "add",
    0,
    0,
    0,
    None,
    "k1",
    None
   ],
   [
    "short",
    0,
    1,
    "prepend_sibling",
    1,
    None,
    None
   ]
  ]
 },
 {
  "id": "D20",
  "univ": [
   "s:a",
   "s:b"
  ],
  "ops": [
   [
    "new",
    False,
    None
   ],
   [
    "add",
    0,
    0,
    0,
    "X",
    None,
    None
   ],
   [
    "add",
    0,
    0,
    1,
    None,
    None,
    None
   ],
   [
    "addnode",
    0,
    2,
    0,
    1,
    None,
    None,
    None,
    None
   ]
  ]
 },
 {
  "id": "D21",
  "univ": [
   "s:a",
   "s:b",
   "s:c"
  ],
  "ops": [
   [
    "new",
    True,
    None
   ],
   [
    "add",
    0,
    0,
    0,
    None,
    "k1",
    None
   ],
   [
    "add",
    0,
    1,
    1,
    None,
    "k2",
    None
   ],
   [
    "add",
    0,
    0,
    2,
    None,
    "k1",
    None
   ],
   [
    "addnode",
    0,
    3,
    0,
    1,
    None,
    "k1",
    None,
    True
   ]
  ]
 },
 {
  "id": "D22",
  "univ": [
   "s:a"
  ],
  "ops": [
   [
    "new",
    True,
    None
   ],
   [
    "add",
    0,
    0,
    0,
    None,
    "k1",
    None
   ],
   [
    "treecopy",
    0
   ]
  ]
 },
 {
  "id": "D23",
  "univ": [
   "s:a",
   "s:b"
  ],
  "ops": [
   [
    "new",
    False,
    None
   ],
   [
    "new",
    False,
    None
   ],
   [
    "add",
    0,
    0,
    0,
    None,
    None,
    None
   ],
   [
    "add",
    0,
    0,
    1,
    None,
    None,
    None
   ],
   [
    "addtree",
    1,
    0,
    0,
    True,
    None
   ]
  ]
 },
 {
  "id": "D29",
  "univ": [
   "s:a",
   "s:b",
   "s:c"
  ],
  "ops": [
   [
    "new",
    False,
    None
   ],
   [
    "add",
    0,
    0,
    0,
    None,
    None,
    None
   ],
   [
    "add",
    0,
    0,
    1,
    None,
    None,
    None
   ],
   [
    "add",
    0,
    2,
    2,
    None,
    None,
    None
   ],
   [
    "move",
    0,
    1,
    0,
    0,
    {
     "n": 3
    }
   ]
  ]
 },
 {
  "id": "D41",
  "univ": [
   "s:a",
   "s:b"
  ],
  "ops": [
   [
    "new",
    False,
    None
   ],
   [
    "add",
    0,
    0,
    0,
    None,
    None,
    None
   ],
   [
    "add",
    0,
    0,
    1,
    None,
    None,
    None
   ],
   [
    "add",
    0,
    2,
    0,
    None,
    None,
    None
   ],
   [
    "set_data",
    0,
    3,
    None,
    "N",
    False
   ]
  ]
 },
 {
  "id": "D43",
  "univ": [
   "s:a",
   "s:b"
  ],
  "ops": [
   [
    "new",
    False,
    None
   ],
   [
    "add",
    0,
    0,
    0,
    None,
    None,
    None
   ],
   [
    "add",
    0,
    1,
    0,
    None,
    None,
    None
   ],
   [
    "add",
    0,
    2,
    1,
    None,
    None,
    None
   ],
   [
    "add",
    0,
    0,
    1,
    None,
    None,
    None
   ],
   [
    "remove",
    0,
    1,
    True,
    True
   ]
  ]
 },
 {
  "id": "D44",
  "univ": [
   "s:a",
   "s:b"
  ],
  "ops": [
   [
    "new",
    False,
    None
   ],
   [
    "new",
    False,
    None
   ],
   [
    "add",
    0,
    0,
    1,
    None,
    None,
    None
   ],
   [
    "add",
    0,
    0,
    0,
    None,
    None,
    None
   ],
   [
    "add",
    1,
    0,
    0,
    None,
    None,
    None
   ],
   [
    "addtree",
    1,
    0,
    0,
    None,
    None
   ]
  ]
 },
 {
  "id": "D44b",
  "univ": [
   "s:a",
   "s:b",
   "s:c"
  ],
  "ops": [
   [
    "new",
    False,
    None
   ],
   [
    "add",
    0,
    0,
    2,
    None,
    None,
    None
   ],
   [
    "add",
    0,
    1,
    1,
    None,
    None,
    None
   ],
   [
    "add",
    0,
    1,
    0,
    None,
    None,
    None
   ],
   [
    "add",
    0,
    0,
    0,
    None,
    None,
    None
   ],
   [
    "copyto",
    0,
    1,
    0,
    0,
    False,
    None,
    False
   ]
  ]
 },
 {
  "id": "D45",
  "univ": [
   "s:a"
  ],
  "ops": [
   [
    "new",
    False,
    None
   ],
   [
    "new",
    False,
    None
   ],
   [
    "addtree",
    1,
    0,
    0,
    None,
    None
   ]
  ]
 },
 {
  "id": "D05",
  "univ": [
   "s:a",
   "s:b",
   "s:c"
  ],
  "ops": [
   [
    "new",
    False,
    None
   ],
   [
    "add",
    0,
    0,
    0,
    None,
    None,
    None
   ],
   [
    "add",
    0,
    1,
    1,
    None,
    None,
    None
   ],
   [
    "add",
    0,
    1,
    2,
    None,
    None,
    None
   ],
   [
    "filter",
    0,
    0,
    {
     "1": "skip_keep"
    }
   ]
  ]
 },
 {
  "id": "D42b",
  "univ": [
   "s:a",
   "s:b"
  ],
  "ops": [
   [
    "new",
    False,
    None
   ],
   [
    "add",
    0,
    0,
    0,
    None,
    None,
    None
   ],
   [
    "add",
    0,
    0,
    1,
    None,
    None,
    None
   ],
   [
    "move",
    0,
    1,
    0,
    2,
    2
   ]
  ]
 },
 {
  "id": "D25",
  "univ": [
   "s:a",
   "s:b",
   "s:c"
  ],
  "ops": [
   [
    "new",
    False,
    None
   ],
   [
    "add",
    0,
    0,
    0,
    None,
    None,
    None
   ],
   [
    "add",
    0,
    0,
    1,
    None,
    None,
    None
   ],
   [
    "add",
    0,
    0,
    2,
    None,
    None,
    None
   ],
   [
    "filter",
    0,
    0,
    {
     "1": "F",
     "2": "stop"
    }
   ]
  ]
 }
]


def run_group(group, oracles=ALL_ORACLES):
    """One exhaustive group (setup + alternative last ops): replays setup+alt for every alternative.
    Returns (coq term of type mcase, observation, list of Run) - the observation is what
    `CaseMut.run_mut (CAlts setup alts)` renders."""
    k = len(group["setup"])
    setup = replay({"univ": group["univ"], "ops": group["setup"]}, oracles=(), queries=False)
    # the read-only queries are called once, right before the op under test
    runs = [replay({"univ": group["univ"], "ops": group["setup"] + [alt]}, oracles=oracles, queries=k - 1) for alt in group["alts"]]
    obs = [setup.obs, [r.obs[-1] for r in runs]]
    return coq_alts(setup, runs), obs, runs
