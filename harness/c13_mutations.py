"""usage: mutate.py <repo dir> <Mx> : applies one sensitivity mutation (string replacement, must match exactly once)"""
import sys
repo, which = sys.argv[1], sys.argv[2]

def rep(path, old, new, count=1):
    p = f"{repo}/{path}"
    s = open(p).read()
    assert s.count(old) == count, (which, path, s.count(old))
    open(p, "w").write(s.replace(old, new))

if which == "M1":   # move_to detaches before the uniqueness check
    rep("nutree/node.py", '''        if new_parent is not self._parent:
            for n in new_parent.children:
                if n._data_id == self._data_id:
                    raise UniqueConstraintError("Node.data already exists in parent")

        # NOTE: `list.remove()` checks for equality ('=='), not identity!
        del self._parent._children[Node.get_index(self)]  # type: ignore
        if not self._parent._children:  # store None instead of `[]`
            self._parent._children = None
''', '''        # NOTE: `list.remove()` checks for equality ('=='), not identity!
        old_parent = self._parent
        del self._parent._children[Node.get_index(self)]  # type: ignore
        if not self._parent._children:  # store None instead of `[]`
            self._parent._children = None
        if new_parent is not old_parent:
            for n in new_parent.children:
                if n._data_id == self._data_id:
                    raise UniqueConstraintError("Node.data already exists in parent")
''')
elif which == "M2":  # add_child validates a `before` node of another parent after the constructor registered the node
    rep("nutree/node.py", '''        if isinstance(before, Node):
            if before._parent is not self:
                raise ValueError(
                    f"`before=node` ({before._parent}) "
                    f"must be a child of target node ({self})"
                )
        elif before is not None and not isinstance(before, int):
            raise TypeError(f"`before` must be None, bool, int, or Node: {before!r}")

        if source_node is not None:
            # If creating an inherited node, use the parent class as constructor
            child_class = child.__class__
            if data_id is None:
                data_id = source_node._data_id

            node = child_class(
                source_node.data, parent=self, data_id=data_id, node_id=node_id
            )
        else:
            node = factory(child, parent=self, data_id=data_id, node_id=node_id)
''', '''        if before is not None and not isinstance(before, (int, Node)):
            raise TypeError(f"`before` must be None, bool, int, or Node: {before!r}")

        if source_node is not None:
            # If creating an inherited node, use the parent class as constructor
            child_class = child.__class__
            if data_id is None:
                data_id = source_node._data_id

            node = child_class(
                source_node.data, parent=self, data_id=data_id, node_id=node_id
            )
        else:
            node = factory(child, parent=self, data_id=data_id, node_id=node_id)

        if isinstance(before, Node) and before._parent is not self:
            raise ValueError(
                f"`before=node` ({before._parent}) "
                f"must be a child of target node ({self})"
            )
''')
elif which == "M3":  # set_data re-keys the index before the sibling check
    old_check = '''            # No re-keyed node may get a sibling with the same data_id
            for n in cur_nodes if (has_clones and with_clones) else [self]:
                for sibling in n._parent._children:  # type: ignore
                    if sibling._data_id == new_data_id:
                        raise UniqueConstraintError(
                            f"data_id {new_data_id!r} already exists in parent"
                        )

'''
    rep("nutree/node.py", old_check, "            rekeyed = list(cur_nodes) if (has_clones and with_clones) else [self]\n")
    rep("nutree/node.py", '''                self._data_id = new_data_id
                if new_data is not None:
                    self._data = new_data
        elif new_data is not None:
''', '''                self._data_id = new_data_id
                if new_data is not None:
                    self._data = new_data
            # No re-keyed node may get a sibling with the same data_id
            for n in rekeyed:
                for sibling in n._parent._children:  # type: ignore
                    if sibling is not n and sibling._data_id == new_data_id:
                        raise UniqueConstraintError(
                            f"data_id {new_data_id!r} already exists in parent"
                        )
        elif new_data is not None:
''')
elif which == "M4":  # sort_children rebuilds the child list: a raising key leaves it empty
    rep("nutree/node.py", '''        cl.sort(key=key, reverse=reverse)
        if deep:''', '''        items = cl[:]
        del cl[:]
        cl.extend(sorted(items, key=key, reverse=reverse))
        if deep:''')
elif which == "M5":  # remove(keep_children) checks uniqueness after having re-parented the children
    rep("nutree/node.py", '''            self._check_keep_children([self])
            # Replace this node by its children
            children = self.children
            for c in children:
                c._parent = self._parent
''', '''            # Replace this node by its children
            children = self.children
            for c in children:
                c._parent = self._parent
            self._check_keep_children([self])
''')
elif which == "M6":  # _check_copies compares node ids instead of data ids: never refuses up front
    rep("nutree/node.py", '''        child_ids = {n._data_id for n in self.children}''', '''        child_ids = {n._node_id for n in self.children}''')
elif which == "M7":  # diff(ordered=True) marks the SOURCE parent as renumbered (p0 instead of p2)
    rep("nutree/diff.py", '''                    p2.set_meta("dc_renumbered", True)''', '''                    p0.set_meta("dc_renumbered", True)''')
elif which == "M8":  # Tree.copy_to / add(tree): reverse the source's own top-level list (alias instead of copy)
    rep("nutree/node.py", '''            topnodes = child._root.children.copy()''', '''            topnodes = child._root.children''')
elif which == "M9":  # from_dict cleans up only after a uniqueness refusal: the typed branch / other refusals leave the half-built branch
    rep("nutree/node.py", '''        except Exception:
            # Do not leave a half-built branch behind''', '''        except AmbiguousMatchError:
            # Do not leave a half-built branch behind''')
elif which == "M10":  # visit(LEVEL_ORDER) uses the first live child list of a level as its work queue
    rep("nutree/node.py", '''        children = self._children
        while children:
            next_level = []
            for c in children:
                if call_traversal_cb(callback, c, memo) is False:
                    continue
                if c._children:
                    next_level.extend(c._children)
            children = next_level
''', '''        children = self._children
        while children:
            next_level = None
            for c in children:
                if call_traversal_cb(callback, c, memo) is False:
                    continue
                if c._children:
                    if next_level is None:
                        next_level = c._children
                    else:
                        next_level.extend(c._children)
            children = next_level
''')
elif which == "M11":  # filter: SkipBranch(and_self=False) unlinks at once but unregisters at the end
    rep("nutree/node.py", '''        stopped = False

        def _visit(parent: Node) -> bool:''', '''        stopped = False
        dropped = []

        def _visit(parent: Node) -> bool:''')
    rep("nutree/node.py", '''                    if res.and_self is False:
                        n.remove_children()
                        must_keep = True''', '''                    if res.and_self is False:
                        dropped.extend(n._iter_post())
                        n._children = None
                        must_keep = True''')
    rep("nutree/node.py", '''        _visit(self)
        return

    def from_dict(''', '''        _visit(self)
        for d in dropped:
            self._tree._unregister(d)
        return

    def from_dict(''')
elif which == "M15":  # remove(with_clones, keep_children) validates only the node itself, not all clones, up front
    rep("nutree/node.py", '''                self._check_keep_children(self.get_clones(add_self=True))''', '''                self._check_keep_children([self])''')
elif which == "M17":  # from_dict removes only the item that failed, not the whole half-built branch
    rep("nutree/node.py", '''        assert not self._children
        try:
            for item in obj:''', '''        assert not self._children
        child = None
        try:
            for item in obj:''')
    rep("nutree/node.py", '''            # Do not leave a half-built branch behind
            self.remove_children()
            raise''', '''            # Do not leave a half-built branch behind
            if child is not None and child._tree is not None:
                child.remove()
            raise''')
else:
    raise SystemExit("unknown mutation")
print("applied", which)
