"""C20 — build_random_tree produces a tree that conforms to its structure definition.

The global `random` module (and fabulist) as seen by nutree/tree_generator.py is
replaced, inside this process only, by readers of an explicit stream of draws;
the Coq model (theories/Forest/RandomTree.v) consumes the same stream.  The
oracle is an independent conformance check of the resulting tree against the
structure definition (it never looks at the stream).
"""
from __future__ import annotations

import datetime
import re as _re
import random as _real_random
import json as _json
import string
import sys
from fractions import Fraction

import common as H
from common import Case

import nutree.tree_generator as TG
from nutree import Tree, TypedTree
from nutree.common import DictWrapper
from nutree.typed_tree import TypedNode

SPECIAL = (":count", ":callback", ":factory")
EPOCH_ORD = datetime.date(1970, 1, 1).toordinal()
MS_PER_DAY = 86400000


# ---------------------------------------------------------------------------
# the stream readers that stand in for `random` and `fab` inside tree_generator
# ---------------------------------------------------------------------------
class Stream:
    def __init__(self, draws):
        self.draws = [tuple(d) for d in draws]
        self.pos = 0
        self.log = []

    def next(self, what):
        if self.pos < len(self.draws):
            d = self.draws[self.pos]
        else:
            d = (0, 1, "")
        self.pos += 1
        self.log.append(what)
        return d


def _to_pos(d):
    return d if d >= 1 else 1


class FakeRandom:
    """Only the functions tree_generator.py calls; anything else is an AttributeError
    (= the model no longer covers what the code does)."""

    def __init__(self, st: Stream):
        self._st = st

    def random(self):
        n, d, _ = self._st.next("random")
        d = _to_pos(d)
        return (n % d) / d

    def randrange(self, start, stop=None):
        n, _, _ = self._st.next("randrange")
        if stop is None:
            start, stop = 0, start
        if stop - start <= 0:
            raise ValueError("empty range for randrange()")
        return start + n % (stop - start)

    def uniform(self, a, b):
        n, d, _ = self._st.next("uniform")
        d = _to_pos(d)
        return a + (b - a) * ((n % d) / d)

    def sample(self, population, k, *, counts=None):
        n, _, _ = self._st.next("sample")
        if k != 1:
            raise ValueError("harness: only k=1 is modelled")
        pop = list(population)
        if counts is None:
            cnts = [1] * len(pop)
        else:
            cnts = list(counts)
            if len(cnts) != len(pop):
                raise ValueError("The number of counts does not match the population")
        tot = sum(cnts)
        if tot <= 0:
            raise ValueError("Total of counts must be greater than zero")
        j = n % tot
        for v, c in zip(pop, cnts):
            if j < c:
                return [v]
            j -= c
        raise AssertionError


def _canon(x):
    return "-".join(str(y) for y in x) if isinstance(x, (list, tuple)) else str(x)


def quote_tag(template):
    """what the fabulist stand-ins echo for get_quote(template)"""
    return "[Q:" + ("|".join(template) if isinstance(template, (list, tuple)) else template) + "]"


LOREM_KEYS = ("sentence_count", "dialect", "entropy", "keep_first", "words_per_sentence")
LOREM_DEFAULTS = dict(sentence_count=(2, 6), dialect="ipsum", entropy=2, keep_first=False, words_per_sentence=(3, 15))


def lorem_tag(kw):
    """what the fabulist stand-ins echo for get_lorem_paragraph(**kw)"""
    return "[L:" + "|".join(_canon(kw.get(k, "?")) for k in LOREM_KEYS) + ("" if set(kw) <= set(LOREM_KEYS) else "|+") + "]"


def declared_tag(j):
    if j["R"] == "Text":
        return quote_tag(j["tmpl"])
    return lorem_tag(dict(LOREM_DEFAULTS, **(j.get("kw") or {})))


class FakeFab:
    def __init__(self, st: Stream):
        self._st = st

    def __bool__(self):
        return True

    def get_quote(self, template):
        return quote_tag(template) + self._st.next("text")[2]

    def get_lorem_paragraph(self, **kw):
        return lorem_tag(kw) + self._st.next("text")[2]


class RecRandom:
    """'real' mode: the REAL random module answers (seeded); every answer is recorded as the draw that makes
    the model answer the same (random() = k/2**53 exactly; randrange(a,b) = a + n; sample = index)."""

    def __init__(self, st: Stream):
        self._st = st

    def random(self):
        r = _real_random.random()
        self._st.draws.append((int(r * 2 ** 53), 2 ** 53, ""))
        self._st.next("random")
        return r

    def randrange(self, start, stop=None):
        v = _real_random.randrange(start, stop) if stop is not None else _real_random.randrange(start)
        self._st.draws.append((v - (start if stop is not None else 0), 1, ""))
        self._st.next("randrange")
        return v

    def sample(self, population, k, *, counts=None):
        if k != 1:
            raise ValueError("harness: only k=1 is modelled")
        picked = _real_random.sample(range(len(population)), 1, counts=counts)[0]    # the real sampler, on positions
        cnts = list(counts) if counts is not None else [1] * len(population)
        self._st.draws.append((sum(cnts[:picked]), 1, ""))
        self._st.next("sample")
        return [population[picked]]


class RecFab:
    def __init__(self, st: Stream, real):
        self._st = st
        self._real = real

    def __bool__(self):
        return True

    def get_quote(self, template):
        t = self._real.get_quote(template)
        self._st.draws.append((0, 1, t))
        self._st.next("text")
        return quote_tag(template) + t

    def get_lorem_paragraph(self, **kw):
        t = self._real.get_lorem_paragraph(**kw)
        self._st.draws.append((0, 1, t))
        self._st.next("text")
        return lorem_tag(kw) + t


class patched:
    def __init__(self, st, real_seed=None):
        self.st = st
        self.real_seed = real_seed

    def __enter__(self):
        self.saved = (TG.random, TG.fab)
        if self.real_seed is not None:
            _real_random.seed(self.real_seed)
            TG.random = RecRandom(self.st)
            TG.fab = RecFab(self.st, self.saved[1])
        else:
            TG.random = FakeRandom(self.st)
            TG.fab = FakeFab(self.st)

    def __exit__(self, *a):
        TG.random, TG.fab = self.saved


# ---------------------------------------------------------------------------
# desc (JSON) -> real Python values / Coq terms
# ---------------------------------------------------------------------------
def fl(q):
    return q[0] / q[1]


class Obj:
    """a node-data class of the harness (":factory": Obj)"""

    def __init__(self, /, **kw):
        self.kw = kw


FACTORIES = {"DictWrapper": (0, DictWrapper), "Obj": (1, Obj)}


def make_cb(c):
    if c[0] == "set":
        return lambda data: data.__setitem__(c[1], c[2])
    if c[0] == "del":
        return lambda data: data.pop(c[1], None)
    raise ValueError(c)


def py_value(j):
    if j is None or isinstance(j, (bool, int, str)):
        return j
    if "f" in j:
        return fl(j["f"])
    if "d" in j:
        return datetime.date.fromordinal(j["d"])
    if "factory" in j:
        return FACTORIES[j["factory"]][1]
    if "cb" in j:
        return make_cb(j["cb"])
    k = j["R"]
    p = fl(j["p"])
    if k == "RangeI":
        return TG.RangeRandomizer(j["lo"], j["hi"], probability=p, none_value=py_value(j["none"]))
    if k == "RangeF":
        return TG.RangeRandomizer(fl(j["lo"]), fl(j["hi"]), probability=p, none_value=py_value(j["none"]))
    if k == "Date":
        mx = j["days"] if j.get("days") is not None else datetime.date.fromordinal(j["max"])
        return TG.DateRangeRandomizer(datetime.date.fromordinal(j["min"]), mx, as_js_stamp=j["stamp"], probability=p)
    if k == "Value":
        return TG.ValueRandomizer(py_value(j["v"]), probability=p)
    if k == "SparseBool":
        return TG.SparseBoolRandomizer(probability=p)
    if k == "Sample":
        return TG.SampleRandomizer([py_value(v) for v in j["vals"]], counts=j["counts"], probability=p)
    if k == "Text":
        return TG.TextRandomizer(tuple(j["tmpl"]) if isinstance(j["tmpl"], list) else j["tmpl"], probability=p)
    if k == "BlindText":
        kw = {a: (tuple(b) if isinstance(b, list) else b) for a, b in (j.get("kw") or {}).items()}
        return TG.BlindTextRandomizer(probability=p, **kw)
    raise ValueError(j)


def py_spec(spec):
    return {k: py_value(v) for k, v in spec}


def py_def(desc):
    sd = {}
    if desc.get("name") is not None:
        sd["name"] = desc["name"]
    if desc.get("types") is not None:
        sd["types"] = {t: py_spec(s) for t, s in desc["types"]}
    sd["relations"] = {p: {c: py_spec(s) for c, s in cs} for p, cs in desc["relations"]}
    return sd


def expand_pool(step):
    """a step with every {"pool": k} reference replaced by the pool entry (for the model and the oracle)"""
    pool = step.get("pool") or []

    def ex(spec):
        return [[k, pool[v["pool"]] if isinstance(v, dict) and "pool" in v else v] for k, v in spec]

    out = dict(step)
    out.pop("pool", None)
    if step.get("types") is not None:
        out["types"] = [[t, ex(sp)] for t, sp in step["types"]]
    out["relations"] = [[p, [[c, ex(sp)] for c, sp in cs]] for p, cs in step["relations"]]
    return out


def reconfigure(obj, j):
    """set every public attribute of a live randomizer to the configuration j (same class)"""
    k = j["R"]
    obj.probability = fl(j["p"])
    if k == "RangeI":
        obj.min, obj.max, obj.none_value = j["lo"], j["hi"], py_value(j["none"])
    elif k == "RangeF":
        obj.min, obj.max, obj.none_value = fl(j["lo"]), fl(j["hi"]), py_value(j["none"])
    elif k == "Date":
        days = j["days"] if j.get("days") is not None else j["max"] - j["min"]
        obj.min = datetime.date.fromordinal(j["min"])
        obj.delta_days = days
        obj.max = obj.min + datetime.timedelta(days=days)
        obj.as_js_stamp = j["stamp"]
    elif k == "Value":
        obj.value = py_value(j["v"])
    elif k == "Sample":
        obj.sample_list = [py_value(v) for v in j["vals"]]
        obj.counts = j["counts"]
    elif k == "Text":
        obj.template = tuple(j["tmpl"]) if isinstance(j["tmpl"], list) else j["tmpl"]
    elif k == "BlindText":
        for a, b in dict(LOREM_DEFAULTS, **(j.get("kw") or {})).items():
            setattr(obj, a, tuple(b) if isinstance(b, list) else b)


class Live:
    """the caller's objects of a session: ONE structure_def dict (and its nested dicts) and the randomizer
    objects, kept across builds and edited in place to the configuration of the next step"""

    def __init__(self):
        self.sd = {}
        self.pool = []
        self.pool_json = []
        self.last = None
        self.reused = 0

    def _rnd(self, old_obj, old_j, j):
        if (isinstance(old_obj, TG.Randomizer) and is_rnd(old_j) and old_j["R"] == j["R"]):
            reconfigure(old_obj, j)
            self.reused += 1
            return old_obj
        return py_value(j)

    def _spec(self, live, old_spec, new_spec, raw_spec):
        old = dict((k, v) for k, v in (old_spec or []))
        objs = dict(live)
        live.clear()
        for (k, j), (_, raw) in zip(new_spec, raw_spec):
            if isinstance(raw, dict) and "pool" in raw:
                live[k] = self.pool[raw["pool"]]
            elif is_rnd(j):
                live[k] = self._rnd(objs.get(k), old.get(k), j)
            else:
                live[k] = py_value(j)

    def sync(self, desc):
        pool_json = desc.get("_pool") or []
        for k, j in enumerate(pool_json):
            if k < len(self.pool):
                self.pool[k] = self._rnd(self.pool[k], self.pool_json[k], j)
            else:
                self.pool.append(py_value(j))
        self.pool_json = list(pool_json)
        last = self.last or {}
        sd = self.sd
        if desc.get("name") is not None:
            sd["name"] = desc["name"]
        else:
            sd.pop("name", None)
        for sect, two_level in (("types", False), ("relations", True)):
            new = desc.get(sect)
            if new is None:
                sd.pop(sect, None)
                continue
            livesect = sd.setdefault(sect, {})
            oldsect = dict((k, v) for k, v in (last.get(sect) or []))
            keep = dict(livesect)
            livesect.clear()
            for name, body in new:
                d = keep.get(name)
                if not isinstance(d, dict):
                    d = {}
                if two_level:
                    oldrel = dict((k, v) for k, v in (oldsect.get(name) or []))
                    keep2 = dict(d)
                    d.clear()
                    for c, spec in body:
                        dd = keep2.get(c)
                        if not isinstance(dd, dict):
                            dd = {}
                        self._spec(dd, oldrel.get(c), spec, raw_of(desc, sect, name, c))
                        d[c] = dd
                else:
                    self._spec(d, oldsect.get(name), body, raw_of(desc, sect, name, None))
                livesect[name] = d
        self.last = desc
        return sd


def raw_of(desc, sect, name, child):
    """the spec as written in the step (with pool references), aligned with the expanded one"""
    raw = desc.get("_rawstep")
    if raw is None:
        return dict(desc[sect])[name] if child is None else dict(dict(desc[sect])[name])[child]
    return dict(raw[sect])[name] if child is None else dict(dict(raw[sect])[name])[child]


def def_shape(x):
    """keys (in order) and identity of the leaves of a structure definition"""
    if isinstance(x, dict):
        return [(k, def_shape(v)) for k, v in x.items()]
    return id(x)


def tokens(s: str):
    out = []
    for lit, field, spec, conv in string.Formatter().parse(s):
        if lit:
            out.append(("L", lit))
        if field is not None:
            m = _re.fullmatch(r"0(\d+)d", spec or "")
            if field == "idx" and m and not conv:
                out.append(("P", int(m.group(1))))
                continue
            if spec or conv or field not in ("idx", "hier_idx"):
                raise ValueError(f"template outside the modelled domain: {s!r}")
            out.append(("I",) if field == "idx" else ("H",))
    return out


def coq_tmpl(s):
    return H.coq_list(f"Lit {H.coq_text(t[1])}" if t[0] == "L" else ("Idx" if t[0] == "I" else "HierIdx" if t[0] == "H" else f"IdxPad {t[1]}%nat")
                      for t in tokens(s))


def coq_q(q):
    return f"(mkQ {H.z(q[0])} {H.z(q[1])})"


def coq_value(j):
    if j is None:
        return "VNone"
    if isinstance(j, bool):
        return f"(VBool {H.coq_bool(j)})"
    if isinstance(j, int):
        return f"(VInt {H.z(j)})"
    if isinstance(j, str):
        return f"(VStr {coq_tmpl(j)})"
    if "f" in j:
        return f"(VFlt {coq_q(j['f'])})"
    if "d" in j:
        return f"(VDate {H.z(j['d'])})"
    raise ValueError(j)


def coq_sval(j):
    if isinstance(j, dict) and "factory" in j:
        return f"(SV (VFac {FACTORIES[j['factory']][0]}))"
    if isinstance(j, dict) and "cb" in j:
        c = j["cb"]
        return f"(SV (VCbSet {H.coq_text(c[1])} {H.z(c[2])}))" if c[0] == "set" else f"(SV (VCbDel {H.coq_text(c[1])}))"
    if not (isinstance(j, dict) and "R" in j):
        return f"(SV {coq_value(j)})"
    return f"(SR {coq_rnd(j)})"


def coq_rnd(j):
    k = j["R"]
    p = coq_q(j["p"])
    if k == "RangeI":
        return f"(RRangeI {H.z(j['lo'])} {H.z(j['hi'])} {p} {coq_value(j['none'])})"
    if k == "RangeF":
        return f"(RRangeF {coq_q(j['lo'])} {coq_q(j['hi'])} {p} {coq_value(j['none'])})"
    if k == "Date":
        days = j["days"] if j.get("days") is not None else j["max"] - j["min"]
        return f"(RDate {H.z(j['min'])} {H.z(days)} {H.coq_bool(j['stamp'])} {p})"
    if k == "Value":
        return f"(RValue {coq_value(j['v'])} {p})"
    if k == "SparseBool":
        return f"(RValue (VBool true) {p})"
    if k == "Sample":
        cnt = "None" if j["counts"] is None else "(Some " + H.coq_list(H.z(c) for c in j["counts"]) + ")"
        return f"(RSample {H.coq_list(coq_value(v) for v in j['vals'])} {cnt} {p})"
    if k in ("Text", "BlindText"):
        return f"(RText {coq_tmpl(declared_tag(j))} {p})"
    raise ValueError(j)


def coq_spec(spec):
    return H.coq_list(f"({H.coq_text(k)}, {coq_sval(v)})" for k, v in spec)


def coq_def(desc):
    types = desc.get("types") or []
    return ("(SD " + H.coq_opt(desc.get("name"), H.coq_text) + " "
            + H.coq_list(f"({H.coq_text(t)}, {coq_spec(s)})" for t, s in types) + " "
            + H.coq_list(f"({H.coq_text(p)}, " + H.coq_list(f"({H.coq_text(c)}, {coq_spec(s)})" for c, s in cs) + ")"
                         for p, cs in desc["relations"]) + ")")


def coq_stream(stream):
    return H.coq_list(f"D {H.z(n)} {H.z(d)} {coq_tmpl(t)}" for n, d, t in stream)


# ---------------------------------------------------------------------------
# observation
# ---------------------------------------------------------------------------
def obs_value(v):
    if v is None:
        return [0]
    if isinstance(v, bool):
        return [1, v]
    if isinstance(v, int):
        return [2, v]
    if isinstance(v, float):
        q = Fraction(v)
        return [3, q.numerator, q.denominator]
    if isinstance(v, str):
        return [4, v]
    if isinstance(v, datetime.date):
        return [5, v.toordinal()]
    return [99, str(type(v))]


def obs_node(n):
    kind = n.kind if isinstance(n, TypedNode) else None
    fac, items = data_of(n)
    return [H.sx_kind(kind), fac, [[k, obs_value(v)] for k, v in items], [obs_node(c) for c in (n._children or [])]]


def data_of(n):
    d = n.data
    if type(d) is DictWrapper:
        return 0, list(d._dict.items())
    if type(d) is Obj:
        return 1, list(d.kw.items())
    return 99, [("?", repr(d))]


# ---------------------------------------------------------------------------
# independent oracle: conformance of the tree to the definition
# ---------------------------------------------------------------------------
def expand_str(s, i, path):
    out = []
    k = 0
    while k < len(s):
        if s.startswith("{{", k):
            out.append("{"); k += 2
        elif s.startswith("}}", k):
            out.append("}"); k += 2
        elif s.startswith("{idx}", k):
            out.append(str(i)); k += 5
        elif _re.match(r"\{idx:0\d+d\}", s[k:]):
            m = _re.match(r"\{idx:0(\d+)d\}", s[k:])
            out.append(str(i).zfill(int(m.group(1)))); k += m.end()
        elif s.startswith("{hier_idx}", k):
            out.append(".".join(str(x) for x in path)); k += 10
        else:
            out.append(s[k]); k += 1
    return "".join(out)


def same(a, b):
    return type(a) is type(b) and a == b


def is_rnd(j):
    return isinstance(j, dict) and "R" in j


def plain(j, i, path):
    """value a fixed (non-random) spec entry denotes for child i at path"""
    v = py_value(j)
    return expand_str(v, i, path) if isinstance(v, str) else v


def rnd_allows(j, v, i, path):
    """may randomizer j have produced the (present) attribute value v?"""
    k = j["R"]
    p = Fraction(*j["p"])
    if k in ("RangeI", "RangeF") and p < 1 and j["none"] is not None and same(v, plain(j["none"], i, path)):
        return True
    if p == 0:
        return False        # probability 0.0: never generated (D60)
    if k == "RangeI":
        return type(v) is int and j["lo"] <= v <= j["hi"]
    if k == "RangeF":
        return type(v) is float and Fraction(*j["lo"]) <= Fraction(v) <= Fraction(*j["hi"])
    if k == "Date":
        lo = j["min"]
        hi = j["min"] + j["days"] if j.get("days") is not None else j["max"]
        if j["stamp"]:
            if type(v) is not float:
                return False
            q = Fraction(v) / MS_PER_DAY
            return q.denominator == 1 and lo <= q.numerator + EPOCH_ORD <= hi
        return type(v) is datetime.date and lo <= v.toordinal() <= hi
    if k == "Value":
        return j["v"] is not None and same(v, plain(j["v"], i, path))
    if k == "SparseBool":
        return v is True
    if k == "Sample":
        cnts = j["counts"] or [1] * len(j["vals"])
        return any(x is not None and c > 0 and same(v, plain(x, i, path)) for x, c in zip(j["vals"], cnts))
    if k in ("Text", "BlindText"):      # fabulist was called with the declared arguments; its words are an oracle
        return type(v) is str and v.startswith(expand_str(declared_tag(j), i, path))
    return False


def rnd_may_skip(j):
    k = j["R"]
    p = Fraction(*j["p"])
    if k in ("RangeI", "RangeF"):
        return p < 1 and j["none"] is None
    if k == "Value" and j["v"] is None:
        return True
    if k == "Sample" and any(x is None for x in j["vals"]):
        return True
    return p < 1


def cnt(v):
    """children a resolved :count stands for; None = range(count) raises TypeError"""
    if v is True:
        return 1
    if type(v) is int:
        return max(v, 0)
    if v is None or v is False or (type(v) in (float, str) and not v):
        return 0            # `... or 0`
    return None


def count_typed(j):
    """can this :count only resolve to something range() accepts?  (CaseC20/RandomTreeProofs count_wfb)"""
    if not is_rnd(j):
        return not (isinstance(j, dict) and ("factory" in j or "cb" in j)) and cnt(py_value(j)) is not None
    k = j["R"]
    if k == "RangeI":
        return cnt(py_value(j["none"])) is not None
    if k == "Value":
        return count_typed(j["v"])
    if k == "SparseBool":
        return True
    if k == "Sample":
        return all(count_typed(x) for x in j["vals"])
    return False


def counts_typed(desc):
    return all(":count" not in m or count_typed(m[":count"])
               for p, cs in desc["relations"] for c, spec in cs for m in [merged(desc, c, spec)])


def allowed_counts(j):
    """numbers of children a relation with this :count may get in a tree that WAS built (values that make
    range() raise do not count: with them no tree is returned)"""
    if not is_rnd(j):
        return {cnt(py_value(j))} - {None}
    k = j["R"]
    p = Fraction(*j["p"])
    out = set()
    if p < 1:
        out.add(cnt(py_value(j["none"])) if k in ("RangeI", "RangeF") else 0)
    if p == 0:
        return out - {None}          # probability 0.0: never generated (D60)
    if k == "RangeI":
        out.update(max(x, 0) for x in range(j["lo"], j["hi"] + 1))
    elif k == "Value":
        out.add(cnt(py_value(j["v"])))
    elif k == "SparseBool":
        out.add(1)
    elif k == "Sample":
        out.update(cnt(py_value(x)) for x in j["vals"])
    # RangeF / Date / Text: floats, dates and strings are refused by range()
    return out - {None}


def merged(desc, ctype, spec):
    types = dict((t, s) for t, s in (desc.get("types") or []))
    m = {}
    for src in (types.get("*", []), types.get(ctype, []), spec):
        for k, v in src:
            m[k] = v       # later source wins, first position kept
    return m


def oracle(desc, tree):
    cls = TypedTree if desc["typed"] else Tree
    if type(tree) is not cls:
        return f"class: got {type(tree).__name__}"
    if desc.get("name") is not None and tree.name != desc["name"]:
        return f"name: got {tree.name!r}"
    rels = dict((p, cs) for p, cs in desc["relations"])
    why = []

    def align(m, items, i, path, wild=None, optional=None):
        pos = 0
        for k, j in m.items():
            if k in SPECIAL:
                continue
            if pos < len(items) and items[pos][0] == k:
                v = items[pos][1]
                pos += 1
                if k == wild:
                    continue
                if is_rnd(j):
                    if not rnd_allows(j, v, i, path):
                        return f"random value: attribute {k!r} of node {path} = {v!r} not allowed by {j}"
                elif not same(v, plain(j, i, path)):
                    return f"attribute: {k!r} of node {path} = {v!r}, expected {plain(j, i, path)!r}"
            elif k != optional and not (is_rnd(j) and rnd_may_skip(j)):
                return f"attribute missing: {k!r} of node {path} (have {[x[0] for x in items]})"
        if pos != len(items):
            return f"attribute unexpected: {items[pos][0]!r} of node {path}"
        return None

    def attrs_ok(m, node, i, path):
        fac, items = data_of(node)
        want = FACTORIES[m[":factory"]["factory"]][0] if m.get(":factory") is not None else 0
        if fac != want:
            return f"data: node at {path} carries {type(node.data).__name__}"
        cb = m.get(":callback")
        if cb is None:
            return align(m, items, i, path)
        c = cb["cb"]
        if c[0] == "set":        # the dict before the callback had the key (any value) or not (then it is the last one)
            if not any(k == c[1] and same(v, c[2]) for k, v in items):
                return f"callback: {c[1]!r} of node {path} not set to {c[2]!r}"
            r = align(m, items, i, path, wild=c[1])
            if r and items[-1][0] == c[1]:
                r = align(m, items[:-1], i, path, optional=c[1]) and r
            return r
        if any(k == c[1] for k, v in items):
            return f"callback: {c[1]!r} of node {path} not deleted"
        return align(m, items, i, path, optional=c[1])

    def group_ok(ctype, m, group, path):
        for i, node in enumerate(group, 1):
            if desc["typed"]:
                if not isinstance(node, TypedNode) or node.kind != ctype:
                    return f"kind: node {path + [i]} has kind {getattr(node, 'kind', None)!r}, relation type {ctype!r}"
            elif isinstance(node, TypedNode):
                return f"class: typed node in a plain Tree at {path + [i]}"
            r = attrs_ok(m, node, i, path + [i])
            if r:
                return r
            ch = node._children or []
            if ctype in rels:
                r = conf(ch, ctype, path + [i])
                if r:
                    return r
            elif ch:
                return f"type: node {path + [i]} of leaf type {ctype!r} has children"
        return None

    def conf(children, ptype, path):
        cs = rels[ptype]
        fails = []

        def match(rest, k):
            if k == len(cs):
                if rest:
                    fails.append(f"count: {len(rest)} surplus children below {path} ({ptype!r})")
                return not rest
            ctype, spec = cs[k]
            m = merged(desc, ctype, spec)
            for n in sorted(allowed_counts(m[":count"]) if ":count" in m else {1}):
                if n > len(rest):
                    fails.append(f"count: too few children of type {ctype!r} below {path} ({ptype!r})")
                    break
                r = group_ok(ctype, m, rest[:n], path)
                if r:
                    fails.append(r)
                    continue
                if match(rest[n:], k + 1):
                    return True
            return False

        if match(list(children), 0):
            return None
        if not fails:
            return f"count: children of {path} do not match relations of {ptype!r}"
        specific = [f for f in fails if not f.startswith("count:")]
        return (specific or fails)[0]

    return conf(tree._root._children or [], "__root__", [])


# ---------------------------------------------------------------------------
def cyclic(desc):
    """relation graph restricted to relations that can create a child has a cycle (D39)"""
    rels = dict((p, cs) for p, cs in desc["relations"])
    edges = {}
    for p, cs in desc["relations"]:
        for c, spec in cs:
            m = merged(desc, c, spec)
            if c in rels and (":count" not in m or max(allowed_counts(m[":count"]), default=0) > 0):
                edges.setdefault(p, []).append(c)
    state = {}

    def dfs(u):
        state[u] = 1
        for v in edges.get(u, []):
            if state.get(v) == 1 or (v not in state and dfs(v)):
                return True
        state[u] = 2
        return False

    return "__root__" in rels and dfs("__root__")


def ranks(desc):
    """rank of every node type along the relations that can create a child (None: cyclic somewhere)"""
    rels = dict((p, cs) for p, cs in desc["relations"])
    edges = {}
    for p, cs in desc["relations"]:
        for c, spec in cs:
            m = merged(desc, c, spec)
            if c in rels and (":count" not in m or not (not is_rnd(m[":count"]) and cnt(py_value(m[":count"])) == 0)):
                edges.setdefault(p, []).append(c)
    rk, busy = {}, set()

    def go(u):
        if u in rk:
            return rk[u]
        if u in busy:
            raise RecursionError
        busy.add(u)
        r = 1 + max((go(v) for v in edges.get(u, [])), default=-1)
        busy.discard(u)
        rk[u] = r
        return r

    try:
        for p in rels:
            go(p)
    except RecursionError:
        return None
    return rk


def tree_stats(root):
    n = 0
    depth = 0
    stack = [(c, 1) for c in (root._children or [])]
    while stack:
        x, d = stack.pop()
        n += 1
        depth = max(depth, d)
        stack.extend((c, d + 1) for c in (x._children or []))
    return n, depth


class Prop:
    id = "C20"
    coq_prop = "Properties/C20.v"
    case_module = "CaseC20"
    case_vo = "theories/Cases/CaseC20.vo"
    run_fn = "run20"
    shard = 150
    rule = ("generated structure definitions (acyclic relation graphs over 1-4 node types + __root__, 1-2 child relations per type, "
            "'*'/per-type defaults overlapping the relation specs, :count fixed 0..3 / RangeRandomizer / SampleRandomizer / "
            "ValueRandomizer / SparseBoolRandomizer / inherited from the type defaults, attributes with every randomizer class, "
            "probabilities 0, 1/4, 1/2, 5/8, 3/4, 1, none_value None/int/str template, templates with {idx}/{hier_idx}/escaped braces, "
            ":factory DictWrapper or a harness class and :callback (set key / delete key) at all three merge levels) "
            "x generated draw streams (possibly shorter than needed) x Tree and TypedTree, random/fabulist replaced harness-side by "
            "readers of the stream; plus builds driven by the REAL seeded random module and the real fabulist with every answer "
            "recorded as the draw the model then reads; plus Randomizer constructor calls with well- and ill-formed arguments; plus "
            "definitions without __root__ (refused).  A case is one build; distinct = distinct (definition, stream, class); "
            "non-trivial = >= 2 nodes and >= 1 draw consumed")
    assumptions = [
        "the `random` module and fabulist are replaced by stream readers (harness-side monkeypatch of the names in nutree.tree_generator); "
        "randrange(a,b)=a+n mod (b-a), random()=(n mod d)/d, uniform(a,b)=a+(b-a)*random(), sample = index n mod total into the expanded population",
        "floats are fed exactly representable values (dyadic rationals), so float arithmetic in uniform() is exact",
        "D39 (domain): the relation graph restricted to relations that may create a child is acyclic",
        "domain (counts_wf, decided per case): :count resolves to int/bool/None/0.0/\"\" - anything else is refused by range() with TypeError (modelled); :factory is DictWrapper or a keyword-argument class of the harness; :callback is absent or one of two families (set key to int, delete key); templates use only {idx}, {idx:0Nd}, {hier_idx}, {{, }}",
    ]
    manifest = dict(
        text=("Machine-checked theorems (Coq 8.16, no axioms) about an executable model of nutree/tree_generator.py in which the global "
              "random module is an explicit, arbitrary stream of draws: for every structure definition with an acyclic relation graph and "
              "EVERY stream the generated tree conforms to the definition (node types per relation, child counts fixed or within the "
              "randomizer's range, data class from :factory, attributes = merge of '*', type and relation spec in dict order with "
              "{idx}/{hier_idx} expanded to the 1-based per-relation index / dotted index path, then :callback, random values within range, "
              "probability-skipped attributes absent, probability 0.0 never generates, kind = type name, class = requested class, fuel "
              "sufficiency) and conversely every conforming tree is produced by some stream (the specification is exact); tied to /repo on "
              "every run by facts lifted from the source text, a correspondence check on generated definitions x streams x both tree "
              "classes with random/fabulist replaced by readers of the same stream (or the real seeded random/fabulist, recorded), and an "
              "independent Python conformance oracle."),
        note=("Trusted: Coq kernel + vm_compute; hand-written model theories/Forest/RandomTree.v (tied by the correspondence and the generated "
              "source facts only); the harness's stand-ins for random.random/randrange/uniform/sample and fabulist; floats are fed dyadic "
              "values so that uniform() is exact.  TEXT CONTENT IS AN ORACLE: for Text-/BlindTextRandomizer the claim is only that the value is "
              "absent or the answer of fabulist for exactly the DECLARED arguments (template / sentence_count, dialect, entropy, keep_first, "
              "words_per_sentence) - the stand-ins (and the wrapper around the real fabulist) echo the arguments they were called with in front "
              "of the text, model and oracle expect the echo of the declared ones (C20_text_randomizers); nothing is claimed about the words "
              "fabulist picks; with fabulist absent both constructors raise RuntimeError (cases CCtorNoFab).  CLASS / KIND: C20_class_and_kind "
              "and C20_class_independent are definitional in the model (proved by reflexivity); they speak about exactly the terms run20 "
              "evaluates (class, name, kind_of of every node), the clause itself is carried by the correspondence (class, name and every node's "
              "kind observed) and by the oracle (kind = relation type for every node, plain Node in a plain Tree).  NON-INT :count: a float, "
              "non-empty str, date, class as :count (fixed or from a randomizer) makes range(count) raise TypeError - sane refusal, not a defect; "
              "the model reproduces it (count_err / raised), such definitions are outside the conformance theorems (hypothesis counts_wf, decided "
              "per case by in_domain) and the generator produces them (None, 0.0, \"\" mean 0 children).  'Caller's definition not modified' is "
              "outside the value model: checked by the oracle (snapshot around every build).  D39 (cyclic definitions do not terminate) is a "
              "recorded domain restriction (hypothesis rank_ok; C20_terminates_for_every_definition_refuted).  D60 (probability 0.0 could generate) "
              "and D61 (attribute names dict_inst/self) are repaired.  The oracle accepts the closed declared range [min,max]; the theorems and the "
              "correspondence pin the half-open range the code draws from (floats: exact rationals, q < max; IEEE rounding of uniform() may "
              "return max)."),
        technique="Coq proof about an executable Gallina model + differential correspondence check (vm_compute) + Python oracle",
        design_ref="DESIGN.md section 6 (C20), section 7 (D39)",
    )

    # ------------------------------------------------------------------ cases
    def descs(self, tier, rng):
        yield from CORPUS
        for _ in range(60 if tier == "quick" else 400):
            yield dict(ctor=gen_ctor(rng))
        for _ in range(25 if tier == "quick" else 150):
            yield dict(ctor=gen_ctor(rng), nofab=True)
        for _ in range(40 if tier == "quick" else 200):
            d = gen_def(rng)
            if '"RangeF"' in _json.dumps(d) or fab_missing():
                continue
            yield dict(d, typed=rng.random() < 0.5, stream=[], real_seed=rng.randint(0, 10 ** 6))
        for _ in range(5 if tier == "quick" else 30):
            d = gen_def(rng)
            d["relations"] = [r for r in d["relations"] if r[0] != "__root__"]
            yield dict(d, typed=rng.random() < 0.5, stream=gen_stream(rng))
        for _ in range(70 if tier == "quick" else 500):
            yield gen_session(rng)
        ndefs = 150 if tier == "quick" else 800
        for _ in range(ndefs):
            d = gen_def(rng)
            for _ in range(2 if tier == "quick" else 3):
                typed = rng.random() < 0.5
                yield dict(d, typed=typed, stream=gen_stream(rng))
                if rng.random() < 0.3:
                    yield dict(d, typed=not typed, stream=gen_stream(rng))

    def shrink_candidates(self, desc):
        if "ctor" in desc:
            return
        if "session" in desc:
            steps = desc["session"]
            for k in range(len(steps) - 1, -1, -1):
                if len(steps) > 1:
                    yield dict(session=steps[:k] + steps[k + 1:])
            for k, step in enumerate(steps):
                for cand in self.shrink_candidates(step):
                    if set(cand) == set(step):
                        yield dict(session=steps[:k] + [cand] + steps[k + 1:])
            return
        st = desc["stream"]
        if st:
            yield dict(desc, stream=st[: len(st) // 2])
            yield dict(desc, stream=st[:-1])
        for pi, (p, cs) in enumerate(desc["relations"]):
            for ci, (c, spec) in enumerate(cs):
                if len(cs) > 1 or p != "__root__":
                    rel2 = [list(x) for x in desc["relations"]]
                    rel2[pi] = [p, cs[:ci] + cs[ci + 1:]]
                    yield dict(desc, relations=rel2)
                for ai in range(len(spec)):
                    rel2 = [list(x) for x in desc["relations"]]
                    cs2 = [list(x) for x in cs]
                    cs2[ci] = [c, spec[:ai] + spec[ai + 1:]]
                    rel2[pi] = [p, cs2]
                    yield dict(desc, relations=rel2)
        for ti, (t, spec) in enumerate(desc.get("types") or []):
            yield dict(desc, types=desc["types"][:ti] + desc["types"][ti + 1:])
            for ai in range(len(spec)):
                ty2 = [list(x) for x in desc["types"]]
                ty2[ti] = [t, spec[:ai] + spec[ai + 1:]]
                yield dict(desc, types=ty2)

    # -------------------------------------------------------------------- run
    def run_ctor_nofab(self, desc):
        """fabulist not installed (tree_generator.fab is None)"""
        j = desc["ctor"]
        code = 1
        saved = TG.fab
        TG.fab = None
        try:
            py_value(j)
        except AssertionError:
            code = 0
        except RuntimeError:
            code = 2
        finally:
            TG.fab = saved
        p = Fraction(*j["p"])
        k = j["R"]
        bad = (k == "RangeI" and j["lo"] >= j["hi"]) or (k == "RangeF" and Fraction(*j["lo"]) >= Fraction(*j["hi"])) or \
            (k == "Date" and (j["days"] if j.get("days") is not None else j["max"] - j["min"]) <= 0)
        want = 0 if not 0 <= p <= 1 else 2 if k in ("Text", "BlindText") else 0 if bad else 1
        return Case(desc=desc, coq_input=f"(CCtorNoFab {coq_rnd(j)})", impl_obs=[-3, code],
                    oracle_fail=None if code == want else f"constructor: without fabulist {j} -> {code}, expected {want}",
                    nontrivial=False, key=H.digest(desc), stats=dict(ctor_nofab=k, outcome=code))

    def run_ctor(self, desc):
        if desc.get("nofab"):
            return self.run_ctor_nofab(desc)
        j = desc["ctor"]
        ok = True
        with patched(Stream([])):
            try:
                py_value(j)
            except AssertionError:
                ok = False
        p = Fraction(*j["p"])
        k = j["R"]
        want = 0 <= p <= 1 and not (k == "RangeI" and j["lo"] >= j["hi"]) and \
            not (k == "RangeF" and Fraction(*j["lo"]) >= Fraction(*j["hi"])) and \
            not (k == "Date" and (j["days"] if j.get("days") is not None else j["max"] - j["min"]) <= 0)
        return Case(desc=desc, coq_input=f"(CCtor {coq_rnd(j)})", impl_obs=[-3, ok],
                    oracle_fail=None if ok == want else f"constructor: {j} accepted={ok}", nontrivial=False,
                    key=H.digest(desc), stats=dict(ctor=k, accepted=ok))

    def run(self, desc, live=None) -> Case:
        if "ctor" in desc:
            return self.run_ctor(desc)
        if "session" in desc:
            return self.run_session(desc)
        cls = TypedTree if desc["typed"] else Tree
        st = Stream(desc["stream"])
        fuel = len(desc["relations"]) + 1
        if cyclic(desc):
            return self.run_cyclic(desc, cls, st)
        err = None
        tree = None
        mutated = False
        real = desc.get("real_seed")       # the real random module + the real fabulist answer; the draws are recorded
        with patched(st, real):
            try:
                sd = live.sync(desc) if live is not None else py_def(desc)
                before = def_shape(sd)
                tree = cls.build_random_tree(sd)
                if def_shape(sd) != before:
                    mutated = True
            except Exception as e:  # noqa: BLE001
                err = e
        rk = ranks(desc)
        coq_rk = H.coq_list(f"({H.coq_text(t)}, {n})" for t, n in (rk or {}).items())
        # the model gets the draws the implementation consumed plus a margin (enough to notice a model that
        # consumes more); the full stream stays in the desc
        coq_in = f"(CBuild {H.coq_bool(desc['typed'])} {coq_def(desc)} {fuel} {coq_rk} {coq_stream((st.draws if real is not None else desc['stream'])[:st.pos + 6])})"
        no_root = not any(p == "__root__" for p, _ in desc["relations"])
        if err is not None:
            refused = (no_root and isinstance(err, AssertionError)) or \
                (not no_root and isinstance(err, TypeError) and not counts_typed(desc))   # range(count) refuses a non-int :count
            return Case(desc=desc, coq_input=coq_in, impl_obs=[-2, H.err_class(err)],
                        oracle_fail=None if refused else f"crash: {type(err).__name__}: {err}", nontrivial=False,
                        key=H.digest(desc), stats=dict(error=type(err).__name__))
        if no_root:
            return Case(desc=desc, coq_input=coq_in, impl_obs=[0], oracle_fail="refusal: definition without '__root__' accepted",
                        nontrivial=False, key=H.digest(desc))
        obs = [type(tree) is TypedTree, H.sx_opt(tree.name if desc.get("name") is not None else None),
               [obs_node(c) for c in (tree._root._children or [])], rk is not None and counts_typed(desc),
               tree._forward_attrs is True]
        fail = oracle(desc, tree)
        if fail is None and mutated:
            fail = "definition: build_random_tree modified the caller's structure definition"
        if fail is None and tree._forward_attrs is not True:
            fail = "class: forward_attrs not set"
        n, depth = tree_stats(tree._root)
        kinds = sorted(set(st.log))
        return Case(desc=desc, coq_input=coq_in, impl_obs=obs, oracle_fail=fail,
                    nontrivial=n >= 2 and st.pos >= 1, key=H.digest(desc),
                    stats=dict(nodes=min(n, 60) // 5 * 5, depth=depth, draws=min(st.pos, 100) // 10 * 10,
                               stream_exhausted=st.pos > len(st.draws), calls="+".join(kinds), typed=desc["typed"], real_random=real is not None,
                               in_theorem_domain=rk is not None and counts_typed(desc), uses_callback='":callback"' in _json.dumps(desc),
                               uses_obj_factory='"Obj"' in _json.dumps(desc)))

    def run_session(self, desc):
        """several builds from ONE structure-definition object and the same randomizer objects, re-configured
        through their public attributes / by editing the dicts in between; every build must conform to the
        configuration at the time of that build (the model is evaluated per step on that configuration)"""
        live = Live()
        cases = []
        for k, step in enumerate(desc["session"]):
            full = expand_pool(step)
            full["_pool"] = step.get("pool") or []
            full["_rawstep"] = step
            cases.append(self.run(full, live=live))
        fail = None
        for k, c in enumerate(cases):
            if c.oracle_fail:
                tag, _, rest = c.oracle_fail.partition(":")
                fail = f"{tag}: [session step {k}]{rest}"
                break
        return Case(desc=desc, coq_input="(CSeq " + H.coq_list(c.coq_input for c in cases) + ")",
                    impl_obs=[c.impl_obs for c in cases], oracle_fail=fail,
                    nontrivial=any(c.nontrivial for c in cases), key=H.digest(desc),
                    stats=dict(session_steps=len(cases), session_reused_randomizers=min(live.reused, 20),
                               session_classes="".join("T" if st["typed"] else "P" for st in desc["session"])))

    def run_cyclic(self, desc, cls, st):
        """D39: the code recurses without end; observed as RecursionError under a lowered limit."""
        import inspect

        old = sys.getrecursionlimit()
        hit = False
        with patched(st):
            try:
                sys.setrecursionlimit(len(inspect.stack()) + 120)
                cls.build_random_tree(py_def(desc))
            except RecursionError:
                hit = True
            except Exception:  # noqa: BLE001
                hit = False
            finally:
                sys.setrecursionlimit(old)
        coq_in = f"(CCyclic {coq_def(desc)} 9 {coq_stream(desc['stream'])})"
        return Case(desc=desc, coq_input=coq_in, impl_obs=[-1, hit],
                    oracle_fail="D39: cyclic relation graph: build_random_tree recurses without end (RecursionError)" if hit else None,
                    finding="D39" if hit else None, nontrivial=False, key=H.digest(desc), stats=dict(cyclic=True))


# ---------------------------------------------------------------------------
# generators
# ---------------------------------------------------------------------------
PROBS = [[1, 1], [1, 1], [1, 2], [3, 4], [1, 4], [0, 1], [5, 8]]
CPROBS = [[1, 1], [1, 1], [1, 1], [1, 1], [3, 4], [1, 2], [0, 1]]
STRS = ["plain", "T {idx}", "{hier_idx}", "N{idx}/{hier_idx}", "b{{x}}{idx}", "", "Zoë {idx}", "H{hier_idx}", "{hier_idx}:{idx}", "#{idx:03d}", "{idx:01d}-{idx:02d}"]
TEXTS = ["", "lorem", "x{idx}", "h {hier_idx}.", "Ünï {{q}}", "q{idx:04d}"]
KEYS = ["title", "n", "x", "flag", "when", "txt", "self", "dict_inst"]
D0 = datetime.date(2020, 1, 1).toordinal()


def gen_fixed(rng):
    r = rng.random()
    if r < 0.45:
        return rng.choice(STRS)
    if r < 0.65:
        return rng.randint(-3, 40)
    if r < 0.75:
        return rng.random() < 0.5
    if r < 0.85:
        return None
    return {"f": [rng.randint(-12, 12), 4]}


def gen_rnd(rng):
    k = rng.choice(["RangeI", "RangeF", "Date", "Value", "SparseBool", "Sample", "Text", "BlindText"])
    p = rng.choice(PROBS)
    if k == "RangeI":
        lo = rng.randint(-5, 20)
        return {"R": k, "lo": lo, "hi": lo + rng.randint(1, 6), "p": p, "none": rng.choice([None, None, 0, -1, "na {idx}"])}
    if k == "RangeF":
        lo = rng.randint(-12, 12)
        return {"R": k, "lo": [lo, 4], "hi": [lo + rng.randint(1, 20), 4], "p": p, "none": rng.choice([None, None, 0, "none"])}
    if k == "Date":
        mn = D0 + rng.randint(-400, 400)
        if rng.random() < 0.5:
            return {"R": k, "min": mn, "days": rng.randint(1, 40), "max": None, "stamp": rng.random() < 0.6, "p": p}
        return {"R": k, "min": mn, "days": None, "max": mn + rng.randint(1, 40), "stamp": rng.random() < 0.6, "p": p}
    if k == "Value":
        return {"R": k, "v": gen_fixed(rng), "p": p}
    if k == "SparseBool":
        return {"R": k, "p": p}
    if k == "Sample":
        n = rng.randint(1, 4)
        vals = [gen_fixed(rng) for _ in range(n)]
        counts = None
        if rng.random() < 0.4:
            counts = [rng.randint(0, 3) for _ in range(n)]
            if sum(counts) == 0:
                counts[rng.randrange(n)] = 2
        return {"R": k, "vals": vals, "counts": counts, "p": p}
    if k == "Text":
        return {"R": k, "tmpl": rng.choice(["$(Noun) {idx}", "{idx}: Provide $(Noun:plural)", "$(Verb:ing) $(noun)", ["$(Noun)", "a $(adj) $(noun) {hier_idx}"]]), "p": p}
    kw = {}
    if rng.random() < 0.6:
        kw["sentence_count"] = rng.choice([1, 2, [1, 3]])
    if rng.random() < 0.4:
        kw["dialect"] = rng.choice(["ipsum", "pulp", "trappatoni"])
    if rng.random() < 0.3:
        kw["entropy"] = rng.choice([0, 1, 3])
    if rng.random() < 0.3:
        kw["keep_first"] = True
    if rng.random() < 0.4:
        kw["words_per_sentence"] = rng.choice([4, [2, 5]])
    return {"R": k, "kw": kw, "p": p}


def fab_missing():
    return TG.fab is None


def gen_ctor(rng):
    j = gen_rnd(rng)
    r = rng.random()
    if r < 0.3:
        j["p"] = rng.choice([[5, 4], [-1, 4], [2, 1], [1, 1], [0, 1], [9, 8]])
    elif r < 0.6:
        if j["R"] == "RangeI":
            j["hi"] = j["lo"] - rng.randint(0, 2)
        elif j["R"] == "RangeF":
            j["hi"] = [j["lo"][0] - rng.randint(0, 2), 4]
        elif j["R"] == "Date":
            if j["days"] is not None:
                j["days"] = -rng.randint(0, 2)
            else:
                j["max"] = j["min"] - rng.randint(0, 2)
    return j


def gen_callback(rng):
    if rng.random() < 0.6:
        return {"cb": ["set", rng.choice(KEYS + ["cb"]), rng.randint(0, 9)]}
    return {"cb": ["del", rng.choice(KEYS)]}


def gen_count(rng, positive=False):
    r = rng.random()
    if not positive and rng.random() < 0.06:
        # not an int: range(count) raises TypeError (or, for the falsy ones, `or 0` applies)
        return rng.choice([{"f": [5, 2]}, {"f": [8, 4]}, {"f": [0, 1]}, "x", "", {"d": D0}, "{idx}",
                           {"R": "RangeF", "lo": [4, 4], "hi": [12, 4], "p": rng.choice(CPROBS), "none": None},
                           {"R": "Value", "v": "two", "p": [1, 2]},
                           {"R": "Sample", "vals": [1, {"f": [6, 4]}, 2], "counts": None, "p": [1, 1]}])
    if positive:
        if r < 0.5:
            return rng.choice([1, 2, 2, 3, 3])
        lo = rng.choice([1, 1, 2])
        return {"R": "RangeI", "lo": lo, "hi": lo + rng.randint(1, 3), "p": [1, 1], "none": None}
    if r < 0.45:
        return rng.choice([0, 1, 2, 2, 3, 3, 2, 1])
    if r < 0.8:
        lo = rng.choice([0, 1, 1, 1, 2])
        return {"R": "RangeI", "lo": lo, "hi": lo + rng.randint(1, 3), "p": rng.choice(CPROBS), "none": rng.choice([None, None, 1, 2])}
    if r < 0.88:
        vals = [rng.randint(0, 3) for _ in range(rng.randint(1, 3))]
        return {"R": "Sample", "vals": vals, "counts": None, "p": rng.choice(CPROBS)}
    if r < 0.94:
        return {"R": "Value", "v": rng.randint(1, 2), "p": rng.choice(CPROBS)}
    return {"R": "SparseBool", "p": rng.choice(CPROBS)}


def gen_attrs(rng, nmax=4, rnd_share=0.5):
    ks = rng.sample(KEYS, rng.randint(0, nmax))
    return [[k, gen_rnd(rng) if rng.random() < rnd_share else gen_fixed(rng)] for k in ks]


def gen_def(rng):
    k = rng.choice([1, 2, 3, 3, 4, 4])
    T = ["fn", "fail", "cause", "eff"][:k]
    rels = []
    top = [T[0]] + ([rng.choice(T[1:])] if k > 1 and rng.random() < 0.35 else [])
    if rng.random() < 0.3:
        top.reverse()

    def rel_spec():
        spec = gen_attrs(rng)
        if rng.random() < 0.8:
            spec.insert(rng.randint(0, len(spec)), [":count", gen_count(rng, positive=rng.random() < 0.6)])
        if rng.random() < 0.12:
            spec.insert(rng.randint(0, len(spec)), [":callback", gen_callback(rng)])
        if rng.random() < 0.12:
            spec.insert(rng.randint(0, len(spec)), [":factory", {"factory": rng.choice(["Obj", "DictWrapper"])}])
        return spec

    rels.append(["__root__", [[c, rel_spec()] for c in top]])
    for i, t in enumerate(T):
        later = T[i + 1:]
        r = rng.random()
        if later and r < 0.85:
            cs = [later[0]] if rng.random() < 0.8 else [rng.choice(later)]
            if len(later) > 1 and rng.random() < 0.4:
                cs.append(rng.choice([x for x in later if x not in cs]))
            if rng.random() < 0.3:
                cs.reverse()
            rels.append([t, [[c, rel_spec()] for c in cs]])
        elif r < 0.92:
            rels.append([t, []])
    if rng.random() < 0.3:
        rng.shuffle(rels)
    types = None
    if rng.random() < 0.8:
        types = []
        if rng.random() < 0.6:
            star = gen_attrs(rng, 3, 0.3)
            if rng.random() < 0.5:
                star.insert(0, [":factory", {"factory": rng.choice(["DictWrapper", "DictWrapper", "Obj"])}])
            if rng.random() < 0.1:
                star.append([":callback", gen_callback(rng)])
            if rng.random() < 0.2:
                star.append([":count", gen_count(rng)])
            types.append(["*", star])
        for t in T:
            if rng.random() < 0.6:
                sp = gen_attrs(rng, 3, 0.3)
                if rng.random() < 0.15:
                    sp.append([":count", gen_count(rng)])
                if rng.random() < 0.12:
                    sp.append([":callback", gen_callback(rng)])
                if rng.random() < 0.12:
                    sp.append([":factory", {"factory": rng.choice(["Obj", "DictWrapper"])}])
                types.append([t, sp])
        if rng.random() < 0.3:
            rng.shuffle(types)
    return dict(name=rng.choice([None, "fmea", ""]), types=types, relations=rels)


def regen_same(j, rng):
    """new parameters for a randomizer of the same class (what re-configuring its public attributes can reach)"""
    if j["R"] == "Sample" and rng.random() < 0.6:
        n = len(j["vals"])
        counts = [rng.choice([0, 0, 1, 2, 3]) for _ in range(n)]
        if sum(counts) == 0:
            counts[rng.randrange(n)] = 1
        return dict(j, counts=counts if rng.random() < 0.85 else None, p=rng.choice(PROBS))
    for _ in range(200):
        c = gen_rnd(rng)
        if c["R"] == j["R"]:
            if c["R"] == "Sample" and c["counts"] is None and rng.random() < 0.6:
                c["counts"] = [rng.randint(0, 3) for _ in c["vals"]]
                if sum(c["counts"]) == 0:
                    c["counts"][0] = 2
            return c
    return j


def mutate_spec(spec, rng, count_ok=True):
    out = []
    for k, v in spec:
        r = rng.random()
        if isinstance(v, dict) and "pool" in v:
            out.append([k, v])
        elif k == ":count":
            out.append([k, gen_count(rng, positive=rng.random() < 0.6) if r < 0.3 else (regen_count(v, rng) if r < 0.6 else v)])
        elif k in SPECIAL:
            out.append([k, v])
        elif is_rnd(v):
            out.append([k, regen_same(v, rng) if r < 0.6 else (gen_fixed(rng) if r < 0.7 else v)])
        elif r < 0.25:
            out.append([k, gen_fixed(rng)])
        elif r < 0.33:
            out.append([k, gen_rnd(rng)])
        elif r < 0.4:
            continue
        else:
            out.append([k, v])
    if rng.random() < 0.25:
        free = [k for k in KEYS if k not in [x[0] for x in out]]
        if free:
            out.insert(rng.randint(0, len(out)), [rng.choice(free), gen_rnd(rng) if rng.random() < 0.5 else gen_fixed(rng)])
    return out


def regen_count(v, rng):
    if is_rnd(v) and v["R"] == "RangeI":
        lo = rng.choice([0, 1, 1, 2])
        return dict(v, lo=lo, hi=lo + rng.randint(1, 3), p=rng.choice(CPROBS), none=rng.choice([None, None, 1, 2]))
    if is_rnd(v) and v["R"] == "Sample":
        vals = [rng.randint(0, 3) for _ in v["vals"]]
        counts = [rng.randint(0, 2) for _ in vals]
        if sum(counts) == 0:
            counts[0] = 1
        return dict(v, vals=vals, counts=counts)
    return gen_count(rng)


def mutate_step(step, rng):
    new = dict(step)
    new["pool"] = [regen_same(j, rng) if rng.random() < 0.7 else j for j in step.get("pool") or []]
    if step.get("types") is not None:
        new["types"] = [[t, mutate_spec(sp, rng)] for t, sp in step["types"]]
        if rng.random() < 0.1:
            new["types"] = new["types"][1:]
    elif rng.random() < 0.15:
        new["types"] = [["*", gen_attrs(rng, 2, 0.5)]]
    new["relations"] = [[p, [[c, mutate_spec(sp, rng)] for c, sp in cs]] for p, cs in step["relations"]]
    new["typed"] = (not step["typed"]) if rng.random() < 0.6 else step["typed"]
    new["name"] = rng.choice([step.get("name"), step.get("name"), None, "t2"])
    new["stream"] = gen_stream(rng)
    return new


def gen_session(rng):
    d = gen_def(rng)
    # randomizer objects shared by several attributes / relations of the definition
    pool = []
    for _ in range(rng.choice([0, 1, 1, 2])):
        j = gen_rnd(rng)
        if rng.random() < 0.5:
            vals = [gen_fixed(rng) for _ in range(rng.randint(2, 4))]
            j = {"R": "Sample", "vals": vals, "counts": [rng.randint(1, 3) for _ in vals], "p": rng.choice([[1, 1], [1, 1], [3, 4]])}
        pool.append(j)
    if pool:
        for p, cs in d["relations"]:
            for c, spec in cs:
                if rng.random() < 0.7:
                    free = [k for k in KEYS if k not in [x[0] for x in spec]]
                    if free:
                        spec.insert(rng.randint(0, len(spec)), [rng.choice(free), {"pool": rng.randrange(len(pool))}])
    # weighted samples are the randomizers with the most state: make sure they occur
    for p, cs in d["relations"]:
        for c, spec in cs:
            for kv in spec:
                if is_rnd(kv[1]) and kv[1]["R"] == "Sample" and kv[1]["counts"] is None and rng.random() < 0.7:
                    kv[1]["counts"] = [rng.randint(1, 3) for _ in kv[1]["vals"]]
    step = dict(d, pool=pool, typed=rng.random() < 0.5, stream=gen_stream(rng))
    steps = [step]
    for _ in range(rng.choice([1, 2, 2, 3])):
        step = mutate_step(step, rng)
        steps.append(step)
    return dict(session=steps)


def gen_stream(rng):
    n = rng.choice([0, 5, 20, 40, 80, 160, 240])
    hi = rng.choice([3, 10, 200])
    return [[rng.randint(-hi, hi), rng.choice([1, 2, 2, 4, 4, 8, 64]), rng.choice(TEXTS)] for _ in range(n)]


def _ticket_step(typed, vals, counts, stream):
    return dict(typed=typed, name="tickets", types=None, pool=[{"R": "Sample", "vals": vals, "counts": counts, "p": [1, 1]}],
                relations=[["__root__", [["ticket", [[":count", 4], ["title", "Ticket {idx}"], ["state", {"pool": 0}]]]]],
                           ["ticket", [["task", [[":count", 2], ["title", "Task {hier_idx}"], ["state", {"pool": 0}]]]]]],
                stream=stream)


_TS = [[n, 1, ""] for n in (0, 1, 2, 3, 4, 5, 6, 7, 8, 9, 10, 11)]

CORPUS = [
    # one weighted SampleRandomizer object shared by two relations, re-configured between builds (counts, then sample_list),
    # Tree and TypedTree from the same definition object in both orders
    dict(session=[_ticket_step(False, ["open", "closed"], [3, 1], _TS), _ticket_step(True, ["open", "closed"], [0, 1], _TS),
                  _ticket_step(False, ["archived", "deleted"], [1, 1], _TS), _ticket_step(True, ["open", "closed"], [3, 1], _TS)]),
    # D61: attribute names that collide with DictWrapper.__init__'s own parameters
    dict(typed=True, name=None, types=None,
         relations=[["__root__", [["a", [["dict_inst", 1], ["self", "x{idx}"]]]]]], stream=[]),
    # D60: probability 0.0 and random() == 0.0
    dict(typed=False, name=None, types=None,
         relations=[["__root__", [["a", [[":count", 2], ["never", {"R": "Value", "v": "x", "p": [0, 1]}], ["t", "n{idx}"]]]]]],
         stream=[[0, 1, ""], [4, 2, ""]]),
    # D39: self-loop with the default count 1 (domain restriction, recorded)
    dict(typed=False, name=None, types=None, relations=[["__root__", [["a", []]]], ["a", [["a", []]]]], stream=[]),
    # the suite's own definition (tests/test_tree_generator.py::test_simple)
    dict(typed=True, name="fmea",
         types=[["*", [[":factory", {"factory": "DictWrapper"}]]], ["function", [["icon", "bi bi-gear"]]],
                ["failure", [["icon", "bi bi-exclamation-triangle"]]], ["cause", [["icon", "bi bi-tools"]]],
                ["effect", [["icon", "bi bi-lightning"]]]],
         relations=[["__root__", [["function", [[":count", 3], ["title", "Function {hier_idx}"],
                                                 ["date", {"R": "Date", "min": D0, "days": None, "max": D0 + 365, "stamp": True, "p": [1, 1]}],
                                                 ["date2", {"R": "Date", "min": D0, "days": 365, "max": None, "stamp": True, "p": [63, 64]}],
                                                 ["value", {"R": "Value", "v": "foo", "p": [1, 2]}],
                                                 ["expanded", {"R": "SparseBool", "p": [1, 2]}],
                                                 ["state", {"R": "Sample", "vals": ["open", "closed"], "counts": None, "p": [63, 64]}]]]]],
                    ["function", [["failure", [[":count", {"R": "RangeI", "lo": 1, "hi": 3, "p": [1, 1], "none": None}],
                                               ["title", "Failure {hier_idx}"]]]]],
                    ["failure", [["cause", [[":count", {"R": "RangeI", "lo": 1, "hi": 3, "p": [63, 64], "none": None}],
                                            ["title", "Cause {hier_idx}"]]],
                                 ["effect", [[":count", {"R": "RangeI", "lo": 1, "hi": 3, "p": [1, 1], "none": None}],
                                             ["title", "Effect {hier_idx}"]]]]]],
         stream=[[7, 64, "q"], [3, 2, ""], [100, 64, ""], [1, 2, ""], [0, 2, ""], [5, 4, ""], [9, 8, ""], [1, 1, ""], [2, 1, ""],
                 [3, 64, ""], [1, 1, ""], [0, 1, ""], [1, 1, ""], [11, 64, ""], [1, 2, ""], [1, 2, ""], [0, 64, ""], [1, 1, ""]] * 4),
]

PROP = Prop()
