"""C08 — filtering keeps exactly the accepted nodes and their ancestors."""
from __future__ import annotations

import itertools

import build as B
import common as H
from common import Case
from nutree.common import SelectBranch, SkipBranch, StopTraversal

# verdict codes (desc) -> Coq constructor
V_TRUE, V_FALSE, V_SKIP, V_KEEPSELF, V_SELECT, V_STOP = range(6)
COQ_V = ["VTrue", "VFalse", "VSkip", "VSkipKeepSelf", "VSelect", "VStop"]


def _raise(e):
    raise e


# every way the quantifier allows to give a verdict (returned or raised); a
# bare control *class* that is returned (not raised) is outside the quantifier
FLAVOURS = {
    V_TRUE: [lambda: True],
    V_FALSE: [lambda: False, lambda: None],
    V_SKIP: [lambda: SkipBranch(), lambda: SkipBranch(and_self=True), lambda: _raise(SkipBranch),
             lambda: _raise(SkipBranch()), lambda: _raise(SkipBranch(and_self=True))],
    V_KEEPSELF: [lambda: SkipBranch(and_self=False), lambda: _raise(SkipBranch(and_self=False))],
    V_SELECT: [lambda: SelectBranch(), lambda: _raise(SelectBranch), lambda: _raise(SelectBranch())],
    V_STOP: [lambda: StopTraversal(), lambda: _raise(StopTraversal), lambda: _raise(StopTraversal("x")),
             lambda: _raise(StopIteration), lambda: StopTraversal(7), lambda: _raise(StopIteration(3))],
}
# the same table as Coq terms of type [raw] (Filter.v)
COQ_RAW = {
    V_TRUE: ["RBool true"],
    V_FALSE: ["RBool false", "RNone"],
    V_SKIP: ["RRet (CSkip None)", "RRet (CSkip (Some true))", "RRaise (CSkip None)", "RRaise (CSkip None)", "RRaise (CSkip (Some true))"],
    V_KEEPSELF: ["RRet (CSkip (Some false))", "RRaise (CSkip (Some false))"],
    V_SELECT: ["RRet CSelect", "RRaise CSelect", "RRaise CSelect"],
    V_STOP: ["RRet CStop", "RRaise CStop", "RRaise CStop", "RRaiseStopIteration", "RRet CStop", "RRaiseStopIteration"],
}
RAISED = {V_SKIP: {2, 3, 4}, V_KEEPSELF: {1}, V_SELECT: {1, 2}, V_STOP: {1, 2, 3, 5}}


# node identities are allocation indices *relative to the case* (the model computes on unary
# naturals: absolute indices of a long run would make every comparison cost thousands of steps)
_BASE = [0]


def nid(node) -> int:
    k = H.nid(node)
    return k - _BASE[0] if k > 0 else k


def coq_rt(node, U) -> str:
    # compact node term: the filter model reads only the data object's identity and the data_id
    kind = getattr(node, "kind", None)
    head = "Nd" if kind is None else "Ndk"
    ktxt = "" if kind is None else f" {H.coq_text(kind)}"
    return (f"({head} {nid(node)} {H.z(U.info(node._data)['obj'])} {H.coq_did(node._data_id)}{ktxt} "
            f"{H.coq_list(coq_rt(c, U) for c in (node._children or []))})")


def coq_forest(root, U) -> str:
    return H.coq_list(coq_rt(c, U) for c in (root._children or []))


def apply_mutation(tree, U, start, mut, typed):
    """A change of the tree between two filter calls that keeps the node count.  Positions are indices into the
    pre-order list of the nodes present at that moment (modulo its length); the start node of a branch case is never
    moved or removed.  ["none"] | ["rename", [pos..], [label..]] | ["move", pos, target_pos|-1] | ["swap", pos, parent_pos|-1, label]"""
    ns = B.all_nodes(tree._root)
    kind = mut[0]
    if kind == "none" or not ns:
        return
    kw = {"kind": "k0"} if typed else {}
    if kind == "rename":
        for pos, lab in zip(mut[1], mut[2]):
            n = ns[pos % len(ns)]
            try:
                n.set_data(U.objs[lab])
            except Exception:  # noqa: BLE001  (refused: e.g. a sibling already carries that data)
                pass
    elif kind == "move":
        n = ns[mut[1] % len(ns)]
        target = tree._root if mut[2] < 0 else ns[mut[2] % len(ns)]
        if n is start or target is n or target is n._parent or (target is not tree._root and (target.is_descendant_of(n))):
            return
        try:
            n.move_to(target if target is not tree._root else tree)
        except Exception:  # noqa: BLE001
            pass
    elif kind == "swap":
        n = ns[mut[1] % len(ns)]
        if n is start or (start is not None and start.is_descendant_of(n)):
            return
        size = 1 + len(B.all_nodes(n))
        if size != 1:
            return          # only a leaf: one node out, one node in
        parent = tree if mut[2] < 0 else ns[mut[2] % len(ns)]
        if parent is n:
            return
        n.remove()
        try:
            parent.add(U.objs[mut[3]], **kw)
        except Exception:  # noqa: BLE001
            pass


def sibling_groups(shape, all_groups=False):
    """pre-order indices of the members of every sibling list (top level included) with >= 2 members (or all lists)."""
    out = []
    counter = [0]

    def go(f):
        mine = []
        for t in f:
            mine.append(counter[0])
            counter[0] += 1
            go(t)
        if all_groups or len(mine) >= 2:
            out.append(mine)

    go(shape)
    return out


# kinds of a typed case: neighbours differ / only the first sibling differs from the later ones
KIND_PATTERNS = [lambda i, d, si: f"k{si % 2}", lambda i, d, si: "k0" if si == 0 else "k1"]


def univ_for(n):
    out = []
    for i in range(n):
        out.append([f"s:n{i}", f"i:{100 + i}", f"e:{i}"][i % 3])
    return out


def shape_shape(nodes):
    return [shape_shape(n[3]) for n in nodes]


def ids_shape(children):
    return [[nid(c), ids_shape(c._children or [])] for c in children]


class Prop:
    id = "C08"
    coq_prop = "Properties/C08.v"
    case_module = "CaseC08"
    case_vo = "theories/Cases/CaseC08.vo"
    run_fn = "run08"
    post_variants = {"quick": 40, "thorough": 400}
    shard = 250
    rule = ("plain Trees and TypedTrees; one case = tree x verdict per node from {True, False/None, SkipBranch()/SkipBranch(and_self=True), "
            "SkipBranch(and_self=False), SelectBranch, StopTraversal/StopIteration} x per-node flavour (returned or raised, class or instance) "
            "x start (whole tree or one node); every case runs Tree.filtered, Tree.copy(predicate=), Tree.filter or Node.filtered, "
            "Node.copy(predicate=), Node.copy(add_self=False, predicate=), Node.filter, logs every predicate call, and runs the same entry "
            "points without a predicate (plain copies, ValueError).  Data: (a) all data different, default data_ids; (b) TWINS: every pair "
            "of siblings carrying the same data object, or two distinct equal-comparing objects, under distinct explicit data_ids (int / "
            "str), so that node identity, data identity and data equality come apart and the twins get every pair of different answers; "
            "(d) TYPED: TypedTrees with kinds mixed among siblings (two patterns per shape; random kinds in the random tier), all "
            "verdict assignments on small shapes plus a stop answer at every position of every shape of 3-4 (quick) / 4-5 (thorough) nodes; "
            "the kinds of the copied nodes are observed and compared with the model (the scan re-creates nodes with the default kind "
            "because add_child(n) is called without a kind, _add_from keeps kinds: a C07-family behaviour) but not judged by the C08 oracle; (e) HISTORIES: one process, one predicate object: all forms on the tree (in-place filter last) -> a change that keeps the "
            "node count (set_data of 1-2 nodes to fresh data objects / move_to / remove one leaf + add one node / no change of the tree "
            "but of the answers) -> all forms again on the SAME tree with the SAME predicate object (answers looked up by data label) -> "
            "optionally all forms on a SECOND tree that has as many nodes as the first one has then; every phase is compared with the model "
            "on the tree as it is when the phase starts, and judged by the oracle; systematic on all shapes <= 3 (quick) / 4 (thorough) "
            "nodes x every position, 200 / 800 random; (c) CLONES: every pair of non-sibling nodes carrying one data object (parent/child included = the region where D24 makes the "
            "copying form raise).  quick: (a) every ordered forest <= 3 nodes x all 6^n verdict assignments x all starts, 4-5 nodes "
            "sampled per (shape, start); (b) 2 nodes exhaustive, 3-4 nodes sampled; (c) 2 nodes exhaustive, 3 sampled; 300 random trees "
            "of 6-14 nodes with clones.  thorough: (a) <= 4 nodes exhaustive, 5 sampled; (b) <= 3 exhaustive, 4 sampled; (c) <= 3 "
            "exhaustive, 4 sampled; 800 random.  distinct = distinct (shape, labels, data_ids, verdicts, start); non-trivial = a "
            "non-empty proper subset of the scanned nodes is kept")
    exhaustive_note = ("all forest shapes <= N nodes x all 6^n verdict assignments x all starts (N=3 quick, 4 thorough); with every sibling pair as "
                       "twins and every non-sibling pair as clones: N=2 quick, 3 thorough")
    assumptions = [
        "identity of nodes is the allocation index recorded by a harness-side wrapper of Node.__init__",
        "plain Tree (typed copies: D21/D22 are C07's); siblings with equal-comparing data occur only under distinct explicit data_ids "
        "(the library refuses them otherwise)",
        "a bare control class returned (not raised) by the predicate is outside the quantifier",
    ]
    manifest = dict(
        text=("Machine-checked theorems (Coq 8.16, no axioms; unbounded induction over forests), for all forests with unique node identities and "
              "all verdict assignments.  IN PLACE (Tree.filter / Node.filter, repaired D05, D25): the property as stated -- the model of the scan "
              "equals the filter spec F (also for a branch start), whose node set is exactly the independent set characterisation (accepted and "
              "visited, their ancestors, everything below a select answer; visited = every proper ancestor answered True/False, before the first "
              "stop in pre-order, both also characterised declaratively), each node once, order and parents preserved in both directions; clause "
              "by clause: accepted kept, select keeps the branch, skip/stop dropped, nothing below a skip; a stop answer is the last call, "
              "everything kept precedes it, everything accepted before it is kept.  COPYING (filtered / copy(predicate=)): the property as "
              "stated does NOT hold; the exact theorems are (1) C08_copy_is_dbl_F: for all inputs the copy equals F plus one extra leaf copy "
              "under every visited node answered True or SkipBranch(and_self=False), up to the new node identities (known finding D24, pinned "
              "by the suite), and (2) C08_copy_refused_iff: the call raises UniqueConstraintError iff that tree has two siblings with one "
              "data_id.  'In place = copying' as the English says it holds iff no visited node is answered True or SkipBranch(and_self=False) "
              "(C08_copy_is_F_iff): (2/3)^n of the verdict assignments when all n nodes are visited, and for a bool-valued predicate iff nothing "
              "at all is kept -- every bool-valued predicate that accepts at least one visited node is inside the D24 region; the copy then "
              "has exactly one node more per such node (C08_copy_size), a kept source node occurs once, or twice inside the region "
              "(C08_copy_occurrences), and the new identities are fresh and distinct (C08_copy_ids_fresh_and_distinct).  The full statement "
              "is kept and refuted twice.  The predicate-call trace of the executable scans (the scans with a log at call_predicate, "
              "which the correspondence runs) equals the spec's call list, also for raised signals; returned and raised signals classify "
              "equally in both chains of tests.  The chains of tests and the loop frames of both scans are regenerated from the source on "
              "every run and proof obligations connect them to the model.  Tied to /repo on every run by a correspondence check "
              "(vm_compute) on all forests <= 3 (quick) / 4 (thorough) nodes x all 6^n verdict assignments x all starts x returned/raised "
              "flavours, twins, clones, typed trees, random larger trees, and by an independent Python oracle on pointer snapshots."),
        note=("Trusted: Coq kernel + vm_compute; hand-written model theories/Forest/Filter.v (tied by the correspondence and the source "
              "obligations of FilterSource.v only; the target tree of the copying form is modelled by its open right spine); harness "
              "generators/observation/oracle; allocation-index identities; gen_facts.py.  NOT a theorem: 'the copying form leaves the source "
              "untouched' -- the model's copying form is a pure function, so the clause is true of the model by construction and cannot be "
              "broken by a model change; it is checked on the implementation on EVERY case by the oracle (pointer snapshot of every child "
              "list and rendering of the source before/after all copying calls: 'source changed by a copying form') and by the correspondence "
              "(source shape after the copying calls).  The error criterion of the copying form (sibling pair with one data_id in the tree it "
              "would build) is a modelling decision tied by the clone tiers; the partial call log of a raising call is only prefix-checked by "
              "the oracle.  A bare control class returned (not raised) and truthy non-True values are outside the quantifier.  "
              "Print Assumptions: closed under the global context for all theorems."),
        technique="Coq proof about an executable Gallina model + differential correspondence check (vm_compute) + Python oracle",
        design_ref="DESIGN.md section 6 (C08)",
    )

    # ----- generation
    def _desc(self, shape_nodes, n, verdicts, start, rng, univ=None, typed=False):
        fl = [rng.randrange(len(FLAVOURS[c])) for c in verdicts]
        d = dict(univ=univ or univ_for(n), nodes=shape_nodes, verdicts=list(verdicts), flavours=fl, start=start)
        if typed:
            d["typed"] = True
        return d

    def _all_verdicts(self, nodes, n, rng, sample=None, univ=None, typed=False):
        """one labelled forest x every start x every verdict assignment on the scope (or a sample of them)."""
        flat = flatten(nodes)
        # scope of each start: the descendants of the start node (pre-order indices)
        starts = [None] + [i for i in range(n) if flat[i][1]]
        for st in starts:
            scope = list(range(n)) if st is None else flat[st][1]
            total = 6 ** len(scope)
            if sample is not None and total > sample:
                combos = (tuple(rng.randrange(6) for _ in scope) for _ in range(sample))
            else:
                combos = itertools.product(range(6), repeat=len(scope))
            for combo in combos:
                vs = [V_FALSE] * n
                for k, c in zip(scope, combo):
                    vs[k] = c
                yield self._desc(nodes, n, vs, st, rng, univ, typed)

    def _typed(self, n, rng, sample=None):
        """TypedTree, kinds mixed among siblings (TypedNode's sibling accessors are kind-aware): two kind patterns per shape
        (neighbours differ / first sibling differs from all later ones) x every start x verdict assignments."""
        for shape in H.forests(n):
            for pat in KIND_PATTERNS:
                nodes = B.shape_to_nodes(shape, lambda i, d, si, pat=pat: (i, pat(i, d, si), None))
                yield from self._all_verdicts(nodes, n, rng, sample, typed=True)

    def _typed_stop(self, n, rng, reps):
        """TypedTree, mixed kinds: a stop answer at every position of every shape, the other answers mostly True/False so
        that the stop is reached; whole tree and every branch start above the stopping node."""
        for shape in H.forests(n):
            for pat in KIND_PATTERNS:
                nodes = B.shape_to_nodes(shape, lambda i, d, si, pat=pat: (i, pat(i, d, si), None))
                flat = flatten(nodes)
                for p in range(n):
                    starts = [None] + [i for i in range(n) if p in flat[i][1]]
                    for st in starts:
                        for _ in range(reps):
                            vs = rng.choices(range(6), weights=[4, 4, 0.5, 0.5, 0.5, 0], k=n)
                            vs[p] = V_STOP
                            yield self._desc(nodes, n, vs, st, rng, typed=True)

    def _hist_desc(self, nodes, n, start, rng, v1, v2, mut, tree2=None, typed=False, extra=3):
        m = n + extra
        return dict(univ=univ_for(m), nodes=nodes, start=start, **({"typed": True} if typed else {}),
                    hist=dict(v1=list(v1), f1=[rng.randrange(len(FLAVOURS[c])) for c in v1],
                              v2=list(v2), f2=[rng.randrange(len(FLAVOURS[c])) for c in v2], mut=mut, tree2=tree2))

    def _hist_systematic(self, n, rng):
        """filter (everything accepted) -> ONE node re-keyed (set_data to a fresh object) / moved / exchanged -> filter again
        with the same predicate object, which rejects the new data: every shape, every position, three rejecting answers."""
        for shape in H.forests(n):
            nodes = B.shape_to_nodes(shape, lambda i, d, s: (i, None, None))
            v1 = [V_TRUE] * n + [V_FALSE, V_FALSE, V_FALSE]
            for pos in range(n):
                for bad in (V_FALSE, V_SKIP, V_STOP):
                    v2 = [V_TRUE] * n + [bad, bad, bad]
                    yield self._hist_desc(nodes, n, None, rng, v1, v2, ["rename", [pos], [n]])
                yield self._hist_desc(nodes, n, None, rng, v1, [V_TRUE] * n + [V_SKIP] * 3, ["swap", pos, -1, n + 2])
            # the answers change (a predicate that reads something mutable), the tree does not
            for pos in range(n):
                v2 = [V_TRUE] * (n + 3)
                v2[pos] = V_SKIP
                yield self._hist_desc(nodes, n, None, rng, v1, v2, ["none"])

    def _hist_random(self, rng, count):
        for _ in range(count):
            n = rng.randint(3, 8)
            shape = H.random_shape(rng, n, deep=rng.choice([0.2, 0.5, 0.8]))
            typed = rng.random() < 0.25
            nodes = B.shape_to_nodes(shape, lambda i, d, s: (i, rng.choice(["k0", "k1"]) if typed else None, None))
            flat = flatten(nodes)
            cands = [i for i in range(n) if flat[i][1]]
            start = rng.choice(cands) if cands and rng.random() < 0.3 else None
            v1 = rng.choices(range(6), weights=[5, 3, 0.5, 0.5, 0.6, 0.2], k=n + 3)
            if rng.random() < 0.5:      # same answers for the old data, new answers only for the new data
                v2 = v1[:n] + rng.choices(range(6), weights=[1, 3, 2, 1, 1, 1], k=3)
            else:
                v2 = rng.choices(range(6), weights=[4, 3, 1, 1, 1, 0.5], k=n + 3)
            r = rng.random()
            if r < 0.45:
                k = rng.randint(1, 2)
                mut = ["rename", [rng.randrange(64) for _ in range(k)], [n, n + 1][:k]]
            elif r < 0.65:
                mut = ["move", rng.randrange(64), rng.choice([-1, rng.randrange(64)])]
            elif r < 0.85:
                mut = ["swap", rng.randrange(64), rng.choice([-1, rng.randrange(64)]), n + 2]
            else:
                mut = ["none"]
            tree2 = None
            if start is None and rng.random() < 0.4:   # a second tree of every possible size, labels = the same data objects
                tree2 = {}
                for size in range(1, n + 1):
                    sh = H.random_shape(rng, size, deep=0.5)
                    lab = rng.sample(range(n + 3), size)
                    tree2[str(size)] = B.shape_to_nodes(sh, lambda i, d, s, lab=lab: (lab[i], "k0" if typed else None, None))
            yield self._hist_desc(nodes, n, start, rng, v1, v2, mut, tree2, typed)

    def _exhaustive(self, n, rng, sample=None):
        for shape in H.forests(n):
            nodes = B.shape_to_nodes(shape, lambda i, d, s: (i, None, None))
            yield from self._all_verdicts(nodes, n, rng, sample)

    def _twins(self, n, rng, sample=None):
        """Every forest shape x every pair of SIBLINGS made twins: the same data object, or two distinct objects that
        compare equal (and hash equal), under distinct explicit data_ids -- node identity, data identity and data
        equality come apart -- x every verdict assignment (the twins get every pair of different answers) x every start."""
        for shape in H.forests(n):
            for group in sibling_groups(shape):
                for a, b in itertools.combinations(group, 2):
                    for variant in ("same", "equal"):
                        univ = univ_for(n)
                        if variant == "same":
                            lab_b, ids = a, (7001, 7002)
                        else:
                            univ[a] = "e:50"
                            univ.append("e:50")
                            lab_b, ids = n, ("tw1", "tw2")

                        def labeler(i, d, s_, a=a, b=b, lab_b=lab_b, ids=ids):
                            if i == a:
                                return (a, None, ids[0])
                            if i == b:
                                return (lab_b, None, ids[1])
                            return (i, None, None)

                        nodes = B.shape_to_nodes(shape, labeler)
                        yield from self._all_verdicts(nodes, n, rng, sample, univ)

    def _clones(self, n, rng, sample=None):
        """Every forest shape x every pair of nodes that are NOT siblings carrying one data object (clones with the default
        data_id; parent/child pairs included = the region where the D24 leaf collides) x every verdict assignment x every start."""
        for shape in H.forests(n):
            groups = sibling_groups(shape, all_groups=True)
            sib = {(x, y) for g in groups for x in g for y in g}
            for a, b in itertools.combinations(range(n), 2):
                if (a, b) in sib:
                    continue
                nodes = B.shape_to_nodes(shape, lambda i, d, s_, a=a, b=b: (a if i == b else i, None, None))
                yield from self._all_verdicts(nodes, n, rng, sample)

    def descs(self, tier, rng):
        yield from CORPUS
        nex = 3 if tier == "quick" else 4
        for n in range(1, nex + 1):
            yield from self._exhaustive(n, rng)
        if tier == "quick":
            yield from self._exhaustive(4, rng, sample=30)
            yield from self._exhaustive(5, rng, sample=4)
        else:
            yield from self._exhaustive(5, rng, sample=40)
        # equal-comparing siblings under distinct data_ids, clones in different parents: twins answered differently
        yield from self._twins(2, rng)
        if tier == "quick":
            yield from self._twins(3, rng, sample=24)
            yield from self._twins(4, rng, sample=4)
            yield from self._clones(2, rng)
            yield from self._clones(3, rng, sample=20)
        else:
            yield from self._twins(3, rng)
            yield from self._twins(4, rng, sample=20)
            yield from self._clones(2, rng)
            yield from self._clones(3, rng)
            yield from self._clones(4, rng, sample=20)
        # TypedTrees with mixed kinds among siblings (the kind-aware sibling accessors must not leak into the scans)
        if tier == "quick":
            yield from self._typed(2, rng)
            yield from self._typed(3, rng, sample=15)
            yield from self._typed_stop(3, rng, reps=2)
            yield from self._typed_stop(4, rng, reps=1)
        else:
            yield from self._typed(2, rng)
            yield from self._typed(3, rng)
            yield from self._typed(4, rng, sample=15)
            yield from self._typed_stop(4, rng, reps=4)
            yield from self._typed_stop(5, rng, reps=1)
        # histories: filter -> a change that keeps the node count -> filter again, SAME predicate object, same tree (and a second tree)
        yield from self._hist_systematic(2, rng)
        yield from self._hist_systematic(3, rng)
        if tier == "quick":
            yield from self._hist_random(rng, 200)
        else:
            yield from self._hist_systematic(4, rng)
            yield from self._hist_random(rng, 800)
        nrand = 300 if tier == "quick" else 800
        weights = [3, 4, 1, 1, 1, 0.4]
        for _ in range(nrand):
            n = rng.randint(6, 14)
            shape = H.random_shape(rng, n, deep=rng.choice([0.2, 0.5, 0.8]))
            nodes = B.shape_to_nodes(shape, lambda i, d, s: (i, None, None))
            add_clones(nodes, rng)
            typed = rng.random() < 0.35
            if typed:
                for nd_ in flatten_raw(nodes):
                    nd_[1] = rng.choice(["k0", "k1", "k2"])
            vs = rng.choices(range(6), weights=weights, k=n)
            flat = flatten(nodes)
            cands = [i for i in range(n) if flat[i][1]]
            yield self._desc(nodes, n, vs, rng.choice(cands) if cands and rng.random() < 0.5 else None, rng, typed=typed)

    def shrink_candidates(self, desc):
        if "hist" in desc:
            yield from self._shrink_hist(desc)
            return
        # drop a leaf / lift children (verdicts follow their nodes); then weaken verdicts to False
        n = len(desc["verdicts"])
        tagged = tag_nodes(desc["nodes"])
        for cand in B.drop_one_node(tagged):
            order = [x[0][1] for x in flatten_raw(cand)]
            if desc["start"] is not None and desc["start"] not in order:
                continue
            yield dict(desc, nodes=untag(cand), verdicts=[desc["verdicts"][k] for k in order],
                       flavours=[desc["flavours"][k] for k in order],
                       start=None if desc["start"] is None else order.index(desc["start"]))
        for k in range(n):
            if desc["verdicts"][k] != V_FALSE:
                vs = list(desc["verdicts"]); fl = list(desc["flavours"])
                vs[k] = V_FALSE; fl[k] = 0
                yield dict(desc, verdicts=vs, flavours=fl)
        if any(desc["flavours"]):
            yield dict(desc, flavours=[0] * n)

    def _shrink_hist(self, desc):
        h = desc["hist"]
        if h.get("tree2"):
            yield dict(desc, hist=dict(h, tree2=None))
        if desc["start"] is None:
            for cand in B.drop_one_node(desc["nodes"]):
                yield dict(desc, nodes=cand)
        for key in ("v1", "v2"):
            for k, c in enumerate(h[key]):
                if c != V_FALSE:
                    vs = list(h[key]); vs[k] = V_FALSE
                    fk = "f" + key[1]
                    fl = list(h[fk]); fl[k] = 0
                    yield dict(desc, hist=dict(h, **{key: vs, fk: fl}))
        if h["mut"][0] == "rename" and len(h["mut"][1]) > 1:
            yield dict(desc, hist=dict(h, mut=["rename", h["mut"][1][:1], h["mut"][2][:1]]))
        # (the mutation itself is kept: a replay with a real change between the two calls says more)

    # ----- one case
    def run(self, desc) -> Case:
        """One case = one or more PHASES on one process and one predicate object.  A plain desc has one phase.  A history
        desc (desc["hist"]) has: phase 1 on the tree (all forms, the in-place filter last), then a mutation of the tree that
        keeps the node count, then phase 2 (all forms again, SAME predicate object, answers looked up by data label in a table
        the harness switches), then optionally phase 3 on a SECOND tree of the size the first tree has at that moment."""
        _BASE[0] = H.alloc_count()
        typed = bool(desc.get("typed"))
        tree, U = B.build(dict(typed=typed, univ=desc["univ"], nodes=desc["nodes"]))
        nodes = B.all_nodes(tree._root)
        start = None if desc["start"] is None else nodes[desc["start"]]
        hist = desc.get("hist")
        cur = {"vd": {}}
        log = []

        def pred(node):          # ONE predicate object for all phases of the case
            k = nid(node)
            log.append(k)
            code, fl = cur["vd"][k]
            return FLAVOURS[code][fl]()

        def by_label(ns, codes, fls):
            return {nid(n): (codes[U.index(n._data)], fls[U.index(n._data)]) for n in ns}

        if hist is None:
            vd = {nid(n): (desc["verdicts"][k], desc["flavours"][k]) for k, n in enumerate(nodes)}
        else:
            vd = by_label(nodes, hist["v1"], hist["f1"])
        phases = [self._phase(tree, U, typed, nodes, vd, start, pred, log, cur)]
        if hist is not None:
            apply_mutation(tree, U, start, hist["mut"], typed)
            nodes2 = B.all_nodes(tree._root)
            phases.append(self._phase(tree, U, typed, nodes2, by_label(nodes2, hist["v2"], hist["f2"]), start, pred, log, cur))
            t2desc = (hist.get("tree2") or {}).get(str(len(tree)))
            if t2desc is not None:      # a different tree with as many nodes as the first one has now, same predicate
                tree2 = B.new_tree(dict(typed=typed))
                B.add_nodes(tree2._root, t2desc, U, typed)
                nodes3 = B.all_nodes(tree2._root)
                phases.append(self._phase(tree2, U, typed, nodes3, by_label(nodes3, hist["v2"], hist["f2"]), None, pred, log, cur))
        coq = H.coq_list(ph[0] for ph in phases)
        obs = [ph[1] for ph in phases]
        info = phases[0][4]
        fails = [((ph[2] if k == 0 else f"phase {k + 1}: {ph[2]}"), ph[3]) for k, ph in enumerate(phases) if ph[2]]
        untagged = [x for x in fails if x[1] is None]
        fail, finding = (untagged or fails or [(None, None)])[0]      # an untagged failure wins over a D24-tagged one
        nsc = info["scope"]
        vkey = desc["verdicts"] if hist is None else [hist["v1"], hist["v2"], hist["mut"], sorted((hist.get("tree2") or {}).keys())]
        return Case(desc=desc, coq_input=coq, impl_obs=obs, oracle_fail=fail, finding=finding,
                    nontrivial=0 < info["kept"] < nsc,
                    key=H.digest([shape_shape(desc["nodes"]), labels(desc["nodes"]), vkey, desc["start"]]),
                    stats=dict(nodes=len(nodes), scope=nsc, kept=info["kept"], stop_hit=info["stop_hit"],
                               start="tree" if start is None else "node", typed=typed, d24_leaves=info["d24"], d24_collision=info["d24_collision"],
                               phases=len(phases), mutation="-" if hist is None else hist["mut"][0],
                               raised=0 if hist is not None else sum(1 for k in range(len(nodes)) if desc["flavours"][k] in RAISED.get(desc["verdicts"][k], ()))))

    def _phase(self, tree, U, typed, nodes, vd, start, pred, log, cur):
        """All forms on the tree as it is now; returns (coq term, observation, oracle failure, finding, info)."""
        cur["vd"] = vd
        coq = (f"({coq_forest(tree._root, U)}, "
               f"{H.coq_list(f'({nid(n)}, {COQ_RAW[vd[nid(n)][0]][vd[nid(n)][1]]})' for n in nodes)}, "
               f"{'(@None Z)' if start is None else H.coq_opt(nid(start))}, {H.coq_bool(typed)})")

        # snapshot of the source by pointers, taken before anything runs
        snap = {id(n): list(n._children or []) for n in [tree._root] + nodes}
        src_before = H.sx_forest(tree._root, U)
        snap["lab"] = {id(n): [U.index(n._data), H.sx_did(n._data_id)] for n in nodes}   # removed nodes lose their data

        def copy_obs(fn):
            base = H.alloc_count()
            del log[:]
            try:
                t2 = fn()
            except Exception as e:  # noqa: BLE001
                return [-1, H.err_class(e)], None, list(log)

            def go(n):
                return [H.nid(n) - base, U.index(n._data), H.sx_did(n._data_id), H.sx_kind(getattr(n, "kind", None)),
                        [go(c) for c in (n._children or [])]]

            return [go(c) for c in (t2._root._children or [])], t2, list(log)

        if start is None:
            forms = [lambda: tree.filtered(pred), lambda: tree.copy(predicate=pred)]
        else:
            forms = [lambda: start.filtered(pred), lambda: start.copy(predicate=pred),
                     lambda: start.copy(add_self=False, predicate=pred)]
        copies, new_trees, call_logs, raw_logs = [], [], [], []
        for fn in forms:
            o, t2, lg = copy_obs(fn)
            copies.append(o)
            new_trees.append(t2)
            raw_logs.append(lg)
            call_logs.append([-1] if t2 is None else lg)   # the log of a call that raised is judged by the oracle only
        snap["raw_logs"] = raw_logs
        # the same entry points without a predicate: plain copies, ValueError
        def err_of(fn):
            try:
                fn()
            except Exception as e:  # noqa: BLE001
                return H.err_class(e)
            return 0

        if start is None:
            nopred = [copy_obs(lambda: tree.copy())[0], err_of(lambda: tree.filtered(None)), err_of(lambda: tree.filter(None))]
        else:
            nopred = [copy_obs(lambda: start.copy())[0], copy_obs(lambda: start.copy(add_self=False))[0],
                      err_of(lambda: start.filtered(None)), err_of(lambda: start.filter(None))]
        src_after = H.sx_forest(tree._root, U)
        src_shape_after = ids_shape(tree._root._children or [])

        del log[:]
        try:
            (tree if start is None else start).filter(pred)
            inplace = ids_shape(tree._root._children or [])
            count = len(tree)
        except Exception as e:  # noqa: BLE001
            inplace, count = [-1, H.err_class(e)], -1
        call_logs.append(list(log))

        obs = [copies, src_shape_after, inplace, count, call_logs, nopred]
        fail, finding, info = self.oracle(tree, U, nodes, snap, vd, start, obs, new_trees, src_before, src_after)
        return coq, obs, fail, finding, info

    # ----- the property statement, executed on the pointer snapshot (not F's recursion)
    def oracle(self, tree, U, nodes, snap, vd, start, obs, new_trees, src_before, src_after):
        copies, src_shape_after, inplace, count, call_logs, nopred = obs
        root = tree._root
        top = root if start is None else start
        parent = {}
        for p in [root] + nodes:
            for c in snap[id(p)]:
                parent[id(c)] = p
        # scope = proper descendants of the start, in pre-order
        scope = []

        def walk(p):
            for c in snap[id(p)]:
                scope.append(c)
                walk(c)

        walk(top)
        pos = {id(n): k for k, n in enumerate(scope)}

        def ancestors(n):   # proper ancestors inside the scope
            out = []
            p = parent[id(n)]
            while p is not top:
                out.append(p)
                p = parent[id(p)]
            return out

        def verdict(n):
            return vd[nid(n)][0]

        closed = (V_SKIP, V_KEEPSELF, V_SELECT)
        reached = [n for n in scope if not any(verdict(a) in closed for a in ancestors(n))]
        stops = [pos[id(n)] for n in reached if verdict(n) == V_STOP]
        first_stop = min(stops) if stops else len(scope)
        visited = [n for n in reached if pos[id(n)] < first_stop]
        accepted = [n for n in visited if verdict(n) in (V_TRUE, V_KEEPSELF, V_SELECT)]
        kept = set()
        for a in accepted:
            kept.add(id(a))
            kept.update(id(x) for x in ancestors(a))
        selected = [a for a in accepted if verdict(a) == V_SELECT]
        for n in scope:
            if any(a is s for s in selected for a in ancestors(n)):
                kept.add(id(n))
        info = dict(scope=len(scope), kept=len(kept), stop_hit=bool(stops), d24=0, d24_collision=False)

        # every call of the predicate: the reached nodes up to and including the first stop
        exp_calls = [nid(n) for n in reached if pos[id(n)] <= first_stop]
        for k, lg in enumerate(call_logs):
            if lg == [-1]:      # the call raised: what it asked before must be a prefix of the expected calls
                raw = snap["raw_logs"][k]
                if raw != exp_calls[:len(raw)]:
                    return f"calls: form {k} called the predicate on {raw} before raising, expected a prefix of {exp_calls}", None, info
            elif lg != exp_calls:
                return f"calls: form {k} called the predicate on {lg}, expected {exp_calls}", None, info

        # in place: exactly the kept nodes (and everything outside the scope), once each, original order, original parents
        in_scope = {id(n) for n in scope}

        def exp_shape(p):
            return [[nid(c), exp_shape(c)] for c in snap[id(p)] if id(c) not in in_scope or id(c) in kept]

        exp_ip = exp_shape(root)
        if inplace != exp_ip:
            return f"in-place: got {inplace} expected {exp_ip}", None, info
        exp_count = sum(1 for n in nodes if id(n) not in in_scope or id(n) in kept)
        if count != exp_count:
            return f"in-place count: got {count} expected {exp_count}", None, info

        # copying forms leave the source untouched
        if src_after != src_before or src_shape_after != [[nid(c), ids_shape_snap(c, snap)] for c in snap[id(root)]]:
            return "source changed by a copying form", None, info

        # copying forms: same result as in place, modulo node identity (data object, data_id, shape, order)
        visited_ids = {id(n) for n in visited}

        def exp_copy(p, d24):
            out = []
            for c in snap[id(p)]:
                if id(c) not in kept:
                    continue
                lab = snap["lab"][id(c)]
                kids = exp_copy(c, d24)
                if d24 and id(c) in visited_ids and verdict(c) in (V_TRUE, V_KEEPSELF):
                    kids = [lab + [[]]] + kids
                out.append(lab + [kids])
            return out

        def strip(o):
            return [[x[1], x[2], strip(x[4])] for x in o]      # node identity and kind are not part of the statement

        def wrap(k, body):
            if start is not None and k < 2:     # add_self=True: the start node itself on top
                return [snap["lab"][id(start)] + [body]]
            return body

        # without a predicate: the whole branch is copied / ValueError
        def full(p):
            return [snap["lab"][id(c)] + [full(c)] for c in snap[id(p)]]

        ncopies = 1 if start is None else 2
        for k in range(ncopies):
            o = nopred[k]
            if o and o[0] == -1:
                return f"plain copy {k}: raised error class {o[1]}", None, info
            if strip(o) != wrap(2 * k, full(top)):
                return f"plain copy {k}: got {strip(o)} expected {wrap(2 * k, full(top))}", None, info
        if nopred[ncopies:] != [3, 3]:
            return f"missing predicate: error classes {nopred[ncopies:]}, expected ValueError twice", None, info

        plain = exp_copy(top, False)
        doubled = exp_copy(top, True)
        info["d24"] = count_nodes(doubled) - count_nodes(plain)
        d24_seen = False
        # add_child refuses two siblings with one data_id: with the D24 leaves the tree the copying form builds
        # can contain such a pair on a legal input (an accepted node with a kept child carrying the node's own data)
        def sib_dup(forest):
            dids = [repr(x[1]) for x in forest]
            return len(set(dids)) != len(dids) or any(sib_dup(x[2]) for x in forest)

        for k, o in enumerate(copies):
            if o and o[0] == -1:
                if o[1] == 1 and sib_dup(wrap(k, doubled)) and not sib_dup(wrap(k, plain)):
                    d24_seen = True
                    info["d24_collision"] = True
                    continue
                return f"copy form {k}: raised error class {o[1]}", None, info
            got = strip(o)
            if not fresh(new_trees[k], nodes):
                return f"copy form {k}: result shares node objects with the source or has inconsistent parents", None, info
            if got == wrap(k, plain):
                continue
            if got == wrap(k, doubled):
                d24_seen = True
                continue
            alt = "" if doubled == plain else f" (or, with the D24 leaves, {wrap(k, doubled)})"
            return f"copy form {k}: got {got} expected {wrap(k, plain)}{alt}", None, info
        if info.get("d24_collision"):
            return ("D24: the leaf copy of an accepted node collides with a kept child that carries the node's own data: "
                    "UniqueConstraintError from the copying form on a legal input; in place as specified"), "D24", info
        if d24_seen:
            return (f"D24: copying form adds {info['d24']} leaf copies (visited nodes answered True / SkipBranch(and_self=False) "
                    f"receive a copy of themselves as first child); otherwise as specified"), "D24", info
        return None, None, info


def ids_shape_snap(n, snap):
    return [[nid(c), ids_shape_snap(c, snap)] for c in snap[id(n)]]


def count_nodes(o):
    return sum(1 + count_nodes(x[2]) for x in o)


def fresh(t2, src_nodes):
    src = {id(n) for n in src_nodes}

    def go(p):
        for c in (p._children or []):
            if id(c) in src or c._parent is not p or c._tree is not t2:
                return False
            if not go(c):
                return False
        return True

    return go(t2._root)


def flatten(nodes):
    """pre-order list of (node, [pre-order indices of its proper descendants])."""
    out = []

    def go(ns):
        mine = []
        for n in ns:
            k = len(out)
            out.append([n, None])
            sub = go(n[3])
            out[k][1] = sub
            mine.extend([k] + sub)
        return mine

    go(nodes)
    return out


def flatten_raw(nodes):
    out = []
    for n in nodes:
        out.append(n)
        out.extend(flatten_raw(n[3]))
    return out


def labels(nodes):
    return [[n[0], n[1], n[2]] for n in flatten_raw(nodes)]


def tag_nodes(nodes):
    c = [0]

    def go(ns):
        out = []
        for n in ns:
            k = c[0]
            c[0] += 1
            out.append([[n[0], k], n[1], n[2], go(n[3])])
        return out

    return go(nodes)


def untag(nodes):
    return [[n[0][0], n[1], n[2], untag(n[3])] for n in nodes]


def add_clones(nodes, rng, p=0.2, pc=0.25):
    """Re-label some nodes with the label of an earlier node (a clone), never
    among siblings; a node gets its parent's label (legal; the region where D24
    makes the copying form raise) with probability pc per node."""
    seen = []

    def go(ns, parent_label):
        for k, n in enumerate(ns):
            if parent_label is not None and rng.random() < pc * p and parent_label not in {m[0] for m in ns}:
                n[0] = parent_label
            elif seen and rng.random() < p:
                cand = rng.choice(seen)
                sib = {m[0] for m in ns}
                kid = {m[0] for m in n[3]}
                if cand != parent_label and cand not in sib and cand not in kid:
                    n[0] = cand
            seen.append(n[0])
            go(n[3], n[0])

    go(nodes, None)


def _fixture():
    # the suite's fixture tree: A(a1(a11,a12),a2) B(b1(b11)); labels are strings so "2 in name" is a per-node verdict
    names = ["A", "a1", "a11", "a12", "a2", "B", "b1", "b11"]
    nodes = [[0, None, None, [[1, None, None, [[2, None, None, []], [3, None, None, []]]], [4, None, None, []]]],
             [5, None, None, [[6, None, None, [[7, None, None, []]]]]]]
    return names, nodes


def _corpus():
    names, nodes = _fixture()
    univ = [f"s:{x}" for x in names]
    out = []
    # D24: TestCopy::test_filtered, predicate '"2" in name'
    vs = [V_TRUE if "2" in x else V_FALSE for x in names]
    out.append(dict(univ=univ, nodes=nodes, verdicts=vs, flavours=[0] * 8, start=None))
    # ... with a12 -> raise SkipBranch, and with a12 -> raise StopIteration
    vs2 = list(vs); vs2[3] = V_SKIP
    out.append(dict(univ=univ, nodes=nodes, verdicts=vs2, flavours=[0, 0, 0, 2, 0, 0, 0, 0], start=None))
    vs3 = list(vs); vs3[3] = V_STOP
    out.append(dict(univ=univ, nodes=nodes, verdicts=vs3, flavours=[0, 0, 0, 3, 0, 0, 0, 0], start=None))
    # D24 on a legal input with a clone below its original: filtered() raises UniqueConstraintError
    pc_nodes = [[0, None, None, [[0, None, None, []]]]]
    out.append(dict(univ=["s:A"], nodes=pc_nodes, verdicts=[V_TRUE, V_TRUE], flavours=[0, 0], start=None))
    pc3 = [[0, None, None, [[0, None, None, [[1, None, None, []]]], [2, None, None, []]]]]
    out.append(dict(univ=["s:A", "s:b", "s:c"], nodes=pc3, verdicts=[V_TRUE, V_FALSE, V_TRUE, V_TRUE], flavours=[0] * 4, start=None))
    out.append(dict(univ=["s:A", "s:b", "s:c"], nodes=pc3, verdicts=[V_TRUE, V_FALSE, V_FALSE, V_TRUE], flavours=[0] * 4, start=None))
    out.append(dict(univ=["s:A", "s:b", "s:c"], nodes=pc3, verdicts=[V_KEEPSELF, V_TRUE, V_TRUE, V_TRUE], flavours=[0] * 4, start=None))
    # D05: SkipBranch(and_self=False) after a removal was collected for the same parent
    out.append(D05_WITNESS)
    # D25: stop in the in-place form keeps the unscanned rest / drops pending removals
    out.append(D25_WITNESS)
    return out


D05_WITNESS = dict(univ=univ_for(4), nodes=[[0, None, None, []], [1, None, None, [[2, None, None, []], [3, None, None, []]]]],
                   verdicts=[V_FALSE, V_KEEPSELF, V_TRUE, V_TRUE], flavours=[0, 0, 0, 0], start=None)
D25_WITNESS = dict(univ=univ_for(4), nodes=[[0, None, None, []], [1, None, None, []], [2, None, None, []], [3, None, None, []]],
                   verdicts=[V_FALSE, V_TRUE, V_STOP, V_TRUE], flavours=[0, 0, 1, 0], start=None)
CORPUS = _corpus()

PROP = Prop()
