"""C17 — DOT, Mermaid and RDF exports describe exactly the tree's edges."""
from __future__ import annotations

import functools
import io
import re
from collections import Counter

import build as B
import common as H
from common import Case

from nutree.rdf import NUTREE_NS  # noqa: E402
from rdflib import Literal, URIRef  # noqa: E402
from rdflib.namespace import XSD  # noqa: E402

COMBOS = [(True, True), (True, False), (False, True), (False, False)]  # (unique_nodes, add_self/add_root)
GENERATOR = "https://github.com/mar10/nutree/"


class ParseError(Exception):
    """The emitted text / graph has a shape the strict parser does not know."""


def is_err(x):
    return isinstance(x, tuple) and len(x) == 2 and x[0] == "ERR"


def call(fn):
    try:
        return fn()
    except ParseError:
        raise
    except Exception as e:  # noqa: BLE001
        return ("ERR", H.err_class(e))


# ---------------------------------------------------------------------------
# strict parsers: text / graph -> structure.  Keys stay raw text here.
# ---------------------------------------------------------------------------
_DOT_NODE = re.compile(r'^  (.*?)(?: \[label="([^"]*)"( shape="box")?\])?$')
_DOT_EDGE = re.compile(r'^  (.*?) -> (.*?)(?: \[label="([^"]*)"\])?$')


def parse_dot(lines, tree_name):
    """-> (defs [(keytext, label|None, box)], edges [(from, to, label|None)])"""
    lines = list(lines)
    head = ["# Generator: " + GENERATOR, f'digraph "{tree_name}" {{', "", "  # Node Definitions"]
    if lines[:4] != head:
        raise ParseError(f"dot header {lines[:4]!r}")
    if not lines or lines[-1] != "}":
        raise ParseError("dot: no closing brace")
    body = lines[4:-1]
    try:
        cut = body.index("  # Edge Definitions")
    except ValueError:
        raise ParseError("dot: no edge section") from None
    nodes, edges = body[:cut], body[cut + 1:]
    if not nodes or nodes[-1] != "":
        raise ParseError("dot: node section not closed by an empty line")
    defs, es = [], []
    for ln in nodes[:-1]:
        m = _DOT_NODE.match(ln)
        if not m or " -> " in ln:
            raise ParseError(f"dot node line {ln!r}")
        defs.append((m.group(1), m.group(2), bool(m.group(3))))
    for ln in edges:
        m = _DOT_EDGE.match(ln)
        if not m:
            raise ParseError(f"dot edge line {ln!r}")
        es.append((m.group(1), m.group(2), m.group(3)))
    return defs, es


_MER_ROOT = re.compile(r'^0\{\{"([^"]*)"\}\}$')
_MER_NODE = re.compile(r'^(\d+)\("([^"]*)"\)$')
_MER_EDGE = re.compile(r"^(\d+) --> (\d+)$")
_MER_EDGE_T = re.compile(r'^(\d+)-- "([^"]*)" -->(\d+)$')


def parse_mermaid(text, title):
    """-> (nodes [(idx, name, is_root_shape)], edges [(from idx, to idx, kind|None)], raw node lines, raw edge lines)"""
    lines = text.split("\n")
    head = ["```mermaid", "---", f"title: {title}", "---", "", "%% Generator: " + GENERATOR, "", "flowchart TD", "",
            "%% Nodes:"]
    if lines[:len(head)] != head:
        raise ParseError(f"mermaid header {lines[:len(head)]!r}")
    if lines[-2:] != ["```", ""]:
        raise ParseError(f"mermaid tail {lines[-2:]!r}")
    body = lines[len(head):-2]
    try:
        cut = body.index("%% Edges:")
    except ValueError:
        raise ParseError("mermaid: no edge section") from None
    nodes, edges = body[:cut], body[cut + 1:]
    if not nodes or nodes[-1] != "":
        raise ParseError("mermaid: node section not closed by an empty line")
    ns, es = [], []
    for ln in nodes[:-1]:
        m = _MER_ROOT.match(ln)
        if m:
            ns.append((0, m.group(1), True))
            continue
        m = _MER_NODE.match(ln)
        if not m:
            raise ParseError(f"mermaid node line {ln!r}")
        ns.append((int(m.group(1)), m.group(2), False))
    for ln in edges:
        m = _MER_EDGE.match(ln)
        if m:
            es.append((int(m.group(1)), int(m.group(2)), None))
            continue
        m = _MER_EDGE_T.match(ln)
        if not m:
            raise ParseError(f"mermaid edge line {ln!r}")
        es.append((int(m.group(1)), int(m.group(3)), m.group(2)))
    return ns, es, nodes[:-1], edges


SYS = ("SYS",)


def _rdf_node(term):
    if isinstance(term, URIRef):
        if term == URIRef(NUTREE_NS.system_root):
            return SYS
        raise ParseError(f"rdf: unknown URI node {term!r}")
    if isinstance(term, Literal):
        if term.language is not None:
            raise ParseError(f"rdf: literal with language {term!r}")
        if term.datatype is None:
            return ("D", str(term))
        if term.datatype == XSD.integer:
            return ("D", int(str(term)))
    raise ParseError(f"rdf: unknown node term {term!r}")


def parse_rdf(graph):
    """-> set of ("has_child", p, c) | ("kind", n, str) | ("name", n, str) | ("index", n, int)"""
    out = set()
    for s, p, o in graph:
        sn = _rdf_node(s)
        if p == URIRef(NUTREE_NS.has_child):
            out.add(("has_child", sn, _rdf_node(o)))
        elif p in (URIRef(NUTREE_NS.kind), URIRef(NUTREE_NS.name)):
            if not (isinstance(o, Literal) and o.datatype is None and o.language is None):
                raise ParseError(f"rdf: text object expected {o!r}")
            out.add(("kind" if p == URIRef(NUTREE_NS.kind) else "name", sn, str(o)))
        elif p == URIRef(NUTREE_NS.index):
            if not (isinstance(o, Literal) and o.datatype == XSD.integer):
                raise ParseError(f"rdf: integer object expected {o!r}")
            out.add(("index", sn, int(str(o))))
        else:
            raise ParseError(f"rdf: unknown predicate {p!r}")
    return out


# ---------------------------------------------------------------------------
# canonical observation (mirrors sx_dot / sx_mer / sx_rdf of Export.v)
# ---------------------------------------------------------------------------
def canon(v):
    """python value -> nested ints/lists exactly as H.sx renders it"""
    if isinstance(v, bool):
        return 1 if v else 0
    if isinstance(v, int):
        return v
    if v is None:
        return []
    if isinstance(v, str):
        return [ord(c) for c in v]
    return [canon(x) for x in v]


def sx_cmp(a, b):
    """total order of Export.sx_leb: atoms by value, atoms before lists, lists lexicographic (prefix first)"""
    if isinstance(a, int) and isinstance(b, int):
        return (a > b) - (a < b)
    if isinstance(a, int):
        return -1
    if isinstance(b, int):
        return 1
    for x, y in zip(a, b):
        c = sx_cmp(x, y)
        if c:
            return c
    return (len(a) > len(b)) - (len(a) < len(b))


def opt(v):
    return [] if v is None else [v]


class KeyTable:
    """raw key text of a DOT file -> key of the model (data_id or allocation index)"""

    def __init__(self, tree):
        self.by_did, self.by_nid = {}, {}
        for n in [tree._root] + B.all_nodes(tree._root):
            t = str(n._data_id)
            if t in self.by_did and not (self.by_did[t] == n._data_id and type(self.by_did[t]) is type(n._data_id)):
                raise ParseError(f"generator: data_ids {self.by_did[t]!r} and {n._data_id!r} print alike")
            self.by_did[t] = n._data_id
            self.by_nid[str(n._node_id)] = H.nid(n)

    def key(self, text, unique):
        tab = self.by_did if unique else self.by_nid
        if text not in tab:
            return ("?", text)
        return ("D", tab[text]) if unique else ("N", tab[text])


def obs_key(k):
    if k[0] == "D":
        return [0, H.sx_did(k[1])]
    if k[0] == "N":
        return [1, k[1]]
    return [2, k[1]]


def obs_rnode(n):
    return [2] if n == SYS else H.sx_did(n[1])


_PRED = {"has_child": 0, "kind": 1, "name": 2, "index": 3}


def obs_rdf(triples):
    items = []
    for p, s, o in triples:
        items.append(canon([_PRED[p], obs_rnode(s), obs_rnode(o) if p == "has_child" else o]))
    items.sort(key=functools.cmp_to_key(sx_cmp))
    return items



# ---------------------------------------------------------------------------
# whole Mermaid charts under the options of to_mermaid_flowchart
# ---------------------------------------------------------------------------
EDGE_T_NAMES = "{from_id}>{to_id}|{from_node.name}|{to_node.name}"
_EDGE_T_NAMES_RE = re.compile(r"^(\d+)>(\d+)\|([^|]*)\|([^|]*)$")
NODE_T_BRACKET = "<{node.name}>"

CHART_OPTS = [
    dict(md=True, dir="TD", title=True, headers=None, add=True, uniq=True, nt=None, et=None),
    dict(md=False, dir="LR", title="My chart", headers=["%% one", "classDef x fill:#f9f"], add=False, uniq=True, nt=None, et=None),
    dict(md=True, dir="BT", title=False, headers=[], add=True, uniq=False, nt=NODE_T_BRACKET, et=EDGE_T_NAMES),
    dict(md=False, dir="RL", title="", headers=None, add=False, uniq=False, nt=None, et="{from_id} -.-> {to_id}"),
    dict(md=True, dir="TB", title=None, headers=["%% h"], add=True, uniq=True, nt="{node.name}", et=EDGE_T_NAMES),
    dict(md=False, dir="TD", title=True, headers=None, add=True, uniq=True, nt=NODE_T_BRACKET, et=EDGE_T_NAMES, call=True),
    dict(md=False, dir="TD", title=False, headers=None, add=False, uniq=False, nt=None, et="{to_id} <-- {from_id}", call=True),
    # malformed stream: a string edge_mapper gets no kind keyword; unknown fields
    dict(md=True, dir="TD", title=True, headers=None, add=True, uniq=True, nt=None, et='{from_id}-- "{kind}" -->{to_id}'),
    dict(md=False, dir="TD", title=True, headers=None, add=False, uniq=True, nt="{nope}", et=None),
]


def coq_mopts(o):
    t = o["title"]
    title = "TitleName" if t is True else (f"(TitleText {H.coq_text(t)})" if isinstance(t, str) and t else "TitleOff")
    hs = H.coq_list(H.coq_text(h) for h in (o["headers"] or []))
    return (f"(MO {H.coq_bool(o['md'])} {H.coq_text(o['dir'])} {title} {hs} {H.coq_bool(o['add'])} {H.coq_bool(o['uniq'])} "
            f"{H.coq_opt(o['nt'], H.coq_text)} {H.coq_opt(o['et'], H.coq_text)})")


def chart_lines(tree, st, o):
    """the emitted chart as a list of lines, or -1 when the export raises"""
    buf = io.StringIO()
    nt, et = o["nt"], o["et"]
    if o.get("call"):
        # the same mappers given as callables (the model does not distinguish: a callable is modelled by its template)
        if nt is not None:
            nt = (lambda t: lambda node: t.format(node=node))(nt)
        if et is not None:
            et = (lambda t: lambda fi, fn, ti, tn: t.format(from_id=fi, from_node=fn, to_id=ti, to_node=tn))(et)
    kw = dict(as_markdown=o["md"], direction=o["dir"], title=o["title"], headers=o["headers"], unique_nodes=o["uniq"],
              node_mapper=nt, edge_mapper=et)
    try:
        if st is None:
            tree.to_mermaid_flowchart(buf, add_root=o["add"], **kw)
        else:
            st.to_mermaid_flowchart(buf, add_self=o["add"], **kw)
    except Exception:  # noqa: BLE001
        return -1
    text = buf.getvalue()
    if not text.endswith("\n"):
        raise ParseError("chart: last line not terminated")
    return text[:-1].split("\n")


def chart_oracle(tree, st, typed, o, lines):
    """documented layout of the chart + (for the name-carrying edge template) one line per exported edge"""
    start = tree._root if st is None else st
    below = B.all_nodes(start)
    a, u = o["add"], o["uniq"]
    tag = f"chart {o}"
    bad_edge_t = o["et"] is not None and "{kind}" in o["et"]
    bad_node_t = o["nt"] is not None and "{nope}" in o["nt"]
    n_edges = sum(1 for n in below if a or n._parent is not start)
    must_raise = (bad_node_t and len(below) > 0) or (bad_edge_t and n_edges > 0)
    if lines == -1:
        return None if must_raise else f"chart-error: {tag}: raised"
    if must_raise:
        return f"chart-error: {tag}: an unknown template field was accepted"
    head = []
    if o["md"]:
        head.append("```mermaid")
    if o["title"]:
        head += ["---", "title: " + (start.name if o["title"] is True else o["title"]), "---"]
    head += ["", "%% Generator: " + GENERATOR, "", "flowchart " + o["dir"]]
    if o["headers"]:
        head += ["", "%% Headers:"] + list(o["headers"])
    head += ["", "%% Nodes:"]
    if lines[:len(head)] != head:
        return f"chart-head: {tag}: got {lines[:len(head)]!r}"
    body = lines[len(head):]
    if o["md"]:
        if not body or body[-1] != "```":
            return f"chart-tail: {tag}: markdown fence not closed"
        body = body[:-1]
    try:
        cut = body.index("%% Edges:")
    except ValueError:
        return f"chart-body: {tag}: no edge section"
    nodes, edges = body[:cut], body[cut + 1:]
    if not nodes or nodes[-1] != "":
        return f"chart-body: {tag}: node section not closed by an empty line"
    nodes = nodes[:-1]
    exp = ([start] if a else []) + below
    nkeys = len({(type(k).__name__, k) for k in ((n._data_id if u else H.nid(n)) for n in exp)})
    if len(nodes) != nkeys:
        return f"chart-nodes: {tag}: {len(nodes)} node lines for {nkeys} distinct keys"
    if len(edges) != n_edges:
        return f"chart-edges: {tag}: {len(edges)} edge lines, expected {n_edges}"
    if o["nt"] == NODE_T_BRACKET:
        for ln in nodes[1 if a else 0:]:
            if not re.match(r'^\d+\("<[^"]*>"\)$', ln):
                return f"chart-nodes: {tag}: node line {ln!r} ignores the node template"
    if o["et"] == EDGE_T_NAMES:
        want = [(n._parent.name, n.name) for n in below if a or n._parent is not start]
        idx_of = {}
        for ln, (pn, cn), n in zip(edges, want, [n for n in below if a or n._parent is not start]):
            m = _EDGE_T_NAMES_RE.match(ln)
            if not m:
                return f"chart-edges: {tag}: line {ln!r}"
            if (m.group(3), m.group(4)) != (pn, cn):
                return f"chart-edges: {tag}: line {ln!r} expected names {pn!r} -> {cn!r}"
            for node, i in ((n._parent, int(m.group(1))), (n, int(m.group(2)))):
                k = (type(node._data_id).__name__, node._data_id) if u else ("N", H.nid(node))
                if idx_of.setdefault(k, i) != i:
                    return f"chart-edges: {tag}: key {k} drawn as {i} and {idx_of[k]}"
        if len(set(idx_of.values())) != len(idx_of):
            return f"chart-edges: {tag}: two keys share an index"
    return None


# ---------------------------------------------------------------------------
# whole DOT documents under the options of to_dot (attribute dicts, mappers that set one attribute)
# ---------------------------------------------------------------------------
DOT_OPTS = [
    dict(add=True, uniq=True, g=[], n=[], e=[], nm=None, em=None),
    dict(add=False, uniq=True, g=[["rankdir", "LR"]], n=[["style", "filled"], ["fillcolor", "#e0e0e0"]], e=[], nm=["color", "red"], em=None),
    dict(add=True, uniq=False, g=[], n=[], e=[["arrowhead", "vee"]], nm=["label", "X"], em=["style", "dashed"]),
    dict(add=True, uniq=True, g=[["a", "b"]], n=[], e=[["c", "d"]], nm=["shape", "circle"], em=["label", "L"]),
    dict(add=False, uniq=False, g=[], n=[["k", "v"]], e=[], nm=None, em=["color", "#C00000"]),
]


def coq_attrs(d):
    return H.coq_list(f"({H.coq_text(k)}, {H.coq_text(v)})" for k, v in d)


def coq_dopts(o):
    def mp(m):
        return "None" if m is None else f"(Some ({H.coq_text(m[0])}, {H.coq_text(m[1])}))"
    return (f"(DO {H.coq_bool(o['add'])} {H.coq_bool(o['uniq'])} {coq_attrs(o['g'])} {coq_attrs(o['n'])} {coq_attrs(o['e'])} "
            f"{mp(o['nm'])} {mp(o['em'])})")


def _setter(m):
    if m is None:
        return None
    k, v = m

    def mapper(node, data):
        data[k] = v
    return mapper


_ADDR_NODE = re.compile(r"^  (\d+)((?: \[.*\])?)$")
_ADDR_EDGE = re.compile(r"^  (\d+) -> (\d+)((?: \[.*\])?)$")


def dot_doc_lines(tree, st, o, kt):
    """the emitted document; node ids (memory addresses) are rewritten to @<allocation index> when unique_nodes is off"""
    kw = dict(unique_nodes=o["uniq"], graph_attrs=dict(o["g"]), node_attrs=dict(o["n"]), edge_attrs=dict(o["e"]),
              node_mapper=_setter(o["nm"]), edge_mapper=_setter(o["em"]))
    lines = list(tree.to_dot(add_root=o["add"], **kw) if st is None else st.to_dot(add_self=o["add"], **kw))
    if st is None:
        buf = io.StringIO()
        tree.to_dotfile(buf, add_root=o["add"], **kw)
        if buf.getvalue() != "".join(ln + "\n" for ln in lines):
            lines = lines + ["<to_dotfile wrote different lines than to_dot>"]    # fails the oracle's tail check
    if o["uniq"]:
        return lines
    out = []
    for ln in lines:
        m = _ADDR_EDGE.match(ln)
        if m and m.group(1) in kt.by_nid and m.group(2) in kt.by_nid:
            out.append(f"  @{kt.by_nid[m.group(1)]} -> @{kt.by_nid[m.group(2)]}{m.group(3)}")
            continue
        m = _ADDR_NODE.match(ln)
        if m and m.group(1) in kt.by_nid:
            out.append(f"  @{kt.by_nid[m.group(1)]}{m.group(2)}")
            continue
        out.append(ln)
    return out


_ATTR = re.compile(r'(\w+)="([^"]*)"')


def _parse_attr_tail(tail, tag):
    """'' | ' [k="v" ...]' -> dict"""
    if tail == "":
        return {}
    if not (tail.startswith(" [") and tail.endswith("]")):
        raise ParseError(f"{tag}: attribute list {tail!r}")
    body = tail[2:-1]
    d = dict(_ATTR.findall(body))
    if " ".join(f'{k}="{v}"' for k, v in d.items()) != body:
        raise ParseError(f"{tag}: attribute list {tail!r}")
    return d


def dot_doc_oracle(tree, st, typed, o, lines):
    """documented layout: defaults section iff an attribute dict is given; every definition / edge carries the
    default attributes of its kind of line overridden by what the mapper sets"""
    start = tree._root if st is None else st
    below = B.all_nodes(start)
    a, u = o["add"], o["uniq"]
    tag = f"dot-doc {o}"
    head = ["# Generator: " + GENERATOR, f'digraph "{tree.name}" {{']
    if o["g"] or o["n"] or o["e"]:
        head += ["", "  # Default Definitions"]
        for word, d in (("graph", o["g"]), ("node", o["n"]), ("edge", o["e"])):
            if d:
                head.append(f"  {word}  [" + " ".join(f'{k}="{v}"' for k, v in d) + "]")
    head += ["", "  # Node Definitions"]
    if lines[:len(head)] != head:
        return f"dot-doc-head: {tag}: got {lines[:len(head)]!r}"
    if lines[-1] != "}":
        return f"dot-doc-tail: {tag}: last line {lines[-1]!r}"
    body = lines[len(head):-1]
    try:
        cut = body.index("  # Edge Definitions")
    except ValueError:
        return f"dot-doc-body: {tag}: no edge section"
    nodes, edges = body[:cut], body[cut + 1:]
    if not nodes or nodes[-1] != "":
        return f"dot-doc-body: {tag}: node section not closed by an empty line"
    nodes = nodes[:-1]

    def ktext(n):
        return str(n._data_id) if u else f"@{H.nid(n)}"

    exp = ([start] if a else []) + below
    first = {}
    for n in exp:
        first.setdefault(ktext(n), n)
    if len(nodes) != len(first):
        return f"dot-doc-nodes: {tag}: {len(nodes)} definitions for {len(first)} keys"
    for pos, (ln, (k, n)) in enumerate(zip(nodes, first.items())):
        if not ln.startswith("  " + k):
            return f"dot-doc-nodes: {tag}: line {ln!r} does not define {k!r}"
        got = _parse_attr_tail(ln[2 + len(k):], tag)
        if a and pos == 0:
            want = {"label": tree.name, "shape": "box"} if st is None else {}
        else:
            want = {"label": n.name}
        if o["nm"]:
            want[o["nm"][0]] = o["nm"][1]
        if got != want:
            return f"dot-doc-nodes: {tag}: line {ln!r} has attributes {got}, expected {want}"
    wedges = [n for n in below if a or n._parent is not start]
    if len(edges) != len(wedges):
        return f"dot-doc-edges: {tag}: {len(edges)} edge lines, expected {len(wedges)}"
    for ln, n in zip(edges, wedges):
        pre = f"  {ktext(n._parent)} -> {ktext(n)}"
        if not ln.startswith(pre):
            return f"dot-doc-edges: {tag}: line {ln!r} expected to start with {pre!r}"
        got = _parse_attr_tail(ln[len(pre):], tag)
        want = {"label": n.kind} if typed else {}
        if o["em"]:
            want[o["em"][0]] = o["em"][1]
        if got != want:
            return f"dot-doc-edges: {tag}: line {ln!r} has attributes {got}, expected {want}"
    return None


# ---------------------------------------------------------------------------
# export -> mutation -> export again: the tree object is exported (every format, every start), then mutated by ONE
# public mutator, then exported again; only the last export is compared (with the model of the tree as it is then).
# A desc carries `mid` = [OP*]; a full warm-up export precedes every OP.  Node arguments are pre-order indices modulo
# the current node count; an operation the library refuses is skipped.  OP = any op of build.apply_post, or
#   ["clear"] | ["remove_children_root"] | ["filter", mod, k]   (in place; keeps pre-order indices i with i % mod != k)
#   | ["set_data", i, label, with_clones] | ["set_id", i, data_id] | ["rename", i, new_name]
#   | ["copy_in", i, j|null, deep]    (node i of a second tree with the same content is copied below node j / the tree)
#   | ["copy_self", i, j|null, deep]  (node i is copied below node j / to the top level of its own tree)
#   | ["add_tree", j|null]            (the whole second tree is copied below node j / the tree)
# ---------------------------------------------------------------------------
MID_OPS = [
    ["clear"], ["remove_children_root"], ["filter", 2, 0], ["filter", 2, 1], ["filter", 1, 0], ["remove", 0], ["remove", 1],
    ["remove_keep", 0], ["remove_children", 0], ["set_data", 1, 5, True], ["set_data", 0, 6, None], ["set_id", 1, "zz"],
    ["set_id", 0, 0], ["rename", 0, "renamed"], ["rename", 2, ""], ["move", 2, None, None], ["move", 1, 2, 0], ["move", 0, None, True],
    ["sort", 0, 1], ["sort_root", 1], ["add", -1, 7, "k", None], ["add", 1, 7, "m", 0], ["copy_in", 0, None, True],
    ["copy_in", 1, 2, False], ["copy_self", 1, None, True], ["copy_self", 2, 0, False], ["add_tree", None], ["add_tree", 1],
]


def apply_mid(tree, U, op, typed, desc):
    nodes = B.all_nodes(tree._root)
    k = op[0]
    try:
        if k == "clear":
            tree.clear()
        elif k == "remove_children_root":
            tree.system_root.remove_children()
        elif k == "sort_root":
            tree.sort(reverse=bool(op[1]))
        elif k == "filter":
            keep = {id(n) for i, n in enumerate(nodes) if i % op[1] != op[2]}
            tree.filter(lambda n: id(n) in keep)
        elif k in ("copy_in", "add_tree"):
            donor = B.new_tree(desc, name="D")
            B.add_nodes(donor._root, desc["nodes"], U, typed)
            dn = B.all_nodes(donor._root)
            j = op[2] if k == "copy_in" else op[1]
            target = tree if j is None or not nodes else nodes[j % len(nodes)]
            if k == "add_tree":
                donor.copy_to(target, deep=True)
            elif dn:
                dn[op[1] % len(dn)].copy_to(target, deep=bool(op[3]))
        elif not nodes:
            if k == "add":
                B.apply_post(tree, U, [op], typed)
        elif k == "set_data":
            nodes[op[1] % len(nodes)].set_data(U.objs[op[2] % len(U.objs)], with_clones=op[3])
        elif k == "set_id":
            nodes[op[1] % len(nodes)].set_data(None, data_id=op[2], with_clones=True)
        elif k == "rename":
            nodes[op[1] % len(nodes)].rename(op[2])
        elif k == "copy_self":
            target = tree if op[2] is None else nodes[op[2] % len(nodes)]
            nodes[op[1] % len(nodes)].copy_to(target, deep=bool(op[3]))
        else:
            B.apply_post(tree, U, [op], typed)
    except Exception:  # noqa: BLE001  (refused / invalid for this tree: skipped)
        pass

# ---------------------------------------------------------------------------
class Prop:
    id = "C17"
    coq_prop = "Properties/C17.v"
    case_module = "CaseC17"
    case_vo = "theories/Cases/CaseC17.vo"
    run_fn = "run17"
    post_variants = {"quick": 40, "thorough": 400}
    shard = 40
    rule = ("plain and typed trees: every ordered forest with <= N nodes (N=4 quick, 5 thorough) x 6 label patterns "
            "(all distinct; clones across branches; a descendant that is a clone of its ancestor; int data_ids incl. 0; "
            "explicit str data_ids incl. ''; one shared explicit id), plain and typed for <= 3 nodes, alternating plain / "
            "typed over patterns and shapes above (quick: all patterns and 4 of 6 patterns per 4-node shape, thorough: the two id "
            "patterns), plus seeded random "
            "trees of 5..12 nodes over a small label alphabet; for each tree: the whole tree (Tree API) and every node "
            "(small trees) or 3 sampled nodes (random trees) as start x DOT/Mermaid structure (unique_nodes x "
            "add_self/add_root) and RDF (add_self on/off; tree); plus 2-3 whole Mermaid charts (markdown, direction, "
            "title, headers, string node/edge templates incl. malformed ones) and 1-2 whole DOT documents (graph/node/edge "
            "attribute dicts, attribute-setting mappers) compared line by line; plus the family export -> mutation -> export "
            "again on ONE tree object (every export, then one of 28 public mutator calls - clear, remove_children on the "
            "root, in-place filter, remove / remove(keep_children) / remove_children, set_data (data, data_id), rename, "
            "move_to, sort, add, copy_to from a second tree / within the tree, Tree.copy_to into it - then every export "
            "again, compared with the model of the tree as it is then, the empty tree included; random histories of 2-3 "
            "mutators with a full export before each).  A case is one tree with its request "
            "lists; distinct = distinct (nodes, typed, starts, charts, docs); non-trivial = the tree has >= 2 nodes")
    exhaustive_note = ("all shapes <= N nodes x 6 label patterns, every start node (N=4 quick, 5 thorough); plain and typed "
                       "both for <= 3 nodes, alternating above")
    assumptions = [
        "identity of nodes is the allocation index recorded by a harness-side wrapper of Node.__init__",
        "exports are compared as structures parsed back from the emitted DOT / Mermaid lines and rdflib triples; "
        "quoting/escaping of keys and names in the text formats is outside the model (generated data_ids and names "
        "print injectively and contain no quotes)",
        "Mermaid mappers: None or str templates over from_id/to_id/kind/from_node.name/to_node.name/node.name (callables "
        "are not modelled); DOT mappers: callbacks that set one attribute in place; RDF node_mapper left at None",
        "in DOT documents with unique_nodes=False the node ids (memory addresses) are rewritten by the harness to "
        "@<allocation index> before the comparison",
    ]
    manifest = dict(
        text=("Machine-checked theorems (Coq 8.16, no axioms, induction over arbitrary trees) about an executable model of "
              "node_to_dot (+ TypedNode.to_dot), _node_to_mermaid_flowchart_iter and the RDF graph builder.  The pairs (parent, "
              "node) the exporters iterate are one per descendant in pre-order, exactly the parent-child links below the start "
              "node, with the unique parent that a search (and the C10 parent query) finds.  DOT: the defined keys are the first "
              "occurrences of (start?) ++ pre-order keys (data_id, or node identity when unique_nodes is off: then nothing is "
              "merged), no key twice, every exported node's key present, labels = name of the first node with the key; the edges "
              "are exactly one (key parent, key n, kind n) per node whose parent is part of the export, in pre-order; excluding "
              "the start node is an equation: with it every child c contributes (s->c) followed by c's own export, without it "
              "just c's own export (permutation and count corollaries), and the definitions differ by the start key only; every "
              "edge joins defined nodes.  Mermaid: the node table is the distinct keys in first-occurrence order numbered from "
              "0/1, one node line per entry with the first node's name, and decoding every edge line through the table gives "
              "exactly the DOT edge list (no failing lookup); the line texts come from the templates GENERATED from mermaid.py "
              "(tokenisation obligations; a template change breaks them); the whole chart/document texts (header options, "
              "string templates, attribute dicts, mappers) are renderings of these lists.  RDF (a triple set): has_child "
              "triples are exactly the image of the tree edges whose parent is exported; one name (kind) triple per exported "
              "node, one index triple per node below the start.  The model is tied to /repo on every run by a correspondence "
              "check (vm_compute vs. the parsed and the raw output of the implementation) and an independent Python oracle."),
        note=("Trusted: Coq kernel + vm_compute; hand-written model theories/Forest/Export.v (tied by the correspondence only); "
              "harness parsers (strict: an unknown line is a harness error), generators and oracle; rdflib term equality. "
              "Quoting/escaping of keys and names is not modelled (two data_ids printing alike, e.g. 1 and '1', collide in DOT; "
              "int keys are proved to print injectively).  Callable Mermaid mappers are exercised only through callables "
              "equivalent to a template; the RDF node_mapper answers None or False only.  Defects D36 (dot.py), D37 and D172 (rdf.py) and D171 "
              "(mermaid.py: node template overwritten by the edge template) are repaired by fixes/D36.diff, D37.diff, D172.diff, "
              "D171.diff; the theorems are about the repaired code, the pre-repair behaviour of D36/D37 is kept in the model "
              "under fx=false with refutation theorems."),
        technique="Coq proof about an executable Gallina model + differential correspondence check (vm_compute) + Python oracle",
        design_ref="DESIGN.md section 6 (C17), section 7 (D36, D37)",
    )

    # ----- generation
    PATTERNS = ["distinct", "cross", "ancestor", "ints", "strids", "shared"]

    def label(self, pattern, shape, typed, rng=None):
        """-> (univ, nodes).  Sibling clashes of data_ids are avoided by construction."""
        strs = ["a", "b", "c", "d", "e", "f", "g", "h", "i", "j", "k", "l", "m", "n"]
        kinds = ["k", "m", ""]

        def kind_of(i, depth, si):
            if not typed:
                return None
            return kinds[(i + depth) % 2] if i != 3 else kinds[2]

        if pattern == "distinct":
            univ = [f"s:{s}" for s in strs]
            return univ, B.shape_to_nodes(shape, lambda i, d, s: (i % len(strs), kind_of(i, d, s), None))
        if pattern == "cross":      # equal labels in different branches / levels: clones, never siblings
            univ = [f"s:{s}" for s in strs]
            return univ, B.shape_to_nodes(shape, lambda i, d, s: ((s + 3 * (d % 3)) % len(strs), kind_of(i, d, s), None))
        if pattern == "ancestor":   # a node two levels below repeats its ancestor's label (first-child chain)
            univ = [f"s:{s}" for s in strs]
            return univ, B.shape_to_nodes(shape, lambda i, d, s: ((s + 5 * (d % 2)) % len(strs), kind_of(i, d, s), None))
        if pattern == "ints":       # data_id = hash(int) = the int itself; 0 is falsy
            univ = [f"i:{v}" for v in range(14)]
            return univ, B.shape_to_nodes(shape, lambda i, d, s: (i % 14, kind_of(i, d, s), None))
        if pattern == "strids":     # explicit str ids, '' is falsy; value-equal data objects
            univ = ["e:1", "e:1", "e:2"] + [f"e:{v}" for v in range(3, 14)]
            ids = [""] + [f"x{v}" for v in range(1, 14)]
            return univ, B.shape_to_nodes(shape, lambda i, d, s: (i % 14, kind_of(i, d, s), ids[i % 14]))
        if pattern == "shared":     # explicit falsy ids shared across levels by different data (names differ)
            univ = [f"s:{s}" for s in strs]
            return univ, B.shape_to_nodes(
                shape, lambda i, d, s: (i % len(strs), kind_of(i, d, s), (0 if d % 2 == 0 else "") if s == 0 else None))
        if pattern == "random":
            univ = [f"s:{s}" for s in strs[:5]] + ["i:0", "i:1", "i:2"]
            nl = len(univ)

            def go(f, depth, counter):
                out, used = [], set()
                for t in f:
                    i = counter[0]
                    counter[0] += 1
                    lbl = rng.randrange(nl)
                    while lbl in used:
                        lbl = (lbl + 1) % nl
                    used.add(lbl)
                    kind = rng.choice(kinds[:2]) if typed else None
                    out.append([lbl, kind, None, go(t, depth + 1, counter)])
                return out

            return univ, go(shape, 0, [0])
        raise ValueError(pattern)

    def descs(self, tier, rng):
        nmax = 4 if tier == "quick" else 5
        yield from CORPUS
        ci = 0
        for n in range(1, nmax + 1):
            for si, shape in enumerate(H.forests(n)):
                for pi, pat in enumerate(self.PATTERNS):
                    for typed in (False, True):
                        if n >= 4 and (pat in ("ints", "strids") or tier == "quick") and typed != ((pi + si) % 2 == 0):
                            continue   # thin out: alternate plain / typed over patterns and shapes
                        if n >= 4 and tier == "quick" and (pi + si) % 3 == 2:
                            continue   # quick: 4 of the 6 patterns per 4-node shape, rotating
                        univ, nodes = self.label(pat, shape, typed)
                        ci += 1
                        charts = [[0, CHART_OPTS[ci % len(CHART_OPTS)]], [1, CHART_OPTS[(ci // 2 + 3) % len(CHART_OPTS)]]]
                        docs = [[ci % 2, DOT_OPTS[ci % len(DOT_OPTS)]], [(ci + 1) % 2, DOT_OPTS[(ci // 3 + 2) % len(DOT_OPTS)]]][:2 if n <= 3 else 1]
                        rdf_skip = [k for k in range(1, n + 1) if (k + ci) % 3 == 0]
                        yield dict(typed=typed, univ=univ, nodes=nodes, starts="all", charts=charts, docs=docs, rdf_skip=rdf_skip)
        yield from self.mid_descs(tier, rng)
        nrand = 40 if tier == "quick" else 400
        for _ in range(nrand):
            n = rng.randint(5, 12)
            shape = H.random_shape(rng, n, deep=rng.choice([0.3, 0.6, 0.85]))
            # at most 8 children per node with this universe
            typed = rng.random() < 0.5
            if _max_fanout(shape) > 8:
                continue
            univ, nodes = self.label("random", shape, typed, rng)
            starts = sorted(rng.sample(range(1, n + 1), 3))
            charts = [[rng.choice([0] + starts), dict(
                md=rng.random() < 0.5, dir=rng.choice(["TD", "LR", "RL", "TB", "BT"]),
                title=rng.choice([True, False, None, "", "T x"]), headers=rng.choice([None, [], ["%% h1", "%% h2"]]),
                add=rng.random() < 0.5, uniq=rng.random() < 0.5,
                nt=rng.choice([None, None, NODE_T_BRACKET, "{node.name}"]),
                et=rng.choice([None, None, EDGE_T_NAMES, "{to_id} <-- {from_id}"]),
                call=rng.random() < 0.3)] for _ in range(3)]
            docs = [[rng.choice([0] + starts), dict(
                add=rng.random() < 0.5, uniq=rng.random() < 0.5,
                g=rng.choice([[], [["rankdir", "LR"]]]), n=rng.choice([[], [["style", "filled"], ["fillcolor", "#eee"]]]),
                e=rng.choice([[], [["color", "blue"]]]),
                nm=rng.choice([None, ["label", "X"], ["color", "red"]]),
                em=rng.choice([None, ["label", "E"], ["style", "dashed"]]))] for _ in range(2)]
            rdf_skip = sorted(rng.sample(range(1, n + 1), rng.randint(0, min(4, n))))
            yield dict(typed=typed, univ=univ, nodes=nodes, starts=[0] + starts, charts=charts, docs=docs, rdf_skip=rdf_skip)

    def mid_descs(self, tier, rng):
        """export -> one mutator -> export again: every mutator on a few small trees (plain and typed, with clones and
        falsy ids), then random histories of 2-3 mutators with an export before each"""
        strs = [f"s:{c}" for c in "abcdefghij"]
        bases = [
            dict(typed=False, univ=strs, nodes=[[0, None, None, [[1, None, None, [[0, None, None, []]]], [2, None, None, []]]], [3, None, None, []]]),
            dict(typed=True, univ=strs, nodes=[[0, "k", None, [[1, "m", None, []], [2, "k", None, [[1, "k", None, []]]]]], [3, "m", None, []]]),
            dict(typed=False, univ=[f"i:{v}" for v in range(10)], nodes=[[0, None, None, [[1, None, None, []]]], [2, None, "", [[3, None, None, []]]]]),
        ]
        chart = [[0, CHART_OPTS[0]], [1, CHART_OPTS[1]]]
        doc = [[0, DOT_OPTS[0]], [1, DOT_OPTS[2]]]
        for bi, b in enumerate(bases if tier != "quick" else bases[:2]):
            for oi, op in enumerate(MID_OPS):
                if tier == "quick" and bi == 1 and oi % 2 == 1 and op[0] not in ("clear", "remove_children_root"):
                    continue
                yield dict(b, starts="all", charts=chart[:1 + (oi % 2)], docs=doc[oi % 2:oi % 2 + 1], rdf_skip=[2], mid=[op])
        for _ in range(12 if tier == "quick" else 150):
            b = rng.choice(bases)
            mid = [rng.choice(MID_OPS) for _ in range(rng.randint(2, 3))]
            yield dict(b, starts="all", charts=chart[:1], docs=doc[:1], rdf_skip=[], mid=mid)

    def shrink_candidates(self, desc):
        if len(desc.get("mid", [])) > 1:
            for k in range(len(desc["mid"])):
                yield dict(desc, mid=desc["mid"][:k] + desc["mid"][k + 1:])
        for nodes in B.drop_one_node(desc["nodes"]):
            yield dict(desc, nodes=nodes, starts="all", charts=[[min(i, 1), o] for i, o in desc.get("charts", [])],
                       docs=[[min(i, 1), o] for i, o in desc.get("docs", [])],
                       rdf_skip=[i for i in desc.get("rdf_skip", []) if i <= 1])
        if desc.get("rdf_skip"):
            yield dict(desc, rdf_skip=desc["rdf_skip"][1:])
        for k in range(len(desc.get("docs", []))):
            yield dict(desc, docs=desc["docs"][:k] + desc["docs"][k + 1:])
        for k in range(len(desc.get("charts", []))):
            yield dict(desc, charts=desc["charts"][:k] + desc["charts"][k + 1:])

    # ----- one case
    def run(self, desc) -> Case:
        tree, U = B.build(desc)
        typed = bool(desc.get("typed"))
        for op in desc.get("mid", []):
            self.warm_up(tree, desc)          # export everything (result discarded), then mutate, then export again
            apply_mid(tree, U, op, typed, desc)
        nodes = B.all_nodes(tree._root)
        if desc["starts"] == "all":
            starts = [None] + nodes
        else:
            starts = [None if i == 0 else nodes[i - 1] for i in desc["starts"] if i <= len(nodes)]
        kt = KeyTable(tree)
        skip = frozenset(H.nid(nodes[i - 1]) for i in desc.get("rdf_skip", []) if 1 <= i <= len(nodes))
        first = H.nid(nodes[0]) if nodes else 1
        obs, fail = [], None
        for st in starts:
            native = self.observe(tree, st, kt, skip)
            obs.append(self.to_obs(native))
            if fail is None:
                fail = self.oracle(tree, st, typed, native, skip)
                if fail:
                    fail = f"{fail} [start={'tree' if st is None else H.nid(st) - first + 1}]"
        chart_obs, chart_terms = [], []
        for i, o in desc.get("charts", []):
            if i > len(nodes):
                continue
            cst = None if i == 0 else nodes[i - 1]
            lines = chart_lines(tree, cst, o)
            chart_obs.append(lines)
            chart_terms.append(f"({H.z(0 if cst is None else H.nid(cst))}, {coq_mopts(o)})")
            if fail is None:
                fail = chart_oracle(tree, cst, typed, o, lines)
                if fail:
                    fail = f"{fail} [start={i}]"
        doc_obs, doc_terms = [], []
        for i, o in desc.get("docs", []):
            if i > len(nodes):
                continue
            dst = None if i == 0 else nodes[i - 1]
            lines = dot_doc_lines(tree, dst, o, kt)
            doc_obs.append(lines)
            doc_terms.append(f"({H.z(0 if dst is None else H.nid(dst))}, {coq_dopts(o)})")
            if fail is None:
                fail = dot_doc_oracle(tree, dst, typed, o, lines)
                if fail:
                    fail = f"{fail} [start={i}]"
        obs = [obs, chart_obs, doc_obs]
        coq = (f"({H.coq_rt(tree._root, U)}, {H.coq_list(H.z(0 if s is None else H.nid(s)) for s in starts)}, "
               f"({H.coq_list(chart_terms)} : list (Z * mopts)), ({H.coq_list(doc_terms)} : list (Z * dopts)), "
               f"({H.coq_list(H.z(i) for i in sorted(skip))} : list Z))")
        dids = Counter((type(n._data_id).__name__, n._data_id) for n in nodes)
        anc_clone = any(_has_desc_clone(n) for n in nodes)
        return Case(desc=desc, coq_input=coq, impl_obs=obs, oracle_fail=fail,
                    nontrivial=len(nodes) >= 2,
                    key=H.digest([desc["nodes"], typed, desc["starts"], desc.get("charts"), desc.get("docs"), desc.get("rdf_skip"), desc.get("post"), desc.get("mid")]),
                    stats=dict(nodes=len(nodes), starts=len(starts), charts=len(chart_obs), docs=len(doc_obs), rdf_mapper_false=len(skip),
                               re_export_after=",".join(op[0] for op in desc.get("mid", [])) or "-",
                               chart_errors=sum(1 for c in chart_obs if c == -1),
                               clones=sum(1 for v in dids.values() if v > 1),
                               start_clone_below=anc_clone, typed=typed,
                               falsy_ids=sum(1 for n in nodes if not n._data_id)))

    def warm_up(self, tree, desc):
        """every export the case is going to observe, on the tree as it is now; results and errors are discarded"""
        nodes = B.all_nodes(tree._root)
        try:
            kt = KeyTable(tree)
        except ParseError:
            return
        skip = frozenset(H.nid(nodes[i - 1]) for i in desc.get("rdf_skip", []) if 1 <= i <= len(nodes))
        for st in [None] + nodes:
            try:
                self.observe(tree, st, kt, skip)
            except Exception:  # noqa: BLE001
                pass
        for i, o in desc.get("charts", []):
            if i <= len(nodes):
                try:
                    chart_lines(tree, None if i == 0 else nodes[i - 1], o)
                except Exception:  # noqa: BLE001
                    pass
        for i, o in desc.get("docs", []):
            if i <= len(nodes):
                try:
                    dot_doc_lines(tree, None if i == 0 else nodes[i - 1], o, kt)
                except Exception:  # noqa: BLE001
                    pass

    # ----- observe the implementation: native structures (or ("ERR", cls))
    def observe(self, tree, st, kt, skip=frozenset()):
        name = tree.name
        dots, mers = [], []
        for u, a in COMBOS:
            def dot(u=u, a=a):
                lines = list(tree.to_dot(add_root=a, unique_nodes=u) if st is None
                             else st.to_dot(add_self=a, unique_nodes=u))
                defs, es = parse_dot(lines, name)
                return ([(kt.key(k, u), lbl, box) for k, lbl, box in defs],
                        [(kt.key(x, u), kt.key(y, u), lbl) for x, y, lbl in es])

            def mer(u=u, a=a):
                buf = io.StringIO()
                if st is None:
                    tree.to_mermaid_flowchart(buf, add_root=a, unique_nodes=u)
                else:
                    st.to_mermaid_flowchart(buf, add_self=a, unique_nodes=u)
                return parse_mermaid(buf.getvalue(), name if st is None else st.name)

            dots.append(call(dot))
            mers.append(call(mer))
        if st is None:
            rdfs = [call(lambda: parse_rdf(tree.to_rdf_graph()))]
        else:
            def mapper(graph, graph_node, tree_node):
                # "node_mapper wants to prevent adding standard attributes": False for the chosen nodes, None otherwise
                return False if H.nid(tree_node) in skip else None

            rdfs = [call(lambda: parse_rdf(st.to_rdf_graph(add_self=True))),
                    call(lambda: parse_rdf(st.to_rdf_graph(add_self=False))),
                    call(lambda: parse_rdf(st.to_rdf_graph(add_self=True, node_mapper=mapper))),
                    call(lambda: parse_rdf(st.to_rdf_graph(add_self=False, node_mapper=mapper)))]
        return dots, mers, rdfs

    def to_obs(self, native):
        dots, mers, rdfs = native

        def e(x, f):
            return [-1, x[1]] if is_err(x) else f(x)

        return [
            [e(d, lambda d: [[[obs_key(k), opt(lbl), box] for k, lbl, box in d[0]],
                             [[obs_key(x), obs_key(y), opt(lbl)] for x, y, lbl in d[1]]]) for d in dots],
            [e(m, lambda m: [[[i, nm, r] for i, nm, r in m[0]],
                             [[[x], [y], opt(k)] for x, y, k in m[1]]]) for m in mers],
            [e(r, obs_rdf) for r in rdfs],
        ]

    # ----- the property statement, executed on the pointer structure
    def oracle(self, tree, st, typed, native, skip=frozenset()):
        dots, mers, rdfs = native
        start = tree._root if st is None else st
        below = B.all_nodes(start)                       # pre-order, by _children pointers

        def in_export(n, exp):
            return any(n is m for m in exp)

        def key(n, u):
            return ("D", n._data_id) if u else ("N", H.nid(n))

        def tkey(k):   # python 0 == False, 1 == True: keep the type in counters
            return (k[0], type(k[1]).__name__, k[1])

        def exp_edges(u, a, labelled):
            exp = ([start] if a else []) + below
            # DOT: the kind as it is; Mermaid: an empty kind is drawn as an unlabelled edge
            return [(tkey(key(n._parent, u)), tkey(key(n, u)),
                     None if not typed else (n.kind if labelled else (n.kind or None)))
                    for n in below if in_export(n._parent, exp)]

        for ci, (u, a) in enumerate(COMBOS):
            tag = f"unique_nodes={u} add_self={a}"
            exp = ([start] if a else []) + below
            names_of = {}
            for n in exp:
                names_of.setdefault(tkey(key(n, u)), set()).add(n.name)
            want_keys = Counter(names_of.keys())         # each distinct key (or each node) exactly once
            # --- DOT
            d = dots[ci]
            if is_err(d):
                return f"dot-error: {tag}: raised {H.ERR_NAMES.get(d[1], d[1])}"
            defs, es = d
            got_keys = Counter(tkey(k) for k, _, _ in defs)
            if got_keys != want_keys:
                return f"dot-nodes: {tag}: defined keys {sorted(map(str, got_keys.elements()))} expected each of {sorted(map(str, want_keys))} once"
            for pos, (k, lbl, box) in enumerate(defs):
                if a and pos == 0:
                    continue      # the start node's own definition: label is free (tree name for the root)
                if lbl not in names_of[tkey(k)]:
                    return f"dot-names: {tag}: node {k} labelled {lbl!r}, expected one of {sorted(names_of[tkey(k)])}"
            want_e = Counter(exp_edges(u, a, True))
            got_e = Counter((tkey(x), tkey(y), lbl) for x, y, lbl in es)
            if got_e != want_e:
                return f"dot-edges: {tag}: got {_cdiff(got_e, want_e)}"
            # --- Mermaid
            m = mers[ci]
            if is_err(m):
                return f"mermaid-error: {tag}: raised {H.ERR_NAMES.get(m[1], m[1])}"
            mn, me = m[0], m[1]
            k = len(want_keys)
            want_idx = list(range(0, k)) if a else list(range(1, k + 1))
            if sorted(i for i, _, _ in mn) != want_idx:
                return f"mermaid-nodes: {tag}: indices {[i for i, _, _ in mn]} expected a permutation of {want_idx}"
            if any(r != (i == 0) for i, _, r in mn):
                return f"mermaid-nodes: {tag}: root shape on the wrong line"
            want_me = exp_edges(u, a, False)
            if len(me) != len(want_me):
                return f"mermaid-edges: {tag}: {len(me)} edges, expected {len(want_me)} (one per node whose parent is exported)"
            phi = {}
            if a:
                phi[tkey(key(start, u))] = 0
            for (x, y, kd), (wk_p, wk_n, wkd) in zip(me, want_me):
                if kd != wkd:
                    return f"mermaid-edges: {tag}: edge {x}->{y} labelled {kd!r}, expected {wkd!r}"
                for got, wk in ((x, wk_p), (y, wk_n)):
                    if phi.setdefault(wk, got) != got:
                        return f"mermaid-edges: {tag}: key {wk} drawn as index {got} and as {phi[wk]}"
            if len(set(phi.values())) != len(phi):
                return f"mermaid-edges: {tag}: two keys share an index: {phi}"
            name_at = {i: nm for i, nm, _ in mn}
            for wk, i in phi.items():
                if i not in name_at or name_at[i] not in names_of[wk]:
                    return f"mermaid-names: {tag}: index {i} named {name_at.get(i)!r}, expected one of {sorted(names_of[wk])}"
            if not all(any(nm in names_of[wk] for wk in names_of) for _, nm, _ in mn):
                return f"mermaid-names: {tag}: a node line carries a name of no exported node"

        # --- excluding the start node: its definition and one edge per child of it, nothing else
        for u in (True, False):
            ti, fi = COMBOS.index((u, True)), COMBOS.index((u, False))
            tag = f"unique_nodes={u}"
            kids = Counter((tkey(key(start, u)), tkey(key(c, u)), c.kind if typed else None) for c in (start._children or []))
            et = Counter((tkey(x), tkey(y), lbl) for x, y, lbl in dots[ti][1])
            ef = Counter((tkey(x), tkey(y), lbl) for x, y, lbl in dots[fi][1])
            if et - ef != kids or ef - et:
                return f"dot-exclude: {tag}: edges(with start) - edges(without) = {_cdiff(et, ef)}, expected the {sum(kids.values())} edges leaving the start node"
            kt_ = Counter(tkey(k) for k, _, _ in dots[ti][0])
            kf = Counter(tkey(k) for k, _, _ in dots[fi][0])
            sk = tkey(key(start, u))
            below_has = any(tkey(key(n, u)) == sk for n in below)
            want = Counter() if below_has else Counter([sk])
            if kt_ - kf != want or kf - kt_:
                return f"dot-exclude: {tag}: definitions differ by {_cdiff(kt_, kf)}, expected {dict(want)}"
            if len(mers[ti][1]) - len(mers[fi][1]) != len(start._children or []):
                return f"mermaid-exclude: {tag}: edge counts differ by {len(mers[ti][1]) - len(mers[fi][1])}"
            if len(mers[ti][0]) - len(mers[fi][0]) != (0 if below_has else 1):
                return f"mermaid-exclude: {tag}: node counts differ by {len(mers[ti][0]) - len(mers[fi][0])}"

        # --- RDF (a set of triples)
        def lit(n):
            return SYS if n is tree._root else ("D", n._data_id)

        def tt(t):
            return tuple(tkey(x) if isinstance(x, tuple) and x != SYS else x for x in t)

        variants = [(True, 0, False)] if st is None else [(True, 0, False), (False, 1, False), (True, 2, True), (False, 3, True)]
        for a, ri, mapped in variants:
            g = rdfs[ri]
            tag = "tree" if st is None else f"add_self={a}" + (" node_mapper answering False for some nodes" if mapped else "")
            if is_err(g):
                return f"rdf-error: {tag}: raised {H.ERR_NAMES.get(g[1], g[1])}"
            got = {tt(t) for t in g}
            exp = ([start] if a else []) + below
            want_child = {tt(("has_child", lit(n._parent), lit(n))) for n in below if in_export(n._parent, exp)}
            got_child = {t for t in got if t[0] == "has_child"}
            if got_child != want_child:
                return (f"rdf-edges: {tag}: missing {sorted(map(str, want_child - got_child))} "
                        f"unexpected {sorted(map(str, got_child - want_child))}")
            want = set(want_child)
            for n in exp:
                if n is tree._root:
                    want.add(tt(("name", SYS, tree.name)))
                    continue
                if mapped and H.nid(n) in skip:
                    continue           # no standard attributes for this node; its edges stay
                want.add(tt(("name", lit(n), n.name)))
                if typed:
                    want.add(tt(("kind", lit(n), n.kind)))
                if n is not start:
                    want.add(tt(("index", lit(n), [c is n for c in n._parent._children].index(True))))
            if got != want:
                return (f"rdf-attrs: {tag}: missing {sorted(map(str, want - got))} unexpected {sorted(map(str, got - want))}")
        return None


def _cdiff(a, b):
    return f"+{sorted(map(str, (a - b).elements()))} -{sorted(map(str, (b - a).elements()))}"


def _max_fanout(shape):
    return max([len(shape)] + [_max_fanout(t) for t in shape]) if shape else 0


def _has_desc_clone(n):
    return any(m._data_id == n._data_id and type(m._data_id) is type(n._data_id) for m in B.all_nodes(n))


CORPUS = [
    # D36: DOT, add_self + unique_nodes, a descendant is a clone of the start node
    dict(typed=False, univ=["s:a", "s:b"], nodes=[[0, None, None, [[1, None, None, [[0, None, None, []]]]]]], starts="all"),
    # D37: RDF, parents with falsy data_ids 0 and ''
    dict(typed=False, univ=["s:zero", "s:c1", "s:empty", "s:c2"],
         nodes=[[0, None, 0, [[1, None, None, []]]], [2, None, "", [[3, None, None, []]]]], starts="all"),
    # a node that shares the system root's data_id: the root's definition must not be repeated (D36 through the Tree API)
    dict(typed=False, univ=["s:a", "s:b"], nodes=[[0, None, None, [[1, None, "__root__", [[0, None, None, []]]]]]], starts="all"),
    # a cloned parent whose clones each have a clone of the same child, with different kinds (one edge PER TREE NODE)
    dict(typed=True, univ=["s:a", "s:b", "s:c", "s:d"],
         nodes=[[0, "k", None, [[1, "k", None, [[2, "k", None, []]]]]], [3, "k", None, [[1, "m", None, [[2, "m", None, []], [0, "m", None, []]]]]]],
         starts="all", rdf_skip=[2]),
    # clones with different child lists (every clone is expanded)
    dict(typed=False, univ=["s:a", "s:b", "s:w", "s:t", "s:u"],
         nodes=[[0, None, None, [[2, None, None, [[3, None, None, []]]]]], [1, None, None, [[2, None, None, [[4, None, None, [[2, None, None, []]]]]]]]],
         starts="all"),
    # D172: the RDF node_mapper answers False for a node that has children
    dict(typed=True, univ=["s:a", "s:b"], nodes=[[0, "k", None, [[1, "k", None, []]]]], starts="all", rdf_skip=[1]),
    # D171: node_mapper and edge_mapper both given as strings
    dict(typed=True, univ=["s:a", "s:b"], nodes=[[0, "k", None, []]], starts="all",
         charts=[[0, dict(md=True, dir="BT", title=False, headers=[], add=True, uniq=False, nt=NODE_T_BRACKET, et=EDGE_T_NAMES)]]),
    # typed, with an empty kind and a clone of the start node below it
    dict(typed=True, univ=["s:a", "s:b", "s:c"],
         nodes=[[0, "k", None, [[1, "", None, [[0, "m", None, []], [2, "k", None, []]]]]], [2, "m", None, []]], starts="all"),
]

PROP = Prop()

import parts  # noqa: E402
import parts_misc  # noqa: E402

parts.attach(PROP, parts_misc.MERMAIDDEF, parts_misc.WRITERS)   # default arguments of to_mermaid_flowchart; the file writers (models Forest/MiscMermaid.v, MiscWriters.v; theorems at the end of Properties/C17.v)
