"""C05 — save() then load() reproduces the tree under every storage option."""
from __future__ import annotations

import io
import json
import os
import zipfile
from pathlib import Path

import build as B
import common as H
import sercommon as S
from common import Case
from props.C12 import KINDS, UNIVS, valid_desc, falsy_descs, dw_descs, retarget_descs, equal_descs, text_descs

KMS = ["true", "false", "custom"]
VMS = ["true", "false", "custom"]
COMPRESSIONS = [False, True, zipfile.ZIP_STORED, zipfile.ZIP_DEFLATED, zipfile.ZIP_BZIP2, zipfile.ZIP_LZMA]
TMP = H.WORK / f"c05_{os.getpid()}"


def _cleanup():
    import shutil
    shutil.rmtree(TMP, ignore_errors=True)


import atexit  # noqa: E402

atexit.register(_cleanup)


canon = S.canon


class Prop:
    id = "C05"
    coq_prop = "Properties/C05.v"
    case_module = "CaseC05"
    case_vo = "theories/Cases/CaseC05.vo"
    run_fn = "run05"
    shard = 25
    rule = ("plain and typed trees: every ordered forest with <= N nodes (N=4 quick, 5 thorough) x label patterns with repeats (clones at "
            "every relative position incl. below a sibling of the first occurrence and nested below it; clones of differing kind) x explicit "
            "ids x str/unicode/value-hashed/identity-hashed/int/tuple/dataclass/DictWrapper data, plus seeded random trees up to 12 nodes.  "
            "One case = one tree x one (key_map, value_map) in {default, off, custom}^2 (quick tier: one or two pairs per tree; thorough tier: three pairs per tree, all nine for every fifth tree) x mapper "
            "style {none, callback, derived class}; inside every case REAL files are written and read through all transports: StringIO, "
            "open text file (utf8, ascii, latin-1, utf-16), str path and Path with compression in {False, True, STORED, DEFLATED, BZIP2, LZMA}; the written text must be "
            "the same for all transports (it is the model's save_doc), every loaded tree must be iso to the source (independent Python "
            "iso); further per case: deserialize mappers that CONSUME their dict (callback and derived class) give the same tree; one meta dict "
            "reused by two saves with different options stays untouched and the second file has no stale maps; a HISTORY on one tree object "
            "(save, replace a node by one of a new kind keeping the node count, save again, load); class-level DEFAULT_KEY_MAP/DEFAULT_VALUE_MAP "
            "unchanged after every case.  Falsy data values in every position.  (independent Python "
            "iso), equal to the tree loaded with maps off, and file_meta must be the stored header.  non-trivial = clone reference, "
            "kind-differing clone, or a dict entry")
    exhaustive_note = "all forest shapes <= N nodes (N=4 quick) with sampled labelings; all 12 transports in every case"
    assumptions = ["json, zipfile (STORED/DEFLATED/BZIP2/LZMA), TextIOWrapper: byte transport is the identity on the JSON text (trusted, exercised on every case)",
                   "mapper pair: deser (ser i) rebuilds the data of i from any key order (hypothesis mapper_ok of the theorems; the harness' mappers satisfy it)",
                   "hash() of strings and of rebuilt data objects are facts of the run fed to the model"]
    manifest = dict(
        text=("Machine-checked theorems (Coq 8.16, no axioms) about the executable model of Tree.save/load, TypedTree.save/_from_list, "
              "Node.to_list_iter, _compress_entry/_uncompress_entry: for every forest and option set satisfying the listed side conditions "
              "load (save t) returns the stored header and a tree iso to t, and the result does not depend on key_map / value_map.  Tied to "
              "/repo by a correspondence check that writes and reads real files through all compression methods and target kinds."),
        note=("Trusted: Coq kernel + vm_compute; hand-written model theories/Forest/Serialize.v (tied by the correspondence only); json, "
              "zipfile, io (byte transport); harness generators/observation.  Known findings D40, D51.  "
              "EXERCISED, NOT PROVED (outside a pure value model of the document; checked by the harness oracle on every case): the six "
              "compression values and str/Path/stream targets give the same text and the same loaded tree (the compression DISPATCH itself is "
              "proved in part ZIPIO, C05_transport_*); callback vs derived-class mappers are the same model function reached by two Python "
              "routes (both run, incl. mappers that consume their dict); the loaded tree is an instance of the loading class (type(t) is cls); "
              "save/load leave node data, the caller's meta/value_map/file_meta dicts and the class-level default maps untouched; clones share "
              "ONE data object (model: i_obj, compared in the correspondence; not part of iso).  OUTSIDE THE DOMAIN: two nodes with one explicit "
              "data_id but different data objects (one data_id = one data object is what 'clone' means): the second is written as a reference "
              "and loads with the first one's data; theorem hypothesis clones_consistent, C05_roundtrip_without_clones_consistent_refuted, "
              "Example C05_outside_domain_same_id_different_data; the oracle expects exactly the first occurrence's data there.  Also outside: "
              "non-injective custom key_map and reserved $-keys in user meta (user errors, opts_ok).  Mapper hypotheses (mapper_ok) are "
              "assumptions about the user's mapper pair; they are proved for the concrete pair wser/wdeser and for the library's default "
              "mappers on str data (C05_roundtrip_default_mappers), not for the harness' table-driven mappers."),
        technique="Coq proof about an executable Gallina model + differential correspondence check (vm_compute) + Python oracle",
        design_ref="DESIGN.md section 6 (C05)",
    )

    # ----- generation
    def tree_descs(self, tier, rng):
        from props.C12 import PROP as P12
        yield from P12.tree_descs(tier, rng)

    def fs_descs(self, tier, rng):
        """FileSystemTree with its own class mappers (fs.py): directories, files (int size, float mdate), one entry
        added twice (a clone)"""
        univ = ["D:src", "D:docs", "f:a.py:120:1700000000.5", "f:b.txt:0:1.25", "f:\u00fc.md:7:1234567.875", "D:empty", "f:a.py:120:1700000000.5"]
        shapes = [s for n in range(0, 5) for s in H.forests(n)] if tier == "quick" else [s for n in range(0, 6) for s in H.forests(n)]
        for j, shape in enumerate(shapes):
            for _ in range(1 if tier == "quick" else 2):
                k = rng.randint(2, len(univ))
                nodes = B.shape_to_nodes(shape, lambda i, d, s: (rng.randrange(k), None, rng.choice([None, None, None, "id1", 7])))
                td = dict(typed=False, univ=univ, nodes=nodes, calc=None, mapper="fs", km=rng.choice(KMS + ["treedefault"]), vm=rng.choice(["true", "false"]),
                          meta=rng.choice([None, {"root": "/tmp/x"}]))
                if valid_desc(td):
                    yield td

    def descs(self, tier, rng):
        yield from CORPUS
        yield from self.fs_descs(tier, rng)
        for j, fd in enumerate(falsy_descs()):
            yield dict(fd, km=KMS[j % 3], vm=VMS[(j // 3) % 3])
        yield from dw_descs(tier, rng)
        yield from retarget_descs(tier, rng)
        yield from equal_descs(tier, rng)
        yield from text_descs(tier, rng)
        combos = [(k, v) for k in KMS for v in VMS]
        i = 0
        for td in self.tree_descs(tier, rng):
            only_str = all(u.startswith("s:") for u in td["univ"])
            ms = rng.choice(["cb", "derived"] + (["none", "none"] if only_str else []))
            meta = rng.choice([None, {"foo": "bar"}, {"str": "s", "t": [1], "kind": {"data_id": 0}}, {"n": 1, "l": [1, "x", None, True], "d": {"a": {}}, "\u00fc": "\u20ac"}])
            i += 1
            if tier == "quick":
                sel = [combos[i % 9]] + ([combos[(i + 4) % 9]] if i % 2 == 0 else [])
            elif i % 5 == 0:
                sel = combos                                   # all nine (key_map, value_map) pairs
            else:
                sel = [combos[(i + j * 4) % 9] for j in range(3)]   # three of them, rotating
            for k, v in sel:
                yield dict(td, km=k, vm=v, mapper=ms, meta=meta)

    def shrink_candidates(self, desc):
        for nodes in B.drop_one_node(desc["nodes"]):
            yield dict(desc, nodes=nodes)
        for k, v in (("km", "false"), ("vm", "false"), ("meta", None), ("calc", None)):
            if desc.get(k) != v:
                yield {**desc, k: v}

    # ----- one case
    def transports(self, tree, skw, cls, lkw):
        """[(name, text written, loaded tree | exception, file_meta)] through every target kind"""
        TMP.mkdir(parents=True, exist_ok=True)
        out = []

        def rec(name, text, loader):
            meta = {}
            try:
                t2 = loader(meta)
            except Exception as e:  # noqa: BLE001
                t2 = e
            out.append((name, text, t2, meta))

        # open streams
        try:
            fp = io.StringIO()
            tree.save(fp, **skw)
            text = fp.getvalue()
            rec("StringIO", text, lambda m: cls.load(io.StringIO(text), file_meta=m, **lkw))
        except Exception as e:  # noqa: BLE001
            out.append(("StringIO", e, None, {}))
        p = TMP / "s.json"
        try:
            with open(p, "w", encoding="utf8") as fp:
                tree.save(fp, **skw)
            text = p.read_text(encoding="utf8")

            def ld(m):
                with open(p, "r", encoding="utf8") as fp:
                    return cls.load(fp, file_meta=m, **lkw)
            rec("file stream", text, ld)
        except Exception as e:  # noqa: BLE001
            out.append(("file stream", e, None, {}))
        # caller-opened text streams with other encodings: the JSON text is pure ASCII, so every encoding carries it
        for enc in ("ascii", "latin-1", "utf-16"):
            p = TMP / f"e_{enc}.json"
            name = f"text stream opened with encoding={enc!r}"
            try:
                with open(p, "w", encoding=enc) as fp:
                    tree.save(fp, **skw)
                text = p.read_text(encoding=enc)

                def lde(m, p=p, enc=enc):
                    with open(p, "r", encoding=enc) as fp:
                        return cls.load(fp, file_meta=m, **lkw)
                rec(name, text, lde)
            except Exception as e:  # noqa: BLE001
                out.append((name, e, None, {}))
        # paths x compression
        for ci, comp in enumerate(COMPRESSIONS):
            for as_path in (False, True):
                if as_path and ci not in (0, 1):
                    continue
                p = TMP / f"p{ci}{int(as_path)}.nutree"
                target = p if as_path else str(p)
                name = f"{'Path' if as_path else 'str path'} compression={comp!r}"
                try:
                    tree.save(target, compression=comp, **skw)
                    if comp is False:
                        text = p.read_text(encoding="utf8")
                    else:
                        with zipfile.ZipFile(p) as zf:
                            infos = zf.infolist()
                            want = zipfile.ZIP_BZIP2 if comp is True else int(comp)
                            if len(infos) != 1 or infos[0].compress_type != want:
                                raise AssertionError(f"zip member {[(i.filename, i.compress_type) for i in infos]}, expected type {want}")
                            text = zf.read(infos[0]).decode("utf8")
                    rec(name, text, lambda m, target=target: cls.load(target, file_meta=m, **lkw))
                except Exception as e:  # noqa: BLE001
                    out.append((name, e, None, {}))
        return out

    def run(self, desc) -> Case:
        tree, U = S.build_tree(desc)
        skw, lkw, cls = S.resolve_opts(desc)
        typed = bool(desc.get("typed"))
        ms = desc.get("mapper", "cb")
        data_snap = S.data_snapshot(tree._root)
        tr = self.transports(tree, skw, cls, lkw)
        readonly = S.snapshot_diff(data_snap, S.data_snapshot(tree._root), "save() / load()")
        fail = readonly
        finding = None
        name0, text0, t0, meta0 = tr[0]
        # --- the model is compared on the first transport; all others must do the same as the first
        if isinstance(text0, Exception):
            obs = [[1, S.err_class(text0)], []]
            doc = None
        else:
            doc = json.loads(text0)
            if isinstance(t0, Exception):
                obs = [[0, S.jv_sx(doc)], [1, S.err_class(t0)]]
                hashes, fnames = S.failed_load_facts(lambda: cls.load(io.StringIO(text0), **lkw))
            else:
                forest, hashes = S.obs_loaded_tree(t0, doc["nodes"])
                obs = [[0, S.jv_sx(doc)], [0, [S.jv_sx(meta0), forest]]]
        if isinstance(text0, str) and not text0.isascii() and not fail:
            bad = next(c for c in text0 if ord(c) > 127)
            fail = (f"text: the written JSON is not pure ASCII (character U+{ord(bad):04X} verbatim): it does not survive targets that are "
                    f"not UTF-8, nor lone surrogates on a path target")
        for name, text, t2, meta in tr[1:]:
            if isinstance(text, Exception) or isinstance(text0, Exception):
                if type(text) is not type(text0):
                    fail = fail or f"transport: save to {name} gives {text!r:.200}, to {name0}: {text0!r:.200}"
            elif text != text0:
                fail = fail or f"transport: text written to {name} differs from {name0}"
            elif isinstance(t2, Exception) or isinstance(t0, Exception):
                if type(t2) is not type(t0):
                    fail = fail or f"transport: load from {name} gives {t2!r:.200}, from {name0}: {t0!r:.200}"
            elif canon(t2._root) != canon(t0._root) or meta != meta0:
                fail = fail or f"transport: tree or file meta loaded from {name} differs from {name0}"
        # --- the property
        d51 = (ms == "fs" and desc.get("km") == "treedefault"
               and any(not n._data.is_dir for n in B.all_nodes(tree._root)))
        needs_mapper = ms == "none" and doc is not None and any(isinstance(e[1], dict) for e in doc["nodes"]) and not typed
        if doc is None:
            fail = fail or f"roundtrip: save fails with {text0!r:.300}"
        elif d51 and isinstance(t0, KeyError) and not fail:
            # known finding D51: the reader renames the mapper's own "s" (size) to "str"; FileSystemEntry(size=data["s"]) fails
            fail, finding = f"D51: load fails with {t0!r} because the key_map's short name 's' is also a key of the entries", "D51"
        elif isinstance(t0, Exception):
            fail = fail or f"roundtrip: load fails with {t0!r:.300} on {text0[:400]}"
        else:
            if type(t0) is not cls:
                fail = fail or f"roundtrip: loaded tree is a {type(t0).__name__}"
            d40 = S.in_d40_region(tree._root)
            f2 = S.tree_iso(tree._root, t0._root, d40_expected=d40)
            if f2 and f2.startswith("D40") and not fail:
                fail, finding = f2, "D40"
            else:
                fail = fail or f2
            # file meta = generator, version, maps in use, user meta
            kmap, vmap = S.doc_maps(desc, tree._root)
            import nutree
            exp = {"$generator": f"nutree/{nutree.__version__}", "$format_version": "1.0"}
            if kmap:
                exp["$key_map"] = kmap
            if vmap:
                exp["$value_map"] = vmap
            exp.update(json.loads(json.dumps(desc.get("meta") or {})))
            if meta0 != exp and not finding:
                fail = fail or f"meta: file_meta {meta0}, expected {exp}"
            # option independence: the same tree as with both maps off
            if (desc.get("km"), desc.get("vm")) != ("false", "false") and not finding:
                d0 = dict(desc, km="false", vm="false")
                skw0, lkw0, cls0 = S.resolve_opts(d0)
                try:
                    fp = io.StringIO()
                    tree.save(fp, **skw0)
                    tb = cls0.load(io.StringIO(fp.getvalue()), **lkw0)
                    if canon(tb._root) != canon(t0._root):
                        fail = fail or "options: loaded tree differs from the one loaded with key_map=False, value_map=False"
                except Exception as e:  # noqa: BLE001
                    fail = fail or f"options: round trip with maps off fails: {e!r:.200}"
            if not finding and not fail:
                fail = self.more_checks(desc, tree, cls, lkw, text0, t0)
        fail = fail or S.class_defaults_changed()
        strings = set()
        if doc is not None:
            S.all_strings(doc, strings)
        for n in B.all_nodes(tree._root):
            if isinstance(n._data, str):
                strings.add(n._data)
        names = () if ms not in ("fs", "dw") or doc is None else fnames if isinstance(t0, Exception) else S.loaded_names(t0)
        coq = (f"CRound {S.coq_sopts(desc, tree, U)} {S.coq_lenv(typed, ms, strings, hashes if doc is not None else [], names)} "
               f"{H.coq_forest(tree._root, U)}")
        nodes = (doc or {}).get("nodes", [])
        refs = sum(1 for e in nodes if isinstance(e[1], int))
        kd = 0
        first = {}
        for n in B.all_nodes(tree._root):
            k = getattr(n, "_kind", None)
            if n._data_id in first and first[n._data_id] != k:
                kd += 1
            first.setdefault(n._data_id, k)
        return Case(desc=desc, coq_input=coq, impl_obs=obs, oracle_fail=fail, finding=finding,
                    nontrivial=refs > 0 or kd > 0 or any(isinstance(e[1], dict) for e in nodes),
                    key=H.digest([desc.get("nodes"), desc.get("km"), desc.get("vm"), typed, ms]),
                    stats=dict(nodes=len(nodes), refs=min(refs, 4), kind_differing_clones=min(kd, 3), km=desc.get("km"), vm=desc.get("vm"),
                               typed=typed, mapper=ms, transports=len(tr), loaded=not isinstance(t0, Exception) and doc is not None))


def _more_checks(self, desc, tree, cls, lkw, text0, t0):
    """further members of the property family that need a history or another mapper style"""
    ms = desc.get("mapper", "cb")
    # (0) a BRANCH written from an inner start node (Node.to_list_iter) follows the layout of that branch
    r = S.branch_check(desc, tree)
    if r:
        return r
    # (a) a deserialize mapper may consume the dict it is handed (callback and derived-class style)
    for style, tc in S.consuming_loads(cls, lkw, text0):
        if isinstance(tc, Exception):
            return f"mapper: load with a dict-consuming deserialize mapper ({style}) fails: {tc!r:.200}"
        if canon(tc._root) != canon(t0._root):
            return (f"mapper: with a deserialize mapper ({style}) that pops 'data_id'/'kind' from its dict the loaded tree differs: "
                    f"{canon(tc._root)} instead of {canon(t0._root)}")
    # (a2) ONE file_meta dict reused across loads (first another file written with maps, then this tree's files)
    try:
        skw0, lkw0, cls0 = S.resolve_opts(dict(desc, km="false", vm="false"))
        fp0 = io.StringIO()
        tree.save(fp0, **skw0)
        r = S.file_meta_reuse_check(cls, lkw, [text0, fp0.getvalue(), text0], canon(t0._root))
    except Exception as e:  # noqa: BLE001
        r = f"file_meta: {e!r:.200}"
    if r:
        return r
    # (b) one meta dict reused by two saves with different options
    r = S.meta_reuse_check(desc, tree, cls, lkw)
    if isinstance(r, str):
        return r
    if canon(r._root) != canon(t0._root):
        return "meta: the tree loaded from the second save (same meta dict, maps off) differs"
    # (c) history on ONE tree object: save, replace a node by one of a NEW kind (same node count), save again, load
    if ms != "fs":
        tree2, _U2 = S.build_tree(desc)
        nodes2 = B.all_nodes(tree2._root)
        if nodes2:
            skw, _l, _c = S.resolve_opts(desc)
            try:
                tree2.save(io.StringIO(), **skw)
                nodes2[-1].remove()
                if desc.get("typed"):
                    tree2.add("fresh-zz", kind="zz")
                else:
                    tree2.add("fresh-zz")
                fp = io.StringIO()
                tree2.save(fp, **skw)
                tl = cls.load(io.StringIO(fp.getvalue()), **lkw)
            except Exception as e:  # noqa: BLE001
                return f"history: save, replace a node by one of a new kind, save again, load: {e!r:.200}"
            f2 = S.tree_iso(tree2._root, tl._root, d40_expected=S.in_d40_region(tree2._root))
            if f2 and not f2.startswith("D40"):
                return "history: after save, replacing a node, save again: " + f2
    return None


Prop.more_checks = _more_checks


def _d(typed, univ, nodes, km="true", vm="true", mapper="cb", meta=None, calc=None):
    return dict(typed=typed, univ=univ, nodes=nodes, km=km, vm=vm, mapper=mapper, meta=meta, calc=calc)


CORPUS = [
    # D12: clone below a sibling of its first occurrence (x, y > x), plain and typed
    _d(False, ["s:x", "s:y"], [[0, None, None, []], [1, None, None, [[0, None, None, []]]]], mapper="none"),
    _d(True, ["s:x", "s:y"], [[0, "a", None, []], [1, "a", None, [[0, "a", None, []]]]], mapper="none"),
    # D18: real clones of one object (default id) and, between them, the same object under an explicit id
    _d(False, ["e:1", "s:r", "s:q"], [[0, None, None, []], [1, None, None, [[0, None, "x", []]]], [2, None, None, [[0, None, None, []]]]], km="false", vm="false"),
    _d(False, ["e:1", "s:r"], [[0, None, "k1", []], [1, None, None, [[0, None, "k2", []]]], [0, None, "k2", []]], km="false", vm="false"),
    # D19: TypedTree.save(compression=...)
    _d(True, ["s:x"], [[0, "a", None, []]], mapper="none", meta={"foo": "bar"}),
    # D50: str node of a typed tree with an explicit data_id
    _d(True, ["s:x", "s:y"], [[0, "a", "k1", [[1, "a", None, []]]], [1, "b", None, [[0, "a", "k1", []]]]], mapper="none"),
    # clone nested below its first occurrence, clones of differing kind (value-hashed: group survives)
    _d(True, ["s:x", "s:y", "e:1"], [[0, "a", None, [[1, "a", None, [[0, "b", None, []]]]]], [2, "a", None, [[0, "a", None, []], [2, "b", None, []]]]],
       km="custom", vm="custom"),
    # D40 (known): identity-hashed data, clone of another kind
    _d(True, ["p:1", "s:y"], [[0, "a", None, []], [1, "a", None, [[0, "b", None, []]]]]),
    # FileSystemTree: a file entry cloned below two directories, explicit id, custom key map
    dict(typed=False, univ=["D:src", "f:a.py:120:1700000000.5", "D:docs"], nodes=[[0, None, None, [[1, None, None, []]]], [2, None, "docs-id", [[1, None, None, []]]]],
         km="custom", vm="true", mapper="fs", meta={"root": "/tmp/x"}, calc=None),
    # D51 (known): FileSystemTree saved with the plain Tree's default key_map: "s" is a short name AND the mapper's size key
    dict(typed=False, univ=["D:src", "f:a.py:120:1700000000.5"], nodes=[[0, None, None, [[1, None, None, []]]]],
         km="treedefault", vm="true", mapper="fs", meta=None, calc=None),
    # outside the domain (clones_consistent): one explicit data_id on two different data objects -- 'b' must load as 'a', exactly
    _d(False, ["s:a", "s:x", "s:b"], [[0, None, 1, []], [1, None, None, [[2, None, 1, []]]]], mapper="cb"),
    # D92 (fixed): plain Tree, str node with explicit id, no mapper: must simply round-trip
    _d(False, ["s:x", "s:y"], [[0, None, "k1", [[1, None, None, []]]]], mapper="none"),
    # tree name equal to the data of a node with children, plain (str) and typed (an object that compares equal to the name)
    dict(typed=False, univ=["s:Projects", "s:alpha", "s:beta"], nodes=[[0, None, None, [[1, None, None, [[2, None, None, []]]]]]], name="Projects",
         km="true", vm="true", mapper="none", meta=None, calc=None),
    dict(typed=True, univ=["s:top", "q:Projects", "s:beta"], nodes=[[0, "a", None, [[1, "a", None, [[2, "b", None, []]]]]]], name="Projects",
         km="true", vm="true", mapper="cb", meta=None, calc=None),
    # unicode, falsy explicit ids
    _d(False, ["s:\u00e4\u20ac\U0001f600", "e:1", "s:z"], [[0, None, 0, [[1, None, "", []]]], [2, None, None, [[0, None, 0, []]]]], km="custom", vm="custom",
       meta={"\u00fc": ["\u20ac"]}),
]

PROP = Prop()

import parts  # noqa: E402
import parts_misc  # noqa: E402

parts.attach(PROP, parts_misc.ZIPIO)   # the byte transport of save/load (model Forest/MiscZipIO.v, theorems at the end of Properties/C05.v)
