"""C01 - the node graph stays a well-formed tree after any mutation history.

Tie between Properties/C01.v (invariant WFw of the mutation machine Mut/Machine.v, preserved by every
operation) and the code in NUTREE_REPO.  For every history, after EVERY step:

* correspondence (`CaseC01.run01`): the implementation's full observable state (child lists by identity
  walk, node.parent, node.tree, data identity, data_id, kind, meta, `_node_by_id` order, `_nodes_by_data_id`
  groups) equals the model's state, AND the model's decidable invariant checker `wf_world_b` (proved
  equivalent to `WFw`, C01_checker_sound) answers true on the model's state - the expected observation
  carries a literal 1 for every step;
* heap refinement (`CaseHeap.run_heap`, harness/heap_obs.py): the RAW pointers `_parent`, `_children` (None vs list object)
  and `_tree` of EVERY node object ever allocated (live, removed, refused at creation) equal the ones of the pointer-level
  model Mut/Heap.v after every step (for the operations that model covers; marker -1 afterwards);
* oracle, independent of the model and of the library's own `_self_check` (pointer walks by identity):
  `mut.wf_oracle` (reachable = counted = len(tree), every reachable node reports the tree as owner, has the
  node whose child list holds it as parent, occurs exactly once in that list, is never its own ancestor / never
  reachable twice, node ids unique, registry = reachable set, iterator(UNORDERED) = reachable set) and
  `mut_ex.RemovedOracle` (every node object that is not reachable - removed directly, as a descendant, by
  clear/filter/del, or refused at creation - is absent from `_node_by_id` and from every `_nodes_by_data_id`
  group of every tree, and a node that once was in a tree does not keep `tree`/`parent`/`children` pointers
  into the world).
"""
from __future__ import annotations

import common as H
import mut
import mut_ex
import mut_c01
import heap_obs
from common import Case

# wider levels than the exhaustive bound of the quick tier reaches: a node with three / four children (below the
# root and below a top node), so that "all but the last child" and "first two children" mistakes have room
WIDE_SHAPES = [(((), (), ()),), (((), (), (), ()),), ((((), (), ()),), ())]
QUICK_FAMILIES = ("add", "short", "move", "remove", "remove_children", "clear", "set_data", "del", "copyto", "addnode")
CHUNK = 40


def hooks(sink=None):
    """(pre, post) for one replay: the removed-set oracle, and the raw-pointer observation for the heap
    refinement (harness/heap_obs.py) - the observer is appended to `sink`"""
    ro = mut_ex.RemovedOracle()
    ho = heap_obs.HeapObserver()
    if sink is not None:
        sink.append(ho)

    def post(w, si, step, ctx):
        ho.post(w, si, step, ctx)
        m = ro(w)
        return [("removed", m)] if m else []

    return None, post


class Prop:
    id = "C01"
    coq_prop = "Properties/C01.v"
    case_module = "CaseC01"
    case_vo = "theories/Cases/CaseC01.vo"
    run_fn = "run01"
    shard = 8
    rule = ("(a) the corpus of defect witnesses (mut.CORPUS); (b) exhaustive: every ordered forest with <= N nodes (N=3 quick, 4 thorough) "
            "under three labelings (distinct strings / equal-comparing objects under distinct explicit ids / clones in different parents) "
            "and on it every single structural operation with every argument (add under every parent x before in {None,True,False,0,1,-1,len,"
            "len+1,-len-1, each child, a foreign node}, colliding data/ids, the four shortcuts, add(node) x deep, copy_to x add_self x deep, move of "
            "every node to every parent (inside and outside its own branch) x every before, remove x keep_children x with_clones, remove_children, "
            "clear, del by data/data_id/node_id, set_data over data x data_id x with_clones, rename; thorough adds sort, Node.copy, Tree.copy, all "
            "6^n filter verdict tables n<=3, typed trees <= 3 nodes, deeper extra shapes); (b') 'twins': forests whose siblings hold equal-comparing but distinct data objects under distinct explicit ids, each with a subtree, x every removal route with arguments that treat the twins differently (in-place filter with every mixed verdict table over the twins, remove x keep_children x with_clones, del, remove_children, move of a twin everywhere, sort with keys that reorder / tie the twins); (b'') cross-tree moves: every node of one tree to every NODE and to the Tree object of another tree x before; (b''') move chains: every forest with 3 (thorough 4) nodes, every first move that takes a node with children deeper, then every move incl. own-branch targets; read-only queries (depth, calc_height, is_descendant_of, siblings, find, format, iteration, to_dict_list) run on every tree after EVERY step of every case; (c) seeded random histories of <= 30 (thorough 40) "
            "operations over 1-3 trees (plain/typed, calc_data_id callbacks): 45% of the steps are aimed (forced clone pairs, clones nested below "
            "a clone, equal-but-distinct data under different explicit ids as siblings, moves into the own branch / to parent, grandparent, sibling, "
            "nephew, root, remove with_clones / keep_children / both on nodes that have clones / children, remove_children of deep branches, "
            "set_data merging and splitting clone groups, deep copies of a branch below itself), the rest is mut.Gen's mix (incl. sort, filter, del, "
            "clear, from_dict, tree copies); one history in four is malformed (invalid before, foreign nodes, raising callbacks).  Removed nodes are "
            "never referenced.  After EVERY step: state equality with the model, model invariant true, pointer-level oracle.  distinct = distinct "
            "(universe, ops); non-trivial = some step changed the state")
    exhaustive_note = "every single structural op x every argument on all forests <= 3 nodes (quick) / <= 4 nodes (thorough) x 3 labelings"
    assumptions = ["identity of nodes is the allocation index recorded by a harness-side wrapper of Node.__init__",
                   "user callbacks (calc_data_id, sort key, filter predicate) are tables from objects/nodes to values that may raise",
                   "node references of generated ops are live (references to removed nodes are not public operations)",
                   "parent pointers are derived from the forest in the model; the implementation's _parent/_children/_tree are tied to them by the "
                   "per-step observation and checked directly by the pointer-level oracle"]
    trusted = ["harness/mut.py, mut_ex.py, mut_c01.py (replayer, observation, generators, pointer-level oracles)"]
    manifest = dict(
        text=("Machine-checked invariant (Coq 8.16, no axioms): the world invariant WFw of the mutation machine Mut/Machine.v - node identities "
              "unique within and across trees, the registry (_node_by_id) is a permutation of the nodes of the forest, the clone index lists exactly "
              "the nodes by their current data_id in non-empty duplicate-free groups, no two siblings share a data_id, the allocator is ahead of "
              "every node - holds for the empty world and is preserved by every operation of the model for ALL arguments including the error exits "
              "(add/shortcuts, add(node), add(tree), copy_to, Tree.copy, Node.copy, move_to, remove, remove_children, clear, del, sort, set_data, "
              "rename, metadata edits, in-place filter, from_dict), hence by every history (induction over the operation list); corollaries: count = "
              "number of reachable nodes, node ids unique, removed nodes neither in the forest nor in the registry.  wf_world_b decides WFw "
              "(reflection theorem).  Tie to /repo on every run: exhaustive single-op cases and aimed random histories, after every step the "
              "implementation's full state equals the model's, the model's state satisfies wf_world_b, and an independent pointer-level oracle "
              "(reachable = counted, owner, exactly one parent, once in its child list by identity, no cycle, unique node ids, removed nodes "
              "unregistered and unlinked) holds on the implementation."),
        note=("Trusted: Coq kernel + vm_compute; hand-written model Mut/Machine.v (tied by the correspondence only); harness/mut*.py.  Parent "
              "pointers are derived in the model, so 'exactly one parent / once in the child list / not its own ancestor' hold there by "
              "construction; for the implementation they are established by the per-step observation of node.parent/children/tree and by the "
              "oracle.  The model describes the code as repaired by fixes/D01..D48; each repaired defect has a witness in mut.CORPUS that fails "
              "on the unchanged code.  What is proved only partially is named *_partial in Properties/C01.v.  "
              "The theorems are about Machine.step/run; the cases evaluate CaseMut.step_chk/run_chk (step behind the liveness guard op_live); "
              "C01_step_chk_live/_stale, C01_run_chk_is_run and C01_history_chk connect the two.  NOT covered by theorem or test: operations "
              "issued through stale references (a removed node, a node of a cleared tree): the model answers EModel for all of them and the "
              "generators never issue them (mut.NotLive), although the library accepts some (live.add(removed_node) inserts a node); 'any "
              "sequence of public mutating operations' is therefore established for sequences whose references are live when used.  "
              "'Reports THAT tree as owner': the pointer-level model has one heap per tree and a boolean owner flag (_tree is not None), so a "
              "node linked in tree A with _tree = B is not expressible in Coq; that clause is checked on the implementation by the pointer-level "
              "oracle only (mut.wf_oracle: c._tree is t for every reachable node; cross-tree move is refused in model and code).  Explicit "
              "node ids (add_child(node_id=)) are modelled by the wrapper machine Mut/MachineNodeId.v and the part NODEID; their uniqueness "
              "rests on an `assert` in Tree._register (void under python -O)."),
        technique="Coq proof about an executable Gallina model + differential correspondence check (vm_compute) + Python oracle",
        design_ref="DESIGN.md section 6 (C01), 3.2, 3.4",
    )

    # ------------------------------------------------------------------
    def descs(self, tier, rng):
        for c in mut.CORPUS:
            yield dict(kind="hist", univ=c["univ"], ops=c["ops"], corpus=c["id"])
        for c in CORPUS_C01:
            yield dict(kind="hist", univ=c["univ"], ops=c["ops"], corpus=c["id"])
        quick = tier == "quick"
        nmax = 3 if quick else 4
        fams = QUICK_FAMILIES if quick else None
        for g in mut.gen_exhaustive(nmax, families=fams):
            alts = [a for a in g["alts"] if a[0] != "meta"]
            if not quick and g["n"] == 4:
                alts = [a for a in alts if a[0] not in ("filter", "set_data")]
            elif quick and g["n"] == 3:
                # quick tier: thinned products (the thorough tier runs all of them); move/remove/del stay complete
                keep = set()
                thin = (("set_data", 6), ("addnode", 4), ("copyto", 2), ("add", 2))
                for fam, mod in thin:
                    sel = [a for a in alts if a[0] == fam]
                    keep |= {id(a) for i, a in enumerate(sel) if i % mod == 0}
                alts = [a for a in alts if a[0] not in [f for f, _ in thin] or id(a) in keep]
            for i in range(0, len(alts), CHUNK):
                yield dict(kind="alts", univ=g["univ"], setup=g["setup"], alts=alts[i:i + CHUNK], label=g["label"])
        for g in mut.gen_shapes((mut.EXTRA_SHAPES[:2] + WIDE_SHAPES[:2]) if quick else (mut.EXTRA_SHAPES + WIDE_SHAPES[:2]),
                                labelings=("equal",) if quick else ("distinct", "equal"),
                                families=("remove", "move", "remove_children") if quick else ("remove", "move", "remove_children", "short", "del", "copyto", "sort")):
            alts = g["alts"] if not quick else [a for i, a in enumerate(g["alts"]) if a[0] != "move" or i % 4 == 0]
            for i in range(0, len(alts), CHUNK):
                yield dict(kind="alts", univ=g["univ"], setup=g["setup"], alts=alts[i:i + CHUNK], label=g["label"])
        for g in mut_c01.gen_twins(quick):
            for i in range(0, len(g["alts"]), CHUNK):
                yield dict(kind="alts", univ=g["univ"], setup=g["setup"], alts=g["alts"][i:i + CHUNK], label=g["label"])
        for g in mut_c01.gen_move_chains(3 if quick else 4):
            for i in range(0, len(g["alts"]), CHUNK):
                yield dict(kind="alts", univ=g["univ"], setup=g["setup"], alts=g["alts"][i:i + CHUNK], label=g["label"])
        for g in mut_c01.gen_cross_move(typed=(False,) if quick else (False, True), quick=quick):
            for i in range(0, len(g["alts"]), CHUNK):
                yield dict(kind="alts", univ=g["univ"], setup=g["setup"], alts=g["alts"][i:i + CHUNK], label=g["label"])
        for g in mut.gen_addtree(typed=(False,) if quick else (False, True)):
            yield dict(kind="alts", univ=g["univ"], setup=g["setup"], alts=g["alts"], label=g["label"])
        if not quick:
            for g in mut.gen_exhaustive(3, typed=(True,)):
                alts = [a for a in g["alts"] if a[0] != "meta"]
                for i in range(0, len(alts), CHUNK):
                    yield dict(kind="alts", univ=g["univ"], setup=g["setup"], alts=alts[i:i + CHUNK], label=g["label"] + "/typed")
        nrand = 30 if quick else 700
        for i in range(nrand):
            n_ops = rng.randint(10, 30 if quick else 40)
            h = mut_c01.gen_history(rng, n_ops, malformed=(i % 4 == 3))
            yield dict(kind="hist", univ=h["univ"], ops=h["ops"])

    def shrink_candidates(self, desc):
        if desc["kind"] == "alts":
            for alt in desc["alts"]:
                yield dict(kind="hist", univ=desc["univ"], ops=desc["setup"] + [alt])
            return
        for h in mut_ex.safe_shrink_candidates(dict(univ=desc["univ"], ops=desc["ops"])):
            yield dict(kind="hist", univ=h["univ"], ops=h["ops"])

    ORACLES = ("wf",)

    def run(self, desc) -> Case:
        if desc["kind"] == "alts":
            sink = []
            setup, runs = mut_ex.run_group(desc, oracles=self.ORACLES, hooks=lambda: hooks(sink))
            term = mut.coq_alts(setup, runs)
            obs = [[setup.obs, [r.obs[-1] for r in runs]], [[1] * len(setup.obs), [1] * len(runs)],
                   [sink[0].obs, [o.obs[-1] for o in sink[1:]]]]
            fails = [(r.steps[-1]["op"], f) for r in runs for f in r.fails]
            fails = [(setup.steps[f[0]]["op"], f) for f in setup.fails] + fails
            changed = sum(1 for r in runs if r.steps[-1]["before"] != r.steps[-1]["after"])
            kinds = {}
            for r in runs:
                op = r.steps[-1]["op"]
                res = r.steps[-1]["res"]
                k = op[0] + ("" if res[0] == 0 else ":" + H.ERR_NAMES.get(res[1], str(res[1])))
                kinds[k] = kinds.get(k, 0) + 1
            top = max(kinds, key=kinds.get) if kinds else ""
            stats = dict(kind="single-op group", nodes=len(desc["setup"]) - 1, label=desc.get("label", ""), most_frequent=top,
                         changed_share=round(changed / max(1, len(runs)), 1))
            nontrivial = changed > 0
        else:
            sink = []
            pre, post = hooks(sink)
            r = mut_ex.replay(dict(univ=desc["univ"], ops=desc["ops"]), oracles=self.ORACLES, pre=pre, post=post)
            term, obs = mut.coq_case(r), [r.obs, [1] * len(r.obs), sink[0].obs]
            fails = [(r.steps[si]["op"], (si, n, m)) for si, n, m in r.fails]
            changed = sum(1 for s in r.steps if s["before"] != s["after"])
            errs = sum(1 for s in r.steps if s["res"][0] == 1)
            ntrees = len(r.steps[-1]["after"]) if r.steps else 0
            size = sum(len(t[1]) for t in r.steps[-1]["after"]) if r.steps else 0
            removed = sum(max(0, sum(len(t[1]) for t in s["before"]) - sum(len(t[1]) for t in s["after"])) for s in r.steps)
            stats = dict(kind="history", length=len(desc["ops"]) // 10 * 10, trees=ntrees, final_nodes=size // 5 * 5,
                         errors=errs // 3 * 3, nodes_removed=removed // 5 * 5)
            nontrivial = changed > 0
        fail = None
        if fails:
            op, (si, name, msg) = fails[0]
            fail = f"{name}: {msg} [step {si}, op {op[0]}]"
        return Case(desc=desc, coq_input=term, impl_obs=mut_ex.safe_obs(obs), oracle_fail=fail, nontrivial=nontrivial,
                    key=H.digest([desc["univ"], desc.get("setup"), desc.get("alts"), desc.get("ops")]), stats=stats)


# witnesses specific to this property (each fails the C01 oracle on the unchanged code or under a sensitivity mutation)
CORPUS_C01: list = []

PROP = Prop()
CORPUS = mut.CORPUS + CORPUS_C01

import parts  # noqa: E402
import parts_misc  # noqa: E402

parts.attach(PROP, parts_misc.REMOVED, parts_misc.SELFCHECK)   # removed nodes are inert; Tree._self_check (models Forest/MiscRemoved.v, Mut/MiscSelfCheck.v; theorems at the end of Properties/C01.v)

import mut_c01_nid  # noqa: E402

parts.attach(PROP, mut_c01_nid.NID_PART)   # explicit node ids: add_child(node_id=) (model Mut/MachineNodeId.v; theorems at the end of Properties/C01.v)
