"""C03 - a parent never holds two children with the same data_id; every route that would create such a pair is
refused with UniqueConstraintError.

Theorems: Properties/C03.v (sibling uniqueness is a clause of the invariant WFw, preserved by every history;
per-route refusal theorems `C03_*_refused`; `C03_uniqueness_test_exact`).

Tie:
* correspondence (`CaseMut.run_mut`): result (incl. the error class - EUnique = 1) and full state of every tree
  after every step equal the mutation machine's, so the model's refusals are the implementation's;
* oracle (independent of the model and of the code, pointer walks only):
  - `mut.sibling_oracle` after every step: no parent (system root included) with two children of one data_id;
  - `mut_c03.judge`, evaluated on the state BEFORE the step: a route-independent collision predicate
    ("the operation would place a second child with an already present data_id under some parent"); then
    a colliding operation must be refused, with UniqueConstraintError when nothing else is wrong with its
    arguments, and a non-colliding one must NOT raise UniqueConstraintError (no over-refusal: D12);
* generator (`mut_c03.Gen03`): collision-driven - for every route (add_child, append/prepend_child,
  prepend/append_sibling, add(node) from the same / another tree shallow and deep, copy_to node / children,
  add(tree), move_to, remove(keep_children) alone and with clones, set_data by data / by id / on a clone group
  where the clash is at a clone's parent, rename, Node.from_dict flat / nested, Tree.from_dict) parent and id are
  picked so that the call WOULD collide (> 40 % of all steps incl. set-up), plus near misses (same id under a
  different parent, same data under a fresh explicit id, the only equal sibling is the moved node itself, copy
  below a sibling, un-nesting a clone of the removed node itself, merging clone groups, same id at two levels of
  a from_dict branch) and building steps;
* `Tree.load` of hand-made files (model: OLoad of Mut/MachineLoad.v, evaluated by Cases/CaseLoad.v, part 'load'; plus an oracle computed from the file): files
  in the native format with two entries of one parent carrying the same string / a string and a reference to an
  equal node must be refused with UniqueConstraintError; files repeating a label under different parents
  (incl. a clone below a sibling of its first occurrence, D12) must load, with the expected shape.
"""
from __future__ import annotations

import io
import json

import common as H
import mut
import mut_ex
import mut_c03
from common import Case, Tree

FAMILIES = ("add", "short", "addnode", "copyto", "move", "remove", "set_data")
CHUNK = 40


def load_case(nodes, typed=False, loaded=None):
    """nodes: [[parent_idx, label | ref_idx]*] as Tree.save writes them.  Returns (outcome, collides, problem).
    loaded = (tree | None, outcome) when the caller has already run Tree.load."""
    labels = []
    for pidx, dat in nodes:
        labels.append(labels[dat - 1] if isinstance(dat, int) else dat)
    collide = any(nodes[i][0] == nodes[j][0] and labels[i] == labels[j] for i in range(len(nodes)) for j in range(i))
    text = json.dumps({"meta": {"$generator": "nutree/0.9.1", "$format_version": "1.0"}, "nodes": nodes})
    if loaded is not None:
        t, res = loaded
    else:
        try:
            t = (H.TypedTree if typed else Tree).load(io.StringIO(text))
            res = [0, []]
        except Exception as e:
            t = None
            res = [1, H.err_class(e)]
    msg = None
    if collide and res != [1, 1]:
        msg = f"load: the file places two entries with one data_id under one parent, outcome {res} (expected UniqueConstraintError)"
    elif not collide and res[0] == 1:
        msg = f"load: a file without sibling collision was refused: {res}"
    elif t is not None:
        msg = mut.sibling_oracle(t)
        got = []

        def rec(n, pi):
            for c in (n._children or []):
                got.append([pi, c._data])
                rec(c, len(got))

        rec(t._root, 0)
        # the file lists nodes in the order they are created; compare as multisets of (parent label path)
        if msg is None and (t.count != len(nodes) or sorted(x[1] for x in got) != sorted(labels)):
            msg = f"load: loaded tree has {t.count} nodes {sorted(x[1] for x in got)}, file has {len(nodes)}"
    return res, collide, msg


def gen_load(rng):
    n = rng.randint(2, 9)
    nodes = []
    labs = ["a", "b", "c", "d"]
    for i in range(n):
        pidx = rng.randint(0, i)
        if i and rng.random() < 0.35:
            dat = rng.randint(1, i)          # a reference = clone of an earlier entry
            if isinstance(nodes[dat - 1][1], int):
                dat = nodes[dat - 1][1]
        else:
            dat = rng.choice(labs)
        nodes.append([pidx, dat])
    return nodes


class Prop:
    id = "C03"
    coq_prop = "Properties/C03.v"
    case_module = "CaseMut"
    case_vo = "theories/Cases/CaseMut.vo"
    run_fn = "run_mut"
    shard = 8
    rule = ("(a) the corpus of defect witnesses (mut.CORPUS + C03 witnesses per route); (b) exhaustive: every ordered forest with <= 3 nodes "
            "(thorough 4) under three labelings (distinct / equal-comparing objects under distinct explicit ids / clones in different parents) x "
            "every single add, shortcut, add(node), copy_to, move_to, remove, set_data, rename with every argument (this contains every colliding "
            "and every non-colliding choice of parent and id on these forests); (c) seeded collision-driven histories of <= 30 (thorough 40) steps "
            "over 1-3 trees (plain/typed, calc_data_id callbacks): 86% of the generator's draws aim at a collision through one of 21 routes "
            "(measured: > 40% of all executed steps, set-up included, would collide), 10% are near misses that must be accepted, the rest "
            "builds material; one history in five is malformed (invalid before, foreign nodes, raising callbacks); (d) hand-made native files for "
            "Tree.load (part [load]: implementation, oracle and the model's op_load).  After every step: sibling uniqueness by pointer walk; collision predicate computed from "
            "pointers before the step vs. the outcome (refused with UniqueConstraintError / not over-refused); state and outcome equal the "
            "model's.  distinct = distinct (universe, ops); non-trivial = at least one step would collide")
    exhaustive_note = "every add/shortcut/add(node)/copy_to/move/remove/set_data/rename x every argument on all forests <= 3 (thorough 4) nodes x 3 labelings"
    assumptions = ["identity of nodes is the allocation index recorded by a harness-side wrapper of Node.__init__",
                   "user callbacks (calc_data_id) are tables from objects to ids that may raise",
                   "node references of generated ops are live (references to removed nodes are not public operations)",
                   "Tree.load: the node list after the file layer (json parsing, key/value un-compression) is what the model's op_load reads"]
    trusted = ["harness/mut.py, mut_ex.py, mut_c01.py, mut_c03.py (replayer, observation, collision predicate, generators)"]
    manifest = dict(
        text=("Machine-checked (Coq 8.16, no axioms): sibling uniqueness (no two children of one parent, top level included, with equal "
              "data_id) is a clause of the world invariant WFw of the mutation machine Mut/Machine.v, which holds initially and is preserved by "
              "every operation for all arguments, hence after every history; refusal theorems per route state that an operation whose target "
              "parent already holds a child with the id to be placed answers Err EUnique.  Tie to /repo on every run: exhaustive single-op "
              "cases and collision-driven random histories through every route the API offers; after every step the outcome (error class) and "
              "the full state equal the model's, no parent holds two children with one data_id (pointer walk), every operation that an "
              "independent pointer-level predicate classifies as colliding is refused with UniqueConstraintError and no other operation is; "
              "hand-made files check the same for Tree.load."),
        note=("Trusted: Coq kernel + vm_compute; hand-written model Mut/Machine.v (tied by the correspondence only); harness/mut*.py.  The model "
              "describes the code as repaired by fixes/D09 (move_to), D10/D43 (remove keep_children), D11 (set_data/rename), D12 (over-refusal), "
              "D48 (from_dict); each has a witness in the corpus that fails on the unchanged code.  add(node, data_id=<different id>) is refused by "
              "the library's separate 'data_id conflict' rule and is not judged by the collision predicate."),
        technique="Coq proof about an executable Gallina model + differential correspondence check (vm_compute) + Python oracle",
        design_ref="DESIGN.md section 6 (C03), 3.2",
    )

    # ------------------------------------------------------------------
    def descs(self, tier, rng):
        for c in mut.CORPUS:
            yield dict(kind="hist", univ=c["univ"], ops=c["ops"], corpus=c["id"])
        for c in CORPUS_C03:
            if "nodes" not in c:      # the load witnesses run in the part [load] (model included)
                yield dict(kind="hist", univ=c["univ"], ops=c["ops"], corpus=c["id"])
        quick = tier == "quick"
        nmax = 3 if quick else 4
        for g in mut.gen_exhaustive(nmax, families=FAMILIES):
            alts = g["alts"]
            if g["n"] == nmax and g["n"] >= 3:
                thin = (("set_data", 6), ("addnode", 3), ("move", 2), ("copyto", 2)) if quick else (("set_data", 8), ("addnode", 2), ("move", 2))
                keep = set()
                for fam, mod in thin:
                    sel = [a for a in alts if a[0] == fam]
                    keep |= {id(a) for i, a in enumerate(sel) if i % mod == 0}
                alts = [a for a in alts if a[0] not in [f for f, _ in thin] or id(a) in keep]
            for i in range(0, len(alts), CHUNK):
                yield dict(kind="alts", univ=g["univ"], setup=g["setup"], alts=alts[i:i + CHUNK], label=g["label"])
        for g in mut_c03.gen_after_promote():
            for i in range(0, len(g["alts"]), CHUNK):
                yield dict(kind="alts", univ=g["univ"], setup=g["setup"], alts=g["alts"][i:i + CHUNK], label=g["label"])
        for g in mut_c03.gen_after_failed_batch():
            for i in range(0, len(g["alts"]), CHUNK):
                yield dict(kind="alts", univ=g["univ"], setup=g["setup"], alts=g["alts"][i:i + CHUNK], label=g["label"])
        for g in mut.gen_addtree(typed=(False,) if quick else (False, True)):
            yield dict(kind="alts", univ=g["univ"], setup=g["setup"], alts=g["alts"], label=g["label"])
        if not quick:
            for g in mut.gen_exhaustive(3, typed=(True,), families=FAMILIES):
                for i in range(0, len(g["alts"]), CHUNK):
                    yield dict(kind="alts", univ=g["univ"], setup=g["setup"], alts=g["alts"][i:i + CHUNK], label=g["label"] + "/typed")
        nrand = 60 if quick else 900
        for i in range(nrand):
            n_ops = rng.randint(10, 30 if quick else 40)
            h = mut_c03.gen_history(rng, n_ops, malformed=(i % 5 == 4))
            yield dict(kind="hist", univ=h["univ"], ops=h["ops"])

    def shrink_candidates(self, desc):
        if desc["kind"] == "alts":
            for alt in desc["alts"]:
                yield dict(kind="hist", univ=desc["univ"], ops=desc["setup"] + [alt])
            return
        if desc["kind"] == "load":
            nodes = desc["nodes"]
            for i in range(len(nodes) - 1, -1, -1):
                # drop entry i when nothing refers to it (as parent or as clone source)
                if any(p == i + 1 or (isinstance(d, int) and d == i + 1) for p, d in nodes):
                    continue
                rest = [[p - (1 if p > i + 1 else 0), (d - (1 if d > i + 1 else 0)) if isinstance(d, int) else d]
                        for k, (p, d) in enumerate(nodes) if k != i]
                yield dict(kind="load", nodes=rest)
            return
        for h in mut_ex.safe_shrink_candidates(dict(univ=desc["univ"], ops=desc["ops"])):
            yield dict(kind="hist", univ=h["univ"], ops=h["ops"])

    ORACLES = ("sibling",)

    def run(self, desc) -> Case:
        if desc["kind"] == "load":
            res, collide, msg = load_case(desc["nodes"])
            return Case(desc=desc, coq_input="(CHist [])", impl_obs=[], oracle_fail=msg, nontrivial=True, key=H.digest(desc["nodes"]),
                        stats=dict(kind="load file", collides=collide, entries=len(desc["nodes"]) // 3 * 3))
        cst = {}
        hk = lambda: mut_c03.hooks(cst)  # noqa: E731
        if desc["kind"] == "alts":
            setup, runs = mut_ex.run_group(desc, oracles=self.ORACLES, hooks=hk)
            term = mut.coq_alts(setup, runs)
            obs = [setup.obs, [r.obs[-1] for r in runs]]
            fails = [(setup.steps[f[0]]["op"], f) for f in setup.fails] + [(r.steps[-1]["op"], f) for r in runs for f in r.fails]
            last = [r.steps[-1] for r in runs]
            ncol = sum(1 for s in last if (s.get("collision") or [None])[0])
            refused = sum(1 for s in last if s["res"] == [1, 1])
            stats = dict(kind="single-op group", nodes=len(desc["setup"]) - 1, label=desc.get("label", ""),
                         colliding_share=round(ncol / max(1, len(runs)), 1), refused_unique=refused // 5 * 5)
            nontrivial = ncol > 0 or any(s["before"] != s["after"] for s in last)
        else:
            pre, post = hk()
            r = mut_ex.replay(dict(univ=desc["univ"], ops=desc["ops"]), oracles=self.ORACLES, pre=pre, post=post)
            term, obs = mut.coq_case(r), r.obs
            fails = [(r.steps[si]["op"], (si, n, m)) for si, n, m in r.fails]
            ncol = sum(1 for s in r.steps if (s.get("collision") or [None])[0])
            routes = sorted({s["op"][0] for s in r.steps if (s.get("collision") or [None])[0]})
            refused = sum(1 for s in r.steps if s["res"] == [1, 1])
            stats = dict(kind="history", length=len(desc["ops"]) // 10 * 10, colliding_share=round(ncol / max(1, len(r.steps)), 1),
                         colliding_routes=len(routes), refused_unique=refused // 5 * 5,
                         near_miss_accepted=sum(1 for s in r.steps if s.get("collision") and s["collision"][0] is False and s["res"][0] == 0) // 5 * 5)
            nontrivial = ncol > 0
        fail = None
        if fails:
            op, (si, name, msg) = fails[0]
            fail = f"{name}: {msg} [step {si}, op {op[0]}]"
        return Case(desc=desc, coq_input=term, impl_obs=mut_ex.safe_obs(obs), oracle_fail=fail, nontrivial=nontrivial,
                    key=H.digest([desc["univ"], desc.get("setup"), desc.get("alts"), desc.get("ops")]), stats=stats)


# one minimal witness per route: each is a collision that the unchanged code accepts (D09 D10 D11), or a near
# miss it refuses (D12); they stay here so that a regression of a repair is reported again
_U = ["s:a", "s:b", "s:c"]
_NEW = ["new", False, None]
CORPUS_C03: list = [
    {"id": "C03-move", "univ": _U, "ops": [_NEW, ["add", 0, 0, 0, None, None, None], ["add", 0, 0, 1, None, None, None],
                                           ["add", 0, 2, 0, None, None, None], ["move", 0, 3, 0, 0, None]]},
    {"id": "C03-move-root-before", "univ": _U, "ops": [_NEW, ["add", 0, 0, 0, None, None, None], ["add", 0, 0, 1, None, None, None],
                                                       ["add", 0, 2, 0, None, None, None], ["move", 0, 3, 0, 0, True]]},
    {"id": "C03-keep", "univ": _U, "ops": [_NEW, ["add", 0, 0, 0, None, None, None], ["add", 0, 0, 1, None, None, None],
                                           ["add", 0, 2, 0, None, None, None], ["remove", 0, 2, True, False]]},
    {"id": "C03-set_data", "univ": _U, "ops": [_NEW, ["add", 0, 0, 0, None, None, None], ["add", 0, 0, 1, None, None, None],
                                               ["set_data", 0, 2, 0, None, None]]},
    {"id": "C03-set_data-id", "univ": _U, "ops": [_NEW, ["add", 0, 0, 0, "k1", None, None], ["add", 0, 0, 1, "k2", None, None],
                                                  ["set_data", 0, 2, None, "k1", None]]},
    {"id": "C03-rename-third", "univ": _U, "ops": [_NEW, ["add", 0, 0, 0, None, None, None], ["add", 0, 0, 1, None, None, None],
                                                   ["add", 0, 0, 2, None, None, None], ["rename", 0, 3, 1]]},
    {"id": "C03-group", "univ": _U, "ops": [_NEW, ["add", 0, 0, 0, None, None, None], ["add", 0, 0, 1, None, None, None],
                                            ["add", 0, 1, 2, None, None, None], ["add", 0, 1, 1, None, None, None],
                                            ["set_data", 0, 2, 2, None, True]]},
    {"id": "C03-copy-below-sibling", "univ": _U, "ops": [_NEW, ["add", 0, 0, 0, None, None, None], ["add", 0, 0, 1, None, None, None],
                                                         ["addnode", 0, 2, 0, 1, None, None, None, None]]},
    {"id": "C03-keep-own-clone", "univ": _U, "ops": [_NEW, ["add", 0, 0, 0, None, None, None], ["add", 0, 1, 0, None, None, None],
                                                     ["remove", 0, 1, True, False]]},
    # re-keying a clone group onto an id that other nodes carry, then placing that id next to one of those nodes
    {"id": "C03-merge-then-add", "univ": ["s:x", "s:y", "s:p", "s:q", "s:r"],
     "ops": [_NEW, ["add", 0, 0, 2, None, None, None], ["add", 0, 0, 3, None, None, None], ["add", 0, 0, 4, None, None, None],
             ["add", 0, 1, 0, None, None, None], ["add", 0, 2, 0, None, None, None], ["add", 0, 3, 1, None, None, None],
             ["set_data", 0, 4, 1, None, True], ["add", 0, 3, 1, None, None, None]]},
    {"id": "C03-load-dup", "nodes": [[0, "a"], [0, "b"], [0, "a"]]},
    {"id": "C03-load-ref-dup", "nodes": [[0, "a"], [1, "b"], [1, 2]]},
    {"id": "C03-load-clone-below-sibling", "nodes": [[0, "a"], [0, "b"], [2, 1]]},
]

import parts  # noqa: E402

LOAD_PART = mut_c03.LoadPart([c for c in CORPUS_C03 if "nodes" in c], gen_load, load_case)
PROP = parts.attach(Prop(), LOAD_PART)
CORPUS = mut.CORPUS + CORPUS_C03
