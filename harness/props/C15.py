"""C15 — kind-aware queries of a typed tree equal filtering the child list by kind."""
from __future__ import annotations

import itertools
import re

import build as B
import nav_hist as NH
import common as H
from common import ANY_KIND, Case

KINDS = ["a", "b", "c"]


#: node identity used in observations: run() installs a per-tree local numbering (pre-order, 1..n) so that case
#: terms stay small; a bijection on the nodes of the tree, applied to the model input and the observation alike
_LID = H.nid


def _call(fn):
    try:
        return fn()
    except Exception as e:  # noqa: BLE001
        return ("ERR", H.err_class(e))


def on(x):
    if isinstance(x, tuple) and x and x[0] == "ERR":
        return [-1, x[1]]
    return [] if x is None else [_LID(x)]


def nl(x):
    if isinstance(x, tuple) and x and x[0] == "ERR":
        return [-1, x[1]]
    return [_LID(n) for n in x]


def onat(x):
    if isinstance(x, tuple) and x and x[0] == "ERR":
        return [-1, x[1]]
    return [] if x is None else [x]


def bl(x):
    if isinstance(x, tuple) and x and x[0] == "ERR":
        return [-1, x[1]]
    return bool(x)


class Prop:
    id = "C15"
    coq_prop = "Properties/C15.v"
    case_module = "CaseNav"
    case_vo = "theories/Cases/CaseNav.vo"
    run_fn = "run15"
    shard = 60
    rule = ("typed trees: every ordered forest with <= N nodes (N=4 quick, 5 thorough) x kind assignments over "
            "{a,b,c} (all for <=4 nodes, sampled beyond) plus seeded random trees up to 14 nodes and wide forests (sibling lists up to ~18 nodes); siblings may carry "
            "equal-comparing data under different data_ids; queried kinds = every present kind, one absent kind and ANY_KIND, "
            "any_kind on/off, every node; typed trees REACHED THROUGH A HISTORY (creation orders different from pre-order with "
            "before= inserts, single remove / remove(keep_children) / remove_children on every node of small forests, random histories with "
            "sort, clear + re-add, add, set_data; checked against an independent shadow forest).  A case is one tree; distinct = distinct (shape, kinds, labels); "
            "non-trivial = at least one sibling list with two different kinds or two nodes of one kind")
    exhaustive_note = "all shapes <= N nodes x all kind assignments (N=4 quick)"
    assumptions = ["identity of nodes is the allocation index recorded by a harness-side wrapper of Node.__init__"]
    manifest = dict(
        text=("Machine-checked theorems (Coq 8.16, no axioms) that every kind-aware query of the executable model equals the plain query "
              "on the kind-filtered child/sibling list, for every forest with unique node identities, every node (top level included), "
              "every kind and any_kind on/off, and, in positional form, that index / previous / next / first / last / is-first / "
              "is-last / siblings of a node are its position and neighbours in the sibling list filtered by its kind; the lexical facts "
              "of typed_tree.py the model relies on (identity search through Node.get_index / `is self`, every `==` compares kinds, "
              "`len(...) > 0`, `own_idx < pc_len - 1`, scan starts, literal subscripts) are lifted by gen_facts (section NAVT) and proved "
              "to be what the model computes; the model is tied to /repo on every run by a correspondence check (model evaluated by "
              "vm_compute vs. the implementation on all typed trees <=4 nodes x all kind assignments + random trees, every node, every "
              "query) and an independent Python oracle of the property statement."),
        note=("Trusted: Coq kernel + vm_compute; hand-written model theories/Forest/Nav.v (tied by the correspondence and, for the lexical "
              "facts of sections NAV/NAVT of Generated.v, by proof obligations); harness "
              "generators/observation; node identity = allocation index recorded by a harness-side wrapper of Node.__init__. "
              "Print Assumptions: closed under the global context for all theorems."),
        technique="Coq proof about an executable Gallina model + differential correspondence check (vm_compute) + Python oracle",
        design_ref="DESIGN.md section 6 (C15)",
    )

    # ----- generation
    def descs(self, tier, rng):
        # spread the larger (random / wide) cases evenly over the case files, which are evaluated in parallel
        self.shard = 60 if tier == "quick" else 50
        ds = list(self._descs(tier, rng))
        stride = max(1, -(-len(ds) // self.shard))
        for r in range(stride):
            yield from ds[r::stride]

    def _descs(self, tier, rng):
        nmax = 4 if tier == "quick" else 5
        univ = ["e:1", "e:1", "e:2", "s:x", "e:1", "s:y", "e:2", "i:7"]
        # corpus: witnesses of the defects repaired by fix: commits (see known_findings.json)
        yield from CORPUS
        for n in range(1, nmax + 1):
            for shape in H.forests(n):
                assigns = list(itertools.product(range(3), repeat=n))
                if n > 4:
                    assigns = rng.sample(assigns, 25)
                for ks in assigns:
                    # labels: equal-comparing objects with distinct explicit ids
                    nodes = B.shape_to_nodes(shape, lambda i, d, s, ks=ks: (i % len(univ), KINDS[ks[i]], f"id{i}" if univ[i % len(univ)].startswith("e:") else None))
                    yield dict(typed=True, univ=univ, nodes=nodes, query=KINDS)
        nrand = 60 if tier == "quick" else 450
        for _ in range(nrand):
            n = rng.randint(5, 14)
            shape = H.random_shape(rng, n, deep=rng.choice([0.2, 0.5, 0.8]))
            ks = [rng.randrange(rng.choice([1, 2, 3])) for _ in range(n)]
            nodes = B.shape_to_nodes(shape, lambda i, d, s, ks=ks: (i % len(univ), KINDS[ks[i]], f"id{i}"))
            yield dict(typed=True, univ=univ, nodes=nodes, query=KINDS)
        # wide sibling lists (up to ~18 siblings of up to three kinds, all data equal-comparing): every position far from both ends
        for _ in range(25 if tier == "quick" else 200):
            n = rng.randint(10, 20)
            shape = H.random_shape(rng, n, deep=rng.choice([0.0, 0.05, 0.2]))
            ks = [rng.randrange(rng.choice([2, 3])) for _ in range(n)]
            nodes = B.shape_to_nodes(shape, lambda i, d, s, ks=ks: (0, KINDS[ks[i]], f"id{i}"))
            yield dict(typed=True, univ=["e:1"], nodes=nodes, query=KINDS)
        # typed trees REACHED THROUGH A HISTORY (nav_hist.py): creation orders different from pre-order (children added to
        # earlier branches later, before=<node>/<index>/True inserts); every single remove / remove(keep_children) /
        # remove_children on every node of every small forest; random histories (TypedNode.move_to is not implemented)
        hu = ["e:1", "e:1", "e:2", "s:x", "e:1", "s:y"]
        for n in range(2, 5):
            for shape in H.forests(n):
                for ks in ([0] * n, [i % 2 for i in range(n)], [(i // 2) % 2 for i in range(n)]):
                    nodes = B.shape_to_nodes(shape, lambda i, d, s, ks=ks: (i % len(hu), KINDS[ks[i]], f"id{i}"))
                    yield dict(typed=True, univ=hu, nodes=nodes, query=KINDS, order_seed=n * 1000 + sum(ks) * 7 + len(shape), hist=[])
                    if ks[-1] == (n - 1) % 2 and n > 1:
                        hs = [h for h in NH.aimed(nodes, n) if h[0][0] != "move" and h[-1][0] != "move"]
                        if tier == "quick":
                            hs = rng.sample(hs, max(1, len(hs) // (2 if n < 4 else 4)))
                        for hist in hs:
                            yield dict(typed=True, univ=hu, nodes=nodes, query=KINDS, hist=hist)
        # the FALSY kind "" is a legal kind: nodes that carry it, and "" as a query kind that is absent
        KF = ["", "a", "b"]
        for n in range(1, 4 if tier == "quick" else 5):
            for shape in H.forests(n):
                assigns = list(itertools.product(range(3), repeat=n))
                if n > 3:
                    assigns = rng.sample(assigns, 20)
                for ks in assigns:
                    nodes = B.shape_to_nodes(shape, lambda i, d, s, ks=ks: (i % len(hu), KF[ks[i]], f"id{i}"))
                    yield dict(typed=True, univ=hu, nodes=nodes, query=["", "a", "c"])
                for ks in itertools.product(range(1, 3), repeat=n):     # no node of kind ""
                    nodes = B.shape_to_nodes(shape, lambda i, d, s, ks=ks: (i % len(hu), KF[ks[i]], f"id{i}"))
                    yield dict(typed=True, univ=hu, nodes=nodes, query=["", "b"])
        for _ in range(20 if tier == "quick" else 200):
            n = rng.randint(4, 12)
            shape = H.random_shape(rng, n, deep=rng.choice([0.1, 0.4, 0.8]))
            ks = [rng.randrange(3) for _ in range(n)]
            nodes = B.shape_to_nodes(shape, lambda i, d, s, ks=ks: (i % len(hu), KF[ks[i]], f"id{i}"))
            yield dict(typed=True, univ=hu, nodes=nodes, query=["", "a", "c"], order_seed=rng.randrange(10 ** 6),
                       hist=NH.random_hist(rng, n, len(hu), True, rng.randint(0, 4)))
        # same-length replacements (remove + add of the same kind, sort) with a query before the first op only
        for n in range(2, 5 if tier == "quick" else 6):
            for si, shape in enumerate(H.forests(n)):
                if n >= 4 and tier == "quick" and si % 3:
                    continue
                nodes = B.shape_to_nodes(shape, lambda i, d, s: (i % len(hu), KINDS[(i // 2) % 2], f"id{n - i}"))
                for hi, hist in enumerate(NH.replace_same_length(nodes, True)):
                    if n >= 3 and (hi + si) % 2:
                        continue
                    yield dict(typed=True, univ=hu, nodes=nodes, query=KINDS, hist=hist, probe=[0])
        # aimed query - mutate - query: clear (alone, and followed by new nodes), sort, on every small forest
        for n in range(1, 4):
            for shape in H.forests(n):
                nodes = B.shape_to_nodes(shape, lambda i, d, s: (i % len(hu), KINDS[i % 2], f"id{n - i}"))
                for hist in ([["clear"]], [["clear"], ["add", -1, 0, "a", "z0", None], ["add", n, 1, "b", "z1", None]],
                             [["sort", -1, False, True]], [["sort", -1, True, False], ["add", -1, 2, "a", "z2", True]],
                             [["remove", 0], ["add", -1, 3, "b", "z3", None]]):
                    yield dict(typed=True, univ=hu, nodes=nodes, query=KINDS, hist=hist)
        for _ in range(40 if tier == "quick" else 300):
            n = rng.randint(3, 12)
            shape = H.random_shape(rng, n, deep=rng.choice([0.1, 0.4, 0.8]))
            ks = [rng.randrange(rng.choice([1, 2, 3])) for _ in range(n)]
            nodes = B.shape_to_nodes(shape, lambda i, d, s, ks=ks: (i % len(hu), KINDS[ks[i]], f"id{i}"))
            yield dict(typed=True, univ=hu, nodes=nodes, query=KINDS, order_seed=rng.randrange(10 ** 6),
                       hist=NH.random_hist(rng, n, len(hu), True, rng.randint(0, 5)))

    def shrink_candidates(self, desc):
        if "hist" in desc:
            yield from NH.shrink_hist(desc)
            return
        for nodes in B.drop_one_node(desc["nodes"]):
            yield dict(desc, nodes=nodes)

    # ----- one case: build, observe implementation, oracle
    def run(self, desc) -> Case:
        if "hist" not in desc:
            return self._run(desc)
        try:
            return self._run(desc)
        except Exception as e:  # noqa: BLE001 - the node graph reached through the history cannot even be observed
            return Case(desc=desc, coq_input="([], [])", impl_obs=[-424242], nontrivial=True,
                        oracle_fail=f"the tree reached through the history cannot be observed: {type(e).__name__}: {e}",
                        key=H.digest([desc["nodes"], desc.get("hist"), "unobservable"]), stats=dict(nodes=0))

    def _run(self, desc) -> Case:
        hist_fail = None
        if "hist" in desc:
            early = []
            pr = desc.get("probe", True)      # True: query before every op; [k, ...]: only before these steps; False: never

            def probe(tree, U, objs, sh, errors, k):
                # QUERY - mutate - query again: every query is asked before every op of the history as well, on the same
                # tree object (an index or cache that some mutator forgets to reset would answer from the old state)
                if pr is not True and k not in pr:
                    return      # no query between these two ops (a cache validated by a length only sees the same length)
                f = NH.consistency(tree, objs, sh, errors) or self._observe(tree, U, desc)[1]
                if f and not early:
                    early.append(f"before step {k} of the history: {f}")

            tree, U, objs, sh, errors = NH.build_hist(desc, probe if pr else None)
            hist_fail = (early[0] if early else None) or NH.consistency(tree, objs, sh, errors)
        else:
            tree, U = B.build(desc)
        # results handed out by queries are caller-owned (see nav_hist.poison_results): mutate every returned list on
        # another tree of the same description (t0) and on this tree, then ask everything again
        pfail = None
        if desc.get("poison", True):
            t0, U0 = NH.build_hist(desc)[:2] if "hist" in desc else B.build(desc)
            kinds = tuple(desc["query"]) + ("zz",)
            pfail = NH.poison_results(t0, True, kinds) or NH.poison_results(tree, True, kinds)
        obs, fail, nodes, coq = self._observe(tree, U, desc)
        if desc.get("poison", True) and not pfail:
            f0 = self._observe(t0, U0, desc)[1]
            pfail = f0 and f"after mutating the lists handed out by the queries of another tree: {f0}"
        fail = hist_fail or pfail or (fail and (f"(after mutating the lists handed out by the queries) {fail}" if desc.get("poison", True) else fail))
        kinds_in_sibs = [len({c.kind for c in (p._children or [])}) for p in [tree._root] + nodes]
        sizes = [len(p._children or []) for p in [tree._root] + nodes]
        return Case(desc=desc, coq_input=coq, impl_obs=obs, oracle_fail=fail,
                    nontrivial=max(sizes, default=0) >= 2 or bool(desc.get("hist")),
                    key=H.digest([desc["nodes"], desc.get("order_seed"), desc.get("hist"), desc["query"]]),
                    stats=dict(nodes=len(nodes), max_sibs=max(sizes, default=0), max_kinds_per_list=max(kinds_in_sibs, default=0)))

    def _observe(self, tree, U, desc):
        """ask every query on the tree as it is now; returns (observation, oracle failure, nodes, model input)"""
        global _LID
        ks = [ANY_KIND] + list(desc["query"])
        nodes = B.all_nodes(tree._root)
        call, battery_changed_tree = NH.guarded_call(tree, _call)     # the structure is re-read after every single query
        local = {H.nid(x): i + 1 for i, x in enumerate(nodes)}
        local[0] = 0
        _LID = lambda x: -1 if x is None else local.get(H.nid(x), -7)   # noqa: E731  (-7: not reachable from the root)

        def sib_obs(n, any_kind):
            return [
                nl(call(lambda: n.get_siblings(add_self=False, any_kind=any_kind))),
                nl(call(lambda: n.get_siblings(add_self=True, any_kind=any_kind))),
                on(call(lambda: n.first_sibling(any_kind=any_kind))),
                on(call(lambda: n.last_sibling(any_kind=any_kind))),
                on(call(lambda: n.prev_sibling(any_kind=any_kind))),
                on(call(lambda: n.next_sibling(any_kind=any_kind))),
                onat(call(lambda: n.get_index(any_kind=any_kind))),
                bl(call(lambda: n.is_first_sibling(any_kind=any_kind))),
                bl(call(lambda: n.is_last_sibling(any_kind=any_kind))),
            ]

        per_node = []
        for n in nodes:
            ch = [[nl(call(lambda: n.get_children(k))), on(call(lambda: n.first_child(k))),
                   on(call(lambda: n.last_child(k))), bl(call(lambda: n.has_children(k)))] for k in ks]
            per_node.append([ch, sib_obs(n, False), sib_obs(n, True)])
        it = [nl(call(lambda: list(tree.iter_by_type(k)))) for k in ks]
        top = [[on(call(lambda: tree.first_child(k))), on(call(lambda: tree.last_child(k)))] for k in ks]
        obs = [per_node, it, top]

        fail = battery_changed_tree() or self.oracle(tree, nodes, ks, obs)
        forest = re.sub(r"\(Tz (\d+) ", lambda m: f"(Tz {local[int(m.group(1))]} ", H.coq_forest(tree._root, U))
        coq = f"({forest}, {H.coq_list(H.coq_text(k) for k in desc['query'])})"
        return obs, fail, nodes, coq

    # ----- the property statement, executed directly on pointer structure
    def oracle(self, tree, nodes, ks, obs):
        per_node, it, top = obs

        def filt(lst, k):
            return list(lst) if k is ANY_KIND else [c for c in lst if c._kind == k]

        def ids(l):
            return [_LID(x) for x in l]

        def o(x):
            return [] if x is None else [_LID(x)]

        pre = nodes
        for ki, k in enumerate(ks):
            exp = ids(filt(pre, k))
            if it[ki] != exp:
                return f"iter_by_type: kind={'ANY' if k is ANY_KIND else k} got {it[ki]} expected {exp}"
            tl = filt(tree._root._children or [], k)
            exp = [o(tl[0] if tl else None), o(tl[-1] if tl else None)]
            if top[ki] != exp:
                return f"tree.first/last_child: kind={'ANY' if k is ANY_KIND else k} got {top[ki]} expected {exp}"
        for n, ob in zip(nodes, per_node):
            chs, s0, s1 = ob
            full = n._children or []
            for ki, k in enumerate(ks):
                fl = filt(full, k)
                exp = [ids(fl), o(fl[0] if fl else None), o(fl[-1] if fl else None), bool(fl)]
                names = ["get_children", "first_child", "last_child", "has_children"]
                for j in range(4):
                    if chs[ki][j] != exp[j]:
                        return f"{names[j]}: node {_LID(n)} kind={'ANY' if k is ANY_KIND else k} got {chs[ki][j]} expected {exp[j]}"
            sibs_full = n._parent._children
            for any_kind, so in ((False, s0), (True, s1)):
                fl = list(sibs_full) if any_kind else [c for c in sibs_full if c._kind == n._kind]
                pos = [i for i, c in enumerate(fl) if c is n][0]
                exp = [ids([c for c in fl if c is not n]), ids(fl), o(fl[0]), o(fl[-1]),
                       o(fl[pos - 1] if pos > 0 else None), o(fl[pos + 1] if pos + 1 < len(fl) else None),
                       [pos], pos == 0, pos == len(fl) - 1]
                names = ["get_siblings", "get_siblings(add_self)", "first_sibling", "last_sibling", "prev_sibling",
                         "next_sibling", "get_index", "is_first_sibling", "is_last_sibling"]
                for j in range(9):
                    if so[j] != exp[j]:
                        return f"{names[j]}: node {_LID(n)} any_kind={any_kind} got {so[j]} expected {exp[j]}"
        return None


CORPUS = [
    # D31 has_children(kind) with exactly one child of that kind; D32 next_sibling of the last-but-one sibling;
    # D33 get_index() of a top-level node; D34 iter_by_type(ANY_KIND)
    dict(typed=True, univ=["s:p", "s:q", "s:r"], nodes=[[0, "a", None, [[1, "a", None, []]]], [2, "a", None, []]], query=["a", "b"]),
    # D28 (typed): equal-comparing siblings under different data_ids
    dict(typed=True, univ=["e:1", "e:1", "e:1"], nodes=[[0, "a", "x", []], [1, "a", "y", []], [2, "b", "z", []]], query=["a", "b"]),
]

call = _call      # (imported by C10)

PROP = Prop()
