"""scratch: heap correspondence only"""
from __future__ import annotations
import common as H
import mut, mut_ex, mut_c01, heap_obs
from common import Case
import props.C01 as C01mod

class Prop(C01mod.Prop):
    id = "XHEAP"
    case_module = "CaseHeap"
    case_vo = "theories/Cases/CaseHeap.vo"
    run_fn = "run_heap"

    def run(self, desc) -> Case:
        if desc["kind"] == "alts":
            obsvs = []
            def hooks():
                ho = heap_obs.HeapObserver()
                obsvs.append(ho)
                return None, ho.post
            setup, runs = mut_ex.run_group(desc, oracles=(), hooks=hooks)
            term = mut.coq_alts(setup, runs)
            obs = [obsvs[0].obs, [o.obs[-1] for o in obsvs[1:]]]
            nontrivial = True
        else:
            ho = heap_obs.HeapObserver()
            r = mut_ex.replay(dict(univ=desc["univ"], ops=desc["ops"]), oracles=(), pre=None, post=ho.post)
            term, obs = mut.coq_case(r), ho.obs
            nontrivial = True
        return Case(desc=desc, coq_input=term, impl_obs=mut_ex.safe_obs(obs), oracle_fail=None, nontrivial=nontrivial,
                    key=H.digest([desc["univ"], desc.get("setup"), desc.get("alts"), desc.get("ops")]), stats={})

PROP = Prop()
