"""C07 - copies are faithful to the source and independent of it.

Thin wrapper over harness/mut_c07.py (which builds on the Layer-B history engine harness/mut.py):
* correspondence: after EVERY step of every case the observable state of EVERY tree (source and copy side:
  forest by identity walk, node.parent, node.tree, data object identity, data_id, kind, meta, `_node_by_id`
  order, `_nodes_by_data_id` groups) must equal what `CaseMut.run_mut` computes with the machine Mut/Machine.v;
* oracle (pointer walking, independent of model and code): `mut_c07.copy_oracle` on every copy operation and
  `mut_c07.independence_oracle` on every step (see the module docstring of mut_c07).
"""
from __future__ import annotations

import common as H
import mut
import mut_c07 as M
from common import Case

CHUNK = 40


class Prop:
    id = "C07"
    coq_prop = "Properties/C07.v"
    case_module = "CaseMut"
    case_vo = "theories/Cases/CaseMut.vo"
    run_fn = "run_mut"
    shard = 8
    rule = ("(a) corpus: witnesses of D06 D20 D21 D22 D23 D70 (each fails on the unchanged code); (b) exhaustive groups: source tree = every "
            "ordered forest with 1..3 nodes x 2 labelings (thorough: also all 14 forests of 4 nodes and 5 deeper shapes of 4-5 nodes under the first labeling; quick: 3 of the deeper shapes) (clones in "
            "different parents + explicit str/int data_ids on equal-comparing distinct objects + a frozen dataclass | all nodes "
            "equal-comparing distinct objects under explicit ids) x plain/typed (kinds k1/k2 alternating), metadata on two source nodes, "
            "a second tree x[z],y as target; on it EVERY copy operation with EVERY argument: add(node) of every source node x deep "
            "None/True/False x below the target root with before in {None,True,False,0,1,-1,5,-5,each child} / below x / below z, kind=, data_id= "
            "(own, foreign), add(node) inside the source tree below every node (own branch, same parent: refused), copy_to of every node and of "
            "the tree x add_self x deep x before into the other and into the same tree, add(tree) x before x deep x 3 parents, into itself, "
            "Tree.copy, Node.copy x add_self; (b2) the same whole-branch copies on sources REACHED THROUGH A HISTORY (front inserts at the top level "
            "and below, sort(reverse, deep), same-parent and cross-parent moves incl. below a later-created parent: creation order != current "
            "order) and on sources with a clone nested inside its own clone's branch followed by later children (depth 2-4); typed targets have "
            "siblings of mixed kinds; every copy API with its arguments OMITTED (defaults of deep/add_self/before) into the other tree and to "
            "every place of the source tree itself (a legal copy that is refused is a failure: the oracle derives the documented refusal reasons "
            "by pointers); targets = a Tree.copy() of the source whose nodes got new data objects under their old data_ids (set_data(new, "
            "data_id=same, with_clones=True)), copied into from the source; every history ends with the copy operation repeated; "
            "copies between trees of different classes (source / target in {Tree|TypedTree, a trivial subclass, a subclass overriding calc_data_id}) "
            "for every copy route in both directions; the four shortcuts append_child/prepend_child/prepend_sibling/append_sibling with a NODE or a TREE "
            "argument on every target node and inside the source tree (rendered for the model as the add_child call they stand for); (c) histories: source (exhaustive small, random 4-12 nodes with calc_data_id callbacks) + one "
            "copy operation + a metadata edit on a copied node and on a source node + a random mutation history of 4-25 operations on the "
            "source or on the copy (set_meta/clear_meta/update_meta, set_data, rename, sort, remove x keep_children x with_clones, "
            "remove_children, add, shortcuts, move, add(node), from_dict, filter, del); both sides are re-observed and re-checked after every step. "
            "distinct = distinct (universe, ops); non-trivial = a copy succeeded / some step changed the state")
    exhaustive_note = "every copy op x every argument on all source forests <= 3 nodes x 2 labelings x plain/typed (quick: a rotating fifth of the 3-node alternatives; thorough: also all forests of 4 nodes)"
    assumptions = ["identity of nodes is the allocation index recorded by a harness-side wrapper of Node.__init__",
                   "user callbacks (calc_data_id, sort key, filter predicate) are tables from objects/nodes to values that may raise",
                   "node references of generated ops are live (references to removed nodes are not public operations)"]
    trusted = ["harness/mut.py + harness/mut_c07.py (replayer, observation, pointer-level copy/independence oracle)"]
    manifest = dict(
        text=("Machine-checked theorems (Coq 8.16, no axioms) about the copy family of the executable model of the mutating API "
              "(Mut/Machine.v: add(node) shallow/deep, add(tree), copy_to with/without add_self and every `before`, Tree.copy, Node.copy). "
              "FAITHFUL, by induction on the recursive copy: the new branch equals the source branch once node identities are stripped (same data "
              "objects, data_ids, kinds, order, shape; the top node of a copy made through add_child gets the kind= argument or the default kind "
              "- the pinned behaviour D47, whose unrestricted statement is refuted by a vm_compute witness); add(tree) and copy_to(add_self=False) "
              "put the copies as ONE block in SOURCE order at the position `before` names (appended / prepended / at the index list.insert "
              "resolves / directly in front of the named child), also when source and target are the same tree. FRESH: the new identities are "
              "exactly next, next+1, ... in pre-order (all >= next, distinct, as many as source nodes); a copy carries no metadata; the tree built "
              "by Tree.copy/Node.copy and the world stay well-formed. SOURCE UNCHANGED: another tree - the state is identical; same tree - every "
              "row (parent, node, payload) is unchanged in unchanged order, the copy is one inserted block, and the source branch is the identical "
              "value unless the (shallow) copy was put inside it. INDEPENDENT: every operation, whatever its outcome, leaves every tree it does not "
              "work on exactly as it was (frame over histories), and no operation reads a tree outside its footprint = the tree it works on + the "
              "copy source (locality: same result and same tree in any two worlds agreeing on the footprint and the allocator) - so a history "
              "on the copy neither changes the source nor depends on it, and vice versa. The model is tied to /repo on every run: the "
              "implementation's full observable state of all trees after every step must equal the model's, and a pointer-walking oracle checks "
              "`is`/`is not` for nodes, data objects, child lists and metadata dicts on every copy and every later step."),
        note=("Trusted: Coq kernel + vm_compute; hand-written model Mut/Machine.v (tied by the correspondence only); harness/mut.py, mut_c07.py. "
              "DECIDED BY THEOREMS: faithfulness (strip_ids: same data objects, data_ids, kinds, order, shape) of every copy operation and every "
              "`before`; freshness of the new identities (next, next+1, ...; in no tree of a reachable world before); position of the copies; the "
              "copy step leaves every existing row of the target tree and the whole state of every other tree as it was; frame per tree (no "
              "operation writes a tree it does not work on) and locality (none reads outside its footprint) over histories; inside one tree the "
              "restricted frame C07_same_tree_frame. DECIDED BY THE HARNESS ORACLE ONLY (the model is a pure value model in which sharing of a "
              "`_children` list, a `_meta` dict or a Node object is not representable, so 'source untouched' and 'a later change does not leak' "
              "hold there by construction and the frame theorems carry no weight against aliasing): mut_c07.copy_oracle - every copied node is a "
              "new object, `copy._children is not src._children`, `copy._meta is not src._meta`, same data object by `is`, and every node object "
              "that existed before has the same data object / data_id / kind / meta dict object and content / parent / tree / children list "
              "OBJECT with the same elements in the same order (the caller-visible order of the source), also after a refused copy; "
              "mut_c07.independence_oracle (i) after every later step every tree the operation does not work on is pointer-identical, (ii) for "
              "same-tree copies branch-local operations inside one branch leave the other untouched; plus the correspondence of the full "
              "observable state of all trees after every step. SAME-TREE COPIES ARE CLONES of their source (same data_id): the English clause "
              "'later changes to either side are never visible in the other' is false as written for them - remove(with_clones=True) / "
              "set_data(with_clones=True) on one reaches the other (Example C07_same_tree_copy_is_a_clone); this is the library's documented clone "
              "semantics, not a defect; stated instead: full independence across different trees, and inside one tree for the operations that do "
              "not name clones and work outside the other branch. The model describes the code as repaired by fixes/ incl. D20-D23, D06/D44 and "
              "D70 (found here). Known finding D47 (top node of a typed copy made through add_child gets the default kind; pinned by the suite) "
              "is modelled, excluded explicitly in the theorems, expected exactly by the oracle and reported as KNOWN-FINDING. Metadata is not "
              "copied by the library (a copy starts without). copy_to(add_self=False) is only called with before=None (the library asserts it; "
              "the model ignores `before` there). The oracle checks the block position for every `before` form "
              "(None/False: appended, True/0: first, node: directly in front, index: where list.insert() resolves it against the old list)."),
        technique="Coq proof about an executable Gallina model + differential correspondence check (vm_compute) + Python oracle",
        design_ref="DESIGN.md section 6 (C07), 3.2, 3.4",
    )

    # ------------------------------------------------------------------
    def descs(self, tier, rng):
        for c in M.CORPUS7:
            yield dict(kind="hist", univ=c["univ"], ops=c["ops"], corpus=c["id"])
        quick = tier == "quick"
        groups = list(M.gen_groups(3, full=not quick))
        if not quick:
            groups += list(M.gen_groups(4, nmin=4, labelings=("mixed",)))
        # deeper shapes (depth 3, two grandchildren; a chain of 4): thorough = all five x everything,
        # quick = three of them (two grandchildren, a chain of 4, three grandchildren), 'mixed' labeling, every 8th alternative
        groups += list(M.gen_groups(0, shapes=[M.EXTRA_SHAPES[i] for i in (0, 1, 3)] if quick else M.EXTRA_SHAPES,
                                    labelings=("mixed",), full=not quick))
        if quick:
            # quick: the 'equal' labeling (identity vs equality of data objects) only on the sources with <= 2 nodes
            groups = [g for g in groups if not (g["n"] == 3 and g["label"].startswith("equal"))]
        for gi, g in enumerate(groups):
            alts = g["alts"]
            if quick and g["n"] > 3:
                alts = [a for i, a in enumerate(alts) if i % 8 == gi % 8]
            elif quick and g["n"] == 2:
                alts = [a for i, a in enumerate(alts) if i % 2 == gi % 2]
            elif quick and g["n"] == 3:
                # quick tier: every 9th alternative per group, the offset moves with the group (the union over the
                # 20 groups of 3-node sources still covers every alternative; the thorough tier runs all of them)
                alts = [a for i, a in enumerate(alts) if i % 9 == gi % 9]
            for i in range(0, len(alts), CHUNK):
                yield dict(kind="alts", univ=g["univ"], setup=g["setup"], alts=alts[i:i + CHUNK], label=g["label"])
        # sources REACHED THROUGH A HISTORY (creation order != current order: front inserts, sort(reverse), moves - also
        # below a parent created later) and sources with a clone nested inside its own clone's branch followed by later
        # children; on them every copy of whole branches / of the whole tree, every `before` of add(tree)
        hist_groups = list(M.gen_groups(3 if quick else 4, nmin=2, labelings=("mixed",), reorders=("A", "B", "C")))
        if quick:
            # quick: two of the three re-ordering variants per 3-node source, rotating (the 2-node sources get all three)
            hist_groups = [g for i, g in enumerate(hist_groups) if g["n"] < 3 or i % 3 != (i // 3) % 3]
        hist_groups += list(M.gen_nested_groups(reorders=(None, "B") if quick else (None, "A", "B", "C")))
        if not quick:
            hist_groups += list(M.gen_groups(0, shapes=M.EXTRA_SHAPES, labelings=("mixed",), reorders=("A", "B", "C")))
        # every copy API called with its arguments OMITTED (deep / add_self / before defaults), also to every place inside the
        # source's own branch (legal for shallow copies); and targets that hold ANOTHER object under the source's data_ids
        # (the target is a Tree.copy() of the source whose nodes got new data objects under their old data_ids)
        hist_groups += list(M.gen_default_groups(3))
        hist_groups += list(M.gen_versioned_groups(3, typed=(False, True) if not quick else (False,))) + (list(M.gen_versioned_groups(2, typed=(True,))) if quick else [])
        # copies between trees of DIFFERENT classes (Tree / TypedTree, a trivial subclass, a subclass overriding calc_data_id),
        # every copy route in both directions
        hist_groups += list(M.gen_class_groups([(((),), ())] if quick else [(((),), ()), ((), ((), ())), ((((),),),)]))
        for g in hist_groups:
            for i in range(0, len(g["alts"]), 64):
                yield dict(kind="alts", univ=g["univ"], setup=g["setup"], alts=g["alts"][i:i + 64], label=g["label"])
        groups = groups + hist_groups
        # histories on small sources: every k-th copy alternative followed by a mutation tail
        stride = 149 if quick else 26
        j = 0
        for g in groups:
            # (no mutation tails on the class-mix sources: a Tree.copy() of a subclass that overrides calc_data_id is again of that
            # class, the model gives every copy the default id callback - later add_child(data) calls would differ for that reason)
            if g["n"] < 2 or g["label"].startswith("classes"):
                continue
            for a in g["alts"]:
                j += 1
                if j % stride:
                    continue
                h, _ = M.gen_history(rng, g["setup"], a, rng.randint(4, 10), univ=g["univ"])
                yield dict(kind="hist", univ=h["univ"], ops=h["ops"], check_from=len(g["setup"]))
        # larger random sources
        for i in range(18 if quick else 300):
            setup, n, typed = M.random_source(rng, 4, 8 if quick else 12)
            h, _ = M.gen_history(rng, setup, M.random_copy_op(rng, n, typed), rng.randint(6, 14 if quick else 25),
                                 reorder=rng.randint(0, 4))
            yield dict(kind="hist", univ=h["univ"], ops=h["ops"], check_from=len(setup))

    def shrink_candidates(self, desc):
        if desc["kind"] == "alts":
            for alt in desc["alts"]:
                yield dict(kind="hist", univ=desc["univ"], ops=desc["setup"] + [alt])
            return
        for h in M.shrink7(dict(univ=desc["univ"], ops=desc["ops"])):
            yield dict(kind="hist", univ=h["univ"], ops=h["ops"])

    def run(self, desc) -> Case:
        if desc["kind"] == "alts":
            term, obs, runs = M.run_group7(desc)
            fails = [(r.steps[-1]["op"], f) for r in runs for f in r.fails]
            copies = sum(r.stats.get("_copies", 0) for r in runs)
            kinds = {}
            for r in runs:
                op, res = r.steps[-1]["op"], r.steps[-1]["res"]
                k = op[0] + ("" if res[0] == 0 else ":" + H.ERR_NAMES.get(res[1], str(res[1])))
                kinds[k] = kinds.get(k, 0) + 1
            top = max(kinds, key=kinds.get) if kinds else ""
            stats = dict(kind="copy-op group", label=desc.get("label", ""), most_frequent=top,
                         copied_share=round(copies / max(1, len(runs)), 1))
            nontrivial = copies > 0
        else:
            r = M.replay7(dict(univ=desc["univ"], ops=desc["ops"]), check_from=desc.get("check_from", 0))
            term, obs = mut.coq_case(r), r.obs
            fails = [(r.steps[si]["op"], (si, n, m)) for si, n, m in r.fails]
            changed = sum(1 for s in r.steps if s["before"] != s["after"])
            errs = sum(1 for s in r.steps if s["res"][0] == 1)
            ntrees = len(r.steps[-1]["after"]) if r.steps else 0
            stats = dict(kind="history", length=len(desc["ops"]) // 10 * 10, trees=ntrees, copies=min(r.stats.get("_copies", 0), 3),
                         copied_nodes=r.stats.get("_pairs", 0) // 4 * 4, errors=errs // 3 * 3)
            nontrivial = changed > 0 and r.stats.get("_copies", 0) > 0
        fail = finding = None
        real = [f for f in fails if f[1][1] not in ("D47", "D71")]
        if real:
            op, (si, name, msg) = real[0]
            fail = f"{name}: {msg} [step {si}: {op}]"
        elif fails:
            # only the pinned deviation D47 (top node of a typed copy gets the default kind): a known finding
            op, (si, name, msg) = fails[0]
            fail, finding = f"{name}: {msg} [step {si}: {op}]", name
        return Case(desc=desc, coq_input=term, impl_obs=obs, oracle_fail=fail, finding=finding, nontrivial=nontrivial,
                    key=H.digest([desc["univ"], desc.get("setup"), desc.get("alts"), desc.get("ops")]), stats=stats)


PROP = Prop()
CORPUS = M.CORPUS7
