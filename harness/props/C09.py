"""C09 — searches return exactly the matching nodes, in order, within the limit;
index access (tree[key], key in tree, del tree[key]) resolves node_id -> data_id -> data.

One case = one tree (built from a description, then shuffled by moves / removals /
late additions so that the insertion-ordered clone index is NOT the pre-order), a
table of matchers (regular expressions evaluated by the real `re` into truth tables
over the node names, callbacks as truth tables over node identities, identity
matches) and a list of queries.  The model receives forest + registry + clone index
as observed from the implementation (`_node_by_id`, `_nodes_by_data_id`).
The oracle recomputes every answer from `_children` pointers only.
"""
from __future__ import annotations

import random
import re

import build as B
import common as H
from common import Case, Node

UNIV = ["s:a", "s:b", "s:ab", "s:A", "i:7", "i:0", "e:1", "e:1", "p:1", "s:", "t:1,2", "s:a1", "i:3",
        # data flavours whose str() / repr() / format() are three different strings, str subclasses, objects equal to a str
        "f:1", "f:1", "f:2", "u:a", "q:a", "u:b"]


def doc_name(obj) -> str:
    """THE name of a node, from the clean definition of `Node.name` (``f"{self.data}"``): format(data, "") -
    computed from the data object, never through the implementation's `node.name`."""
    return format(obj, "")


class Fmt:
    """Value object with independently overridden __str__, __repr__, __format__ (all different); value equality."""

    def __init__(self, v):
        self.v = v

    def __str__(self):
        return f"s{self.v}"

    def __repr__(self):
        return f"r{self.v}"

    def __format__(self, spec):
        return f"f{self.v}"

    def __eq__(self, other):
        return isinstance(other, Fmt) and self.v == other.v

    def __hash__(self):
        return hash(("Fmt", self.v))


class SFmt(str):
    """A str subclass (equal to and hashing like the plain string) with its own __str__ / __repr__ / __format__."""

    def __str__(self):
        return str.upper(self) + "!"

    def __repr__(self):
        return "<" + str.__str__(self) + ">"

    def __format__(self, spec):
        return "~" + str.__str__(self)


class LikeStr:
    """Not a str, but equal to the plain string and hashing like it; str() is the string, repr() is not."""

    def __init__(self, s):
        self.s = s

    def __eq__(self, other):
        return (isinstance(other, str) and other == self.s) or (isinstance(other, LikeStr) and other.s == self.s)

    def __hash__(self):
        return hash(self.s)

    def __str__(self):
        return self.s

    def __repr__(self):
        return f"LikeStr({self.s!r})"


def make_universe(specs):
    objs = []
    for sp in specs:
        k, _, v = sp.partition(":")
        if k == "f":
            objs.append(Fmt(int(v)))
        elif k == "u":
            objs.append(SFmt(v))
        elif k == "q":
            objs.append(LikeStr(v))
        else:
            objs.append(B.make_obj(sp))
    return H.Universe(objs)

# ---------------------------------------------------------------------------
# Regular expressions as SYNTAX TREES.  The pattern string handed to nutree (and to the real `re` for the oracle) is
# rendered from the tree; the Coq model receives the tree and decides `fullmatch` with its own engine (Regex.v).
#   ("eps",) ("chr", c) ("any",) ("digit",) ("set", neg, [(lo, hi), ...]) ("cat", a, b) ("alt", a, b)
#   ("star", a) ("plus", a) ("opt", a)
# ---------------------------------------------------------------------------
def rx_render(t, ctx="top"):
    k = t[0]
    if k == "eps":
        return ""
    if k == "chr":
        return re.escape(t[1])
    if k == "any":
        return "."
    if k == "digit":
        return r"\d"
    if k == "set":
        return "[" + ("^" if t[1] else "") + "".join(re.escape(lo) if lo == hi else f"{lo}-{hi}" for lo, hi in t[2]) + "]"
    if k == "cat":
        s = rx_render(t[1], "cat") + rx_render(t[2], "cat")
        return f"(?:{s})" if ctx == "rep" else s
    if k == "alt":
        s = rx_render(t[1], "alt") + "|" + rx_render(t[2], "alt")
        return f"(?:{s})" if ctx in ("cat", "rep") else s
    if k in ("star", "plus", "opt"):
        return rx_render(t[1], "rep") + {"star": "*", "plus": "+", "opt": "?"}[k]
    raise ValueError(t)


def rx_coq(t):
    k = t[0]
    if k == "eps":
        return "REps"
    if k == "chr":
        return f"(RChr {ord(t[1])})"
    if k == "any":
        return "RAny"
    if k == "digit":
        return "RDigit"
    if k == "set":
        return f"(RCls {H.coq_bool(t[1])} {H.coq_list(f'({ord(lo)}, {ord(hi)})' for lo, hi in t[2])})"
    if k in ("cat", "alt"):
        return f"({'RCat' if k == 'cat' else 'RAlt'} {rx_coq(t[1])} {rx_coq(t[2])})"
    if k in ("star", "plus", "opt"):
        return f"({ {'star': 'RStar', 'plus': 'RPlus', 'opt': 'ROpt'}[k] } {rx_coq(t[1])})"
    raise ValueError(t)


def _c(ch):
    return ("chr", ch)


_ANYSTAR = ("star", ("any",))
# (syntax tree | raw pattern string, flags, form)   form: how the match argument is passed to nutree
REGEXES = [
    (_c("a"), 0, "str"), (("cat", _c("a"), _ANYSTAR), 0, "str"), (("cat", _ANYSTAR, _c("b")), 0, "str"),
    (("plus", ("set", False, [("a", "a"), ("b", "b")])), 0, "str"), (("any",), 0, "str"), (("eps",), 0, "str"),
    (_c("a"), re.IGNORECASE, "tuple"), (("cat", _ANYSTAR, ("digit",)), 0, "list"),
    (("alt", _c("b"), ("cat", _c("E"), _c("1"))), 0, "str"), (_ANYSTAR, 0, "str"), (_c("x"), 0, "str"),
    (("star", ("cat", _c("a"), _c("b"))), 0, "str"), (("cat", ("opt", _c("a")), _c("b")), 0, "tuple"),
    (("plus", ("set", True, [("a", "a")])), 0, "str"), (("cat", ("set", False, [("a", "z")]), ("opt", ("digit",))), re.IGNORECASE, "list"),
    # outside the modelled syntax: truth-table path
    ("a{1,2}b?", 0, "str"), ("(?i)ab?", 0, "str"), (r"\w\d", 0, "list"),
]
PREDS = ["true", "false", "leaf", "depth_odd", "pos_mod3", "has_kids_list", "name_nonempty", "is_clone", "none"]


def make_pred(name, ctx):
    """Callbacks: pure functions of the node (public attributes only)."""
    pos = ctx["pos"]
    if name == "true":
        return lambda n: True
    if name == "false":
        return lambda n: False
    if name == "leaf":
        return lambda n: not n.children
    if name == "depth_odd":
        return lambda n: n.depth() % 2 == 1
    if name == "pos_mod3":
        return lambda n: pos[id(n)] % 3 == 0
    if name == "has_kids_list":        # truthy / falsy non-bool answers
        return lambda n: list(n.children)
    if name == "name_nonempty":
        return lambda n: n.name
    if name == "is_clone":
        return lambda n: n.is_clone()
    if name == "none":
        return lambda n: None
    raise ValueError(name)


def call(fn):
    try:
        return [0, fn()]
    except Exception as e:  # noqa: BLE001
        return [1, H.err_class(e)]


def calc_of(desc, obj):
    """calc_data_id(obj), computed without the tree; None when it raises TypeError."""
    try:
        fn = B.calc_fn(desc.get("calc"))
        return fn(None, obj) if fn else hash(obj)
    except TypeError:
        return None


# ---------------------------------------------------------------------------
# tree construction
# ---------------------------------------------------------------------------
_APPLY: dict = {}       # id(tree) -> closure applying further ops to that tree (phases)
_APPLY_KEEP: list = []


def build_tree(desc, U=None):
    U = U or make_universe(desc["univ"])
    tree = B.new_tree(desc)
    typed = bool(desc.get("typed"))
    created = []
    uniq = [0]

    rev = bool(desc.get("rev"))

    def add(parent, lbl, kind, did, node_id, before=None):
        obj = U.objs[lbl % len(U.objs)]
        eff = did if did is not None else calc_of(desc, obj)
        sibs = parent._children or []
        if any(c._data_id == eff for c in sibs):
            uniq[0] += 1
            did = f"u{uniq[0]}"
        kw = {}
        if typed:
            kw["kind"] = kind if kind is not None else "child"
        if did is not None:
            kw["data_id"] = did
        if node_id and node_id not in tree._node_by_id:   # 0 is refused by an assertion in _register
            kw["node_id"] = node_id
        if before is not None:
            kw["before"] = before
        n = parent.add(obj, **kw)
        created.append(n)
        return n

    def go(parent, nodes):
        # rev: siblings are created last-to-first and prepended, so that the insertion order of the
        # clone index (and of the registry) is not the pre-order of the finished tree
        for nd in (reversed(nodes) if rev else nodes):
            lbl, kind, did, kids = nd[0], nd[1], nd[2], nd[3]
            node_id = nd[4] if len(nd) > 4 else None
            n = add(parent, lbl, kind, did, node_id, True if rev else None)
            go(n, kids)

    go(tree._root, desc["nodes"])

    def alive(n):
        return n._tree is tree and n._parent is not None

    def in_branch(x, top):
        while x is not None:
            if x is top:
                return True
            x = x._parent
        return False

    def apply_ops(ops):
        for op in ops:
            if not created:
                break
            if op[0] in ("mv", "mvc"):
                if typed:          # TypedNode.move_to is not implemented
                    continue
                if op[0] == "mvc":     # a node that has a clone created later: moving it behind that clone makes index order != pre-order
                    cands = [n for i, n in enumerate(created) if alive(n) and
                             any(alive(m) and m._data_id == n._data_id and type(m._data_id) is type(n._data_id) for m in created[i + 1:])]
                    if not cands:
                        continue
                    src = cands[op[1] % len(cands)]
                    op = ["mv", 0, op[2], None]
                else:
                    src = created[op[1] % len(created)]
                tgt = tree._root if op[2] < 0 else created[op[2] % len(created)]
                if not alive(src) or has_equal_sibling(src) or (tgt is not tree._root and not alive(tgt)) or in_branch(tgt, src):
                    continue
                if any(c._data_id == src._data_id and c is not src for c in (tgt._children or [])):
                    continue
                before = op[3]
                if before is not None:
                    n_ch = len(tgt._children or [])
                    if n_ch == 0:
                        before = None
                    else:
                        before = before % n_ch
                src.move_to(tree if tgt is tree._root else tgt, before=before)
            elif op[0] == "rm":
                src = created[op[1] % len(created)]
                if alive(src) and not has_equal_sibling(src):
                    src.remove()
            elif op[0] == "add":
                tgt = tree._root if op[1] < 0 else created[op[1] % len(created)]
                if tgt is not tree._root and not alive(tgt):
                    continue
                add(tgt, op[2], "child" if typed else None, op[3], op[4] if len(op) > 4 else None)
            # --- re-ordering / re-keying mutators (nothing is registered or unregistered) ---
            elif op[0] == "sort":
                tree.sort(reverse=bool(op[1]), deep=bool(op[2]))
            elif op[0] == "sortc":
                src = created[op[1] % len(created)]
                if alive(src):
                    src.sort_children(reverse=bool(op[2]), deep=bool(op[3]))
            elif op[0] in ("setdata", "setid", "rename"):
                src = created[op[1] % len(created)]
                if not alive(src):
                    continue
                try:        # refusals (uniqueness, ambiguous clone decision, not a str node) leave the tree unchanged
                    if op[0] == "setdata":
                        src.set_data(U.objs[op[2] % len(U.objs)], data_id=op[3], with_clones=op[4])
                    elif op[0] == "setid":
                        src.set_data(None, data_id=op[2], with_clones=op[3])
                    else:
                        src.rename(op[2])
                except Exception:  # noqa: BLE001
                    pass

    apply_ops(desc.get("ops", []))
    _APPLY[id(tree)] = apply_ops
    _APPLY_KEEP.append(tree)
    return tree, U


def has_equal_sibling(n):
    """D02 (list.remove(self) is an equality search) is another property's defect: moves/removals of a node
    that has an equal-comparing sibling are kept out of this property's domain."""
    return any(c is not n and c._data == n._data for c in (n._parent._children or []))


def walk(n):
    out = []
    for c in (n._children or []):
        out.append(c)
        out.extend(walk(c))
    return out


# ---------------------------------------------------------------------------
# Coq rendering
# ---------------------------------------------------------------------------
# per-case local node identities 1..n (smaller case files than the global allocation index; nodes are kept
# alive by the harness, so id() is never reused)
_LOCAL: dict[int, int] = {}


def lid(node) -> int:
    k = id(node)
    if k not in _LOCAL:
        _LOCAL[k] = len(_LOCAL) + 1
    return _LOCAL[k]


def coq_rt(node, U):
    return f"(Tz {lid(node)} {H.coq_info(node, U)} {H.coq_list(coq_rt(c, U) for c in (node._children or []))})"


def did_ix(st, d):
    """index of a data_id in the case's table (None stays None)"""
    if d is None:
        return None
    if isinstance(d, bool):
        d = int(d)
    key = (isinstance(d, str), d)
    tab = st["dids"]
    if key not in tab:
        tab[key] = len(tab)
    return tab[key]


def c_oz(v):
    return "None" if v is None else f"(Some {H.z(v)})"


def key_coq(kobj, calc):
    cd = None if calc is None else H.coq_did(calc)
    if isinstance(kobj, Node):
        return f"(KNode {'None' if cd is None else '(Some ' + cd + ')'})"
    if kobj is None:
        return "KNone"
    if isinstance(kobj, int):
        return f"(KInt {H.z(int(kobj))} {cd})"
    if isinstance(kobj, str):
        return f"(KStr {H.coq_text(kobj)} {cd})"
    return f"(KObj {cd})"


class Prop:
    id = "C09"
    coq_prop = "Properties/C09.v"
    case_module = "CaseC09"
    case_vo = "theories/Cases/CaseC09.vo"
    run_fn = "run09s"
    shard = 19
    rule = ("trees with clones: every ordered forest with <= N nodes (N=4 quick, 5 thorough) under 7 labelings (data objects whose str/repr/format differ, str subclasses and objects equal to a plain str; distinct strings; clones in "
            "different parents; all leaves clones of each other; equal-comparing objects; explicit int/str data_ids and node_ids colliding with int data; falsy data 0 / '') "
            "x {as built, siblings created last-to-first, a clone removed / re-added / moved, a clone moved behind its later clone} plus seeded random trees (<= 14 nodes quick, <= 30 "
            "thorough; plain and typed; default, name-based and hash-mod-7 calc_data_id) shuffled by random moves/removals/additions so the "
            "clone index order differs from pre-order; per tree: Node.find_all/find_first from every node x 18 regular expressions (15 sent to the model as syntax trees - str, "
            "(str,flags), [str,flags], IGNORECASE - and decided by the model's own fullmatch; 3 outside the modelled syntax as truth tables) + 9 callbacks + identity matches x add_self x max_results in {None,0,1..5}; the same by data and "
            "data_id (present, absent, falsy); Tree.find_all/find_first by match, data, data_id, node_id x max_results; argument conflicts; "
            "Node.is_clone / get_clones of every node; HISTORIES ON ONE TREE OBJECT: on the largest and the random trees the queries are asked, the same tree is re-ordered / re-keyed "
            "(move_to, Tree.sort, sort_children, set_data, rename - nothing registered or unregistered) and all tree-wide searches, a "
            "node-level sweep, clone queries and index access are asked again, up to two times; "
            "tree[key], key in tree, del tree[key] for every key kind (data object, int/str data_id, node_id, float/bool/tuple, absent, "
            "ambiguous, None, a Node).  A case is one tree with all its queries; distinct = distinct (universe, nodes, ops, calc); "
            "non-trivial = >= 3 nodes and a clone group of size >= 2")
    exhaustive_note = "all shapes <= N nodes (N=4 quick) x 7 labelings x 4 shuffles, every start node, every matcher, k in {None,1,2,3}"
    assumptions = [
        "identity of nodes is the allocation index recorded by a harness-side wrapper of Node.__init__",
        "patterns inside the modelled regex syntax (literals, `.`, sets/ranges/negated sets, \\d, concatenation, |, *, +, ?, IGNORECASE on "
        "ASCII) are sent to the model as syntax trees and decided by the model's own fullmatch (proved = membership of the whole name in "
        "the pattern's language); the pattern STRING is rendered from the tree, `re`'s parser is trusted to read it back as that tree",
        "patterns outside that syntax: re.fullmatch is a pure predicate of the node name (the harness evaluates the real `re` and passes "
        "the truth table)",
        "callbacks are pure predicates of the node",
        "a node's name (the model's i_name) is format(data, '') - the clean definition f\"{self.data}\" of Node.name - computed by the "
        "harness from the data object; node.name is observed for every node and compared with it (data objects whose str / repr / "
        "format differ), and every node must be found by a pattern search for its own escaped name",
        "registry and clone index are read from tree._node_by_id / tree._nodes_by_data_id; their well-formedness (hypothesis of the "
        "index-path theorems) is decided by the model's state_wf_b on every case",
        "max_results >= 0 (None and 0 mean unlimited); negative limits are outside the property",
    ]
    manifest = dict(
        text=("Machine-checked theorems (Coq 8.16, no axioms) about an executable model of Node._search/find_all/find_first, "
              "Tree.find_all/find_first, Tree.__getitem__/__contains__/__delitem__ (read side): a pattern or callback search from any "
              "start node returns exactly the nodes of the searched branch that match, as a subsequence of its pre-order, cut to the "
              "first k; find_first is the head of that list; lookups through the clone index return k distinct nodes carrying the "
              "data_id (all of them, as a permutation, without a limit) whenever the index is well formed; tree[key] resolves node_id, "
              "then data_id, then data and answers KeyError / the node / AmbiguousMatchError according to the number of nodes carrying "
              "the id, ValueError for a Node key.  Tied to /repo on every run by a correspondence check (model evaluated by vm_compute "
              "on forest + registry + index observed from the implementation) and a pointer-walking Python oracle."),
        note=("Trusted: Coq kernel + vm_compute; hand-written model theories/Forest/Search.v + Regex.v (tied by the correspondence only); harness; "
              "callbacks as pure predicates; `re` only as the parser of the rendered pattern strings and for the three patterns outside the "
              "modelled syntax ('name FULLY matches' is a theorem: fullmatchb <-> the whole name is in the language; re.match = some prefix, "
              "shown different).  Not modelled: flags other than IGNORECASE, Unicode case folding / digit classes, negative max_results, "
              "the system root with add_self.  The pre-order of a branch is Rose.v's structural `pre`/`pre_f`; the model's "
              "traversal mirrors Node._iter_pre and is proved equal to it.  Print Assumptions: closed under the global context."),
        technique="Coq proof about an executable Gallina model + differential correspondence check (vm_compute) + Python oracle",
        design_ref="DESIGN.md section 6 (C09)",
    )

    # ----- generation ------------------------------------------------------
    def descs(self, tier, rng):
        # the larger random cases are spread evenly over the shards
        small, big = [], []
        for d in self._descs(tier, rng):
            (big if d.get("mode") == "sample" else small).append(d)
        step = max(1, len(small) // max(1, len(big)))
        out = []
        for i, d in enumerate(small):
            out.append(d)
            if i % step == step - 1 and big:
                out.append(big.pop())
        yield from out + big

    def _descs(self, tier, rng):
        yield from CORPUS
        nmax = 4 if tier == "quick" else 5
        ks = [None, 1, 2, 3] if tier == "quick" else [None, 0, 1, 2, 4]
        labelings = [
            lambda i, d, s, *_: (i % 4, None, None, None),                       # distinct strings a b ab A
            lambda i, d, s, *_: ((d + s) % 3, None, None, None),                 # clones in different parents
            lambda i, d, s, *_: (6 + (i % 2), None, None, None),                 # equal-comparing distinct objects (one clone group)
            lambda i, d, s, *_: ([4, 0, 12, 4, 1][i % 5], None, [None, 7, None, "a", 3][i % 5], [3, 1, 7, None, 11][i % 5]),
            lambda i, d, s, *_: ([5, 9, 0, 5, 9][i % 5], None, [None, None, 0, None, ""][(i + d) % 5], None),   # falsy data / data_id
            lambda i, d, s, t: ((1 if not t else [0, 2, 3, 11][d % 4]), None, None, None),    # every leaf carries the same data
            # str() / repr() / format() all different, a str subclass and a non-str object equal to the plain string "a"
            lambda i, d, s, *_: ([13, 16, 0, 17, 14, 15, 18][(i + d) % 7], None, None, None),
        ]
        shuffles = [([], False), ([], True), ([["rm", 1], ["add", 0, 1, None, 7], ["mvc", 1, -1], ["mv", 2, 0, 0]], False),
                    ([["mvc", 0, -1]], True)]
        for n in range(0, nmax + 1):
            for shi, shape in enumerate(H.forests(n)):
                for li, lab in enumerate(labelings):
                    for si, (ops, rev) in enumerate(shuffles):
                        if n == 0 and (li or si):
                            continue
                        # largest size: one shuffle per labeling, rotating; the clone-heavy labelings always get the
                        # reversed creation order as well (index order != pre-order inside one branch)
                        if n >= nmax and n >= 4 and si != (li + shi) % 4 and not (li in (1, 5) and si == 1):
                            continue
                        if n >= 4 and ((li == 6 and shi % 2) or (li == 0 and not shi % 2)):
                            continue                           # largest size: the plain-string and the str/repr/format labelings share the shapes
                        if n <= 2 and si >= 2:                 # tiny trees: as built / reversed only
                            continue
                        if 2 < n < nmax and si % 2 != (li + shi) % 2:   # middle sizes: two of the four shuffles, rotating
                            continue
                        nodes = _label(shape, lab)
                        d = dict(univ=UNIV, calc=None, typed=False, nodes=nodes, ops=ops, rev=rev, mode="full", ks=_k(ks))
                        if n >= 3 and si == 0:      # query - mutate - query again on the same tree object
                            d["phases"] = PHASES[(li + shi) % len(PHASES)][: (2 if n >= nmax else 1)]
                        yield d
        # typed trees (TypedNode / TypedTree share the search code; the system root and add() differ)
        for n in range(1, 4 if tier == "quick" else 5):
            for shi, shape in enumerate(H.forests(n)):
                nodes = _label(shape, lambda i, d, s, t: ((1 if not t else [0, 2, 3][d % 3]), ["x", "y"][(i + s) % 2], None, None))
                yield dict(univ=UNIV, calc=None, typed=True, nodes=nodes, ops=[], rev=bool(shi % 2), mode="full", ks=_k(ks),
                           phases=([[["sort", bool(shi % 2), True]], [["sortc", 0, True, False], ["rename", 1, "a"]]] if n >= 2 else []))
        nrand = 30 if tier == "quick" else 160
        nmaxr = 14 if tier == "quick" else 30
        for j in range(nrand):
            n = rng.randint(5, nmaxr)
            shape = H.random_shape(rng, n, deep=rng.choice([0.2, 0.5, 0.85]))
            nl = rng.choice([3, 5, len(UNIV)])
            labs = [rng.randrange(nl) for _ in range(n)]
            dids = [rng.choice([None, None, None, 7, 3, 0, "a", "k", ""]) if rng.random() < 0.3 else None for _ in range(n)]
            nids = [rng.choice([1, 3, 7, 11, 12]) if rng.random() < 0.2 else None for _ in range(n)]
            typed = rng.random() < 0.25
            kinds = [rng.choice(["x", "y"]) if typed else None for _ in range(n)]
            nodes = _label(shape, lambda i, d, s, *_: (labs[i], kinds[i], dids[i], nids[i]))
            ops = []
            for _ in range(rng.randint(0, 8)):
                r = rng.random()
                if r < 0.3:
                    ops.append(["mvc", rng.randrange(n), rng.choice([-1, -1] + list(range(n)))])
                elif r < 0.6:
                    ops.append(["mv", rng.randrange(n), rng.choice([-1] + list(range(n))), rng.choice([None, None, 0, 1])])
                elif r < 0.75:
                    ops.append(["rm", rng.randrange(n)])
                else:
                    ops.append(["add", rng.choice([-1] + list(range(n))), rng.randrange(nl), rng.choice([None, None, 7, "a"]),
                                rng.choice([None, None, 5])])
            calc = rng.choice([None, None, "name", "mod7"])
            # an identity-hashed object has a different hash in every process: under hash-mod-7 ids the clone structure
            # would not be reproducible from the description, so a value-hashed dataclass takes its place there
            univ = [("d:1" if u == "p:1" else u) for u in UNIV] if calc == "mod7" else UNIV
            phases = []
            for _ in range(rng.randint(1, 2)):
                ph = []
                for _ in range(rng.randint(1, 3)):
                    r = rng.random()
                    if r < 0.35:
                        ph.append(["mv", rng.randrange(n), rng.choice([-1] + list(range(n))), rng.choice([None, 0, 0, 1])])
                    elif r < 0.5:
                        ph.append(["sort", rng.random() < 0.5, rng.random() < 0.7])
                    elif r < 0.65:
                        ph.append(["sortc", rng.randrange(n), rng.random() < 0.5, rng.random() < 0.5])
                    elif r < 0.8:
                        ph.append(["setdata", rng.randrange(n), rng.randrange(nl), rng.choice([None, None, 7, "a"]),
                                   rng.choice([None, True, False])])
                    elif r < 0.9:
                        ph.append(["setid", rng.randrange(n), rng.choice([7, 3, "a", "k", 0]), rng.choice([None, True, False])])
                    else:
                        ph.append(["rename", rng.randrange(n), rng.choice(["a", "b", "ab", "zz"])])
                phases.append(ph)
            yield dict(univ=univ, calc=calc, typed=typed, nodes=nodes, ops=ops, rev=rng.random() < 0.5, phases=phases,
                       mode="sample", qseed=rng.randrange(1 << 30), nq=48 if tier == "quick" else 80,
                       ks=_k([None, 0, 1, 2, 3, 4, 5]))

    def shrink_candidates(self, desc):
        phases = desc.get("phases", [])
        for i in range(len(phases)):
            yield dict(desc, phases=phases[:i] + phases[i + 1:])
            for j in range(len(phases[i])):
                if len(phases[i]) > 1:
                    yield dict(desc, phases=phases[:i] + [phases[i][:j] + phases[i][j + 1:]] + phases[i + 1:])
        ops = desc.get("ops", [])
        for i in range(len(ops)):
            yield dict(desc, ops=ops[:i] + ops[i + 1:])
        for nodes in _drop_one(desc["nodes"]):
            yield dict(desc, nodes=nodes)
        if desc.get("calc"):
            yield dict(desc, calc=None)
        if desc.get("rev"):
            yield dict(desc, rev=False)
        if desc.get("typed"):
            yield dict(desc, typed=False)

    # ----- one case ---------------------------------------------------------
    def run(self, desc) -> Case:
        """One tree object; phase 0 asks every query on the tree as built, every later phase first mutates the SAME
        tree (moves, sorts, set_data / rename: nothing is registered or unregistered) and asks again.  Every phase is
        one model case (the state observed at that moment); the observation is the list of the phases' answers."""
        _LOCAL.clear()
        tree, U = build_tree(desc)
        parts = [self.one_phase(tree, U, desc, later=False)]
        for ops in desc.get("phases", []):
            _APPLY[id(tree)](ops)
            parts.append(self.one_phase(tree, U, desc, later=True))
        _APPLY.pop(id(tree), None)
        # the text before the first ':' is the category failing inputs are grouped by
        fails = [(f.replace(": ", f" on the same tree after mutation (phase {i}): ", 1) if i else f)
                 for i, pt in enumerate(parts) for f in pt["fails"]][:3]
        st0 = parts[0]["stats"]
        stats = dict(st0, phases=len(parts), queries=(sum(pt["nsub"] for pt in parts) // 100) * 100)
        return Case(desc=desc, coq_input=H.coq_list(pt["coq"] for pt in parts), impl_obs=[[True, pt["obs"]] for pt in parts],
                    oracle_fail="; ".join(fails) or None, nontrivial=st0.pop("_nontrivial"),
                    key=H.digest([desc["univ"], desc["nodes"], desc.get("ops"), desc.get("calc"), desc.get("typed"), desc.get("rev"),
                                  desc.get("phases")]),
                    stats={k: v for k, v in stats.items() if not k.startswith("_")})

    def one_phase(self, tree, U, desc, later):
        nodes = walk(tree._root)
        for n in nodes:
            lid(n)
        ctx = dict(pos={id(n): i for i, n in enumerate(nodes)})
        names = sorted({doc_name(n._data) for n in nodes})

        # --- matchers: python objects + truth tables
        matchers = []          # (python match argument, coq term, predicate for the oracle)
        for rxt, flags, form in REGEXES:
            pat = rxt if isinstance(rxt, str) else rx_render(rxt)
            rx = re.compile(pat, flags)
            arg = pat if form == "str" else ((pat, flags) if form == "tuple" else [pat, flags])
            if isinstance(rxt, str):        # arbitrary pattern: the real `re` supplies the truth table
                term = "(MRe " + H.coq_list(H.coq_text(s) for s in names if rx.fullmatch(s)) + ")"
            else:                           # modelled syntax: the model decides fullmatch itself
                term = f"(MRx {H.coq_bool(form != 'str')} {H.coq_bool(bool(flags & re.IGNORECASE))} {rx_coq(rxt)})"
            matchers.append((arg, term, (lambda rx: lambda n: rx.fullmatch(doc_name(n._data)) is not None)(rx)))
        for pn in PREDS:
            fn = make_pred(pn, ctx)
            table = [lid(n) for n in nodes if fn(n)]
            matchers.append((fn, "(MPred " + H.coq_list(H.z(i) for i in table) + ")", (lambda fn: lambda n: bool(fn(n)))(fn)))
        ident = [424243]                             # identity matches: a foreign int, an int, an EqObj, a PlainObj of the universe
        for typ in (int, H.EqObj, H.PlainObj):
            ident += [o for o in U.objs[:len(desc["univ"])] if type(o) is typ][:1]
        for o in ident:
            matchers.append((o, f"(MIs {U.index(o)})", (lambda o: lambda n: n._data is o)(o)))
        n_re, n_pr = len(REGEXES), len(PREDS)
        # every node must be found by a search for its own escaped name: one literal pattern per distinct name the
        # IMPLEMENTATION reports (node.name), sent to the model as syntax, judged by the oracle on the pinned name
        selfm = {}
        self_of = []

        def reported_name(n):
            r = call(lambda: n.name)
            return r[1] if r[0] == 0 and isinstance(r[1], str) else doc_name(n._data)

        for n in nodes:
            nm = reported_name(n)
            if nm not in selfm:
                lit = ("eps",)
                for ch in reversed(nm):
                    lit = ("chr", ch) if lit == ("eps",) else ("cat", ("chr", ch), lit)
                pat = rx_render(lit)
                assert pat == re.escape(nm)
                rx = re.compile(pat)
                selfm[nm] = len(matchers)
                form = ["str", "tuple"][len(selfm) % 2]
                matchers.append((pat if form == "str" else (pat, 0), f"(MRx {H.coq_bool(form != 'str')} false {rx_coq(lit)})",
                                 (lambda rx: lambda n: rx.fullmatch(doc_name(n._data)) is not None)(rx)))
            self_of.append(selfm[nm])

        # --- data / data_id / key material
        present_dids = []
        for n in nodes:
            if not any(type(d) is type(n._data_id) and d == n._data_id for d in present_dids):
                present_dids.append(n._data_id)
        uobjs = [U.objs[i] for i in range(len(desc["univ"])) if U.index(U.objs[i]) == i]
        in_tree = [o for o in uobjs if any(n._data is o for n in nodes)]
        absent = [o for o in uobjs if not any(n._data is o for n in nodes)]
        falsy = [o for o in absent if isinstance(o, (int, str)) and not o]
        data_objs = (in_tree + absent[:2] + falsy) if desc.get("mode") == "full" else uobjs
        data_objs = [o for i, o in enumerate(data_objs) if not any(o is x for x in data_objs[:i])] or uobjs[:1]
        did_args = present_dids[:5] + [d for d in (0, "", "zz", 7) if not any(type(d) is type(x) and d == x for x in present_dids[:5])]
        ks = [None if k == -1 else k for k in desc["ks"]]
        ks_idx = ks + [k for k in (4, 5) if k not in ks]

        # queries: python tuples; NFA / TFA are sweeps (add_self x max_results, max_results)
        queries = []
        full = desc.get("mode") == "full"
        mi_all = list(range(len(matchers)))
        mi_small = [1, 3, 6, n_re, n_re + 2, n_re + 5, n_re + n_pr]
        if later:          # after a mutation: every tree-wide search again, a thinner node-level sweep
            mi_small = [mi_small[0], mi_small[3]]
            data_objs = [o for o in data_objs if any(n._data is o for n in nodes)][:2] or data_objs[:1]
            did_args = did_args[:2]
        for p in range(len(nodes)):
            for mi in (mi_small if (full or later) else mi_all):
                queries.append(("NFA", p, None, mi, None, ks))
                queries.append(("nff", p, None, mi, None))
            # absent / falsy data and data_ids from the first node only; from the others what the tree carries
            for o in (data_objs if p == 0 or not full else [o for o in data_objs if any(n._data is o for n in nodes)]):
                queries.append(("NFA", p, o, None, None, ks))
                queries.append(("nff", p, o, None, None))
            for d in (did_args if p == 0 or not full else present_dids[:5]):
                queries.append(("NFA", p, None, None, d, ks))
                queries.append(("nff", p, None, None, d))
            queries.append(("clones", p))
            queries.append(("name", p))
            if not later:
                queries.append(("NFA", p, None, self_of[p], None, [None]))    # add_self sweep: the node itself by its own name
            if later:
                continue
            # argument conflicts and the bare call
            queries.append(("NFA", p, None, None, None, [None]))
            queries.append(("NFA", p, data_objs[0], None, 7, [None]))
            queries.append(("NFA", p, None, 0, 7, [1]))
            queries.append(("nff", p, data_objs[0], 0, None))
        n_fixed = n_re + n_pr + len(ident)                 # the matchers behind are the per-name literals
        for mi in (mi_all[::2] if later else mi_all):      # after a mutation: every second matcher tree-wide
            if mi >= n_fixed:
                queries.append(("TFA", None, mi, None, [None, 1]))
                continue
            queries.append(("TFA", None, mi, None, ks))
            queries.append(("tff", None, mi, None, None))
        for o in data_objs:
            queries.append(("TFA", o, None, None, ks_idx))
            queries.append(("tff", o, None, None, None))
        for d in did_args:
            queries.append(("TFA", None, None, d, ks_idx))
            queries.append(("tff", None, None, d, None))
        reg_keys = list(tree._node_by_id.keys())
        for z in reg_keys[:8] + [3, 7, 0, 99]:
            queries.append(("tff", None, None, None, z))
        queries += [("TFA", None, None, None, [None]), ("tff", None, None, None, None), ("TFA", data_objs[0], None, 7, [None]),
                    ("TFA", None, 0, 7, [2]), ("tff", data_objs[0], None, None, 3), ("tff", None, 0, None, 3), ("tff", None, 0, 7, None)]

        # keys for index access, symbolic so that they can be re-resolved on a rebuilt tree
        keys = [("obj", i) for i in range(len(desc["univ"])) if any(U.objs[i] is o for o in data_objs)]
        keys += [("lit", d) for d in did_args if isinstance(d, (int, str))]
        keys += [("nodeid", p) for p in range(min(len(nodes), 6))]
        if not later:
            keys += [("lit", v) for v in (3, 7, 0, 99)] + [("lit", True), ("float", 7.0), ("float", 3.5), ("tuple", (9, 9)), ("none",)]
            if nodes:
                keys += [("node", 0), ("node", len(nodes) - 1)]
        for kq in keys:
            queries.append(("get", kq))
            queries.append(("in", kq))
        if not full:
            qr = random.Random(desc.get("qseed", 0))
            keep = [q for q in queries if q[0] in ("get", "in", "clones", "name")
                    or (q[0] == "NFA" and q[3] is not None and q[3] == self_of[q[1]] and q[5] == [None])
                    or (q[0] == "TFA" and q[2] is not None and q[2] >= n_fixed)]
            rest = [q for q in queries if q not in keep]
            qr.shuffle(rest)
            # after a mutation the tree-wide pattern / predicate searches come first
            tfirst = [q for q in rest if later and q[0] in ("TFA", "tff") and q[2] is not None][:14]
            rest = [q for q in rest if q not in tfirst]
            queries = tfirst + rest[: desc.get("nq", 60) // (2 if later else 1)] + keep
        dels = [kq for kq in keys if kq[0] in ("obj", "nodeid", "lit")]
        qr2 = random.Random(desc.get("qseed", 1) + len(nodes))
        qr2.shuffle(dels)
        st0 = dict(tree=tree, U=U, nodes=nodes, desc=desc)
        ndel = 0
        for kq in ([] if later else dels + ([("node", 0)] if nodes else []) + [("none",)]):   # del rebuilds the tree: phase 0 only
            if kq[0] not in ("node", "none"):
                if ndel >= (4 if full else 6):
                    continue
                tgt = [n for n in nodes if self.oracle_resolves_to(st0, kq, n)]
                if any(has_equal_sibling(n) for n in tgt):
                    continue        # D02 territory, see has_equal_sibling
                ndel += 1
            queries.append(("del", kq))

        # --- run the implementation, render, and check
        st = dict(tree=tree, U=U, nodes=nodes, matchers=matchers, desc=desc, dids={}, keys=[])
        obs, coq_q, fails = [], [], []
        nsub = 0
        for q in queries:
            if q[0] == "NFA":
                _, p, data, mi, did, qks = q
                subs = [[("nfa", p, data, mi, did, a, k) for k in qks] for a in (False, True)]
                res = [[self.exec_query(st, sq) for sq in row] for row in subs]
                o = [[r[0] for r in row] for row in res]
                pairs = [(sq, r[0]) for row, rr in zip(subs, res) for sq, r in zip(row, rr)]
                cq = (f"(QNodeFindAll {lid(nodes[p])} {c_oz(did_ix(st, None if data is None else calc_of(desc, data)))} {c_oz(mi)} "
                      f"{c_oz(did_ix(st, did))} {H.coq_list(str(0 if k is None else k) for k in qks)})")
            elif q[0] == "TFA":
                _, data, mi, did, qks = q
                subs = [("tfa", data, mi, did, k) for k in qks]
                res = [self.exec_query(st, sq) for sq in subs]
                o = [r[0] for r in res]
                pairs = [(sq, r[0]) for sq, r in zip(subs, res)]
                cq = (f"(QTreeFindAll {c_oz(did_ix(st, None if data is None else calc_of(desc, data)))} {c_oz(mi)} {c_oz(did_ix(st, did))} "
                      f"{H.coq_list(str(0 if k is None else k) for k in qks)})")
            else:
                o, cq = self.exec_query(st, q)
                pairs = [(q, o)]
            obs.append(o)
            coq_q.append(cq)
            nsub += len(pairs)
            for sq, so in pairs:
                f = self.oracle(st, sq, so)
                if f and len(fails) < 3:
                    fails.append(f)

        reg = H.coq_list(f"({H.z(int(k))}, {lid(v)})" for k, v in tree._node_by_id.items())
        idx = H.coq_list(f"({H.coq_did(k)}, {H.coq_list(H.z(lid(x)) for x in v)})" for k, v in tree._nodes_by_data_id.items())
        forest = H.coq_list(coq_rt(c, U) for c in (tree._root._children or []))
        dtab = H.coq_list(H.coq_did(d) for (_, d) in st["dids"])       # dict preserves insertion order = index order
        coq_input = (f"(C (St {forest} {reg} {idx}) {H.coq_list(m[1] for m in matchers)} {dtab} "
                     f"{H.coq_list(st['keys'])} {H.coq_list(coq_q)})")
        groups = {}
        for n in nodes:
            groups.setdefault((type(n._data_id).__name__, n._data_id), []).append(n)
        maxg = max((len(g) for g in groups.values()), default=0)
        shuffled = any([lid(x) for x in tree._nodes_by_data_id.get(n._data_id, [])] != [lid(x) for x in g]
                       for (_, _), g in groups.items() for n in g[:1])
        nerr = str(obs).count('[1, ')
        return dict(coq=coq_input, obs=obs, fails=fails, nsub=nsub,
                    stats=dict(_nontrivial=len(nodes) >= 3 and maxg >= 2, nodes=len(nodes), max_clone_group=maxg,
                               index_order_differs=shuffled, error_answers=(nerr // 10) * 10,
                               calc=str(desc.get("calc")), typed=bool(desc.get("typed"))))

    def oracle_resolves_to(self, st, kq, n):
        """could tree[key] possibly name node n (by node_id, data_id or data)?  Only used to keep D02 out of the del queries."""
        k = self.resolve_key(st, kq)
        c = calc_of(st["desc"], k) if k is not None else None
        return (isinstance(k, int) and n._node_id == k) or (isinstance(k, (int, str)) and n._data_id == k) or (c is not None and n._data_id == c)

    # ----- executing one query on the implementation -------------------------
    def resolve_key(self, st, kq, tree=None, nodes=None):
        tree = tree or st["tree"]
        nodes = nodes if nodes is not None else st["nodes"]
        t = kq[0]
        if t == "obj":
            return st["U"].objs[kq[1]]
        if t in ("lit", "float", "tuple"):
            return kq[1]
        if t == "nodeid":
            return nodes[kq[1]]._node_id
        if t == "node":
            return nodes[kq[1]]
        if t == "none":
            return None
        raise ValueError(kq)

    def exec_query(self, st, q):
        tree, nodes, desc = st["tree"], st["nodes"], st["desc"]
        kind = q[0]

        def ids(l):
            return [lid(x) for x in l]

        def onode(x):
            return [] if x is None else [lid(x)]

        def dcalc(o):
            return None if o is None else calc_of(desc, o)

        if kind in ("nfa", "nff", "tfa", "tff"):
            if kind == "nfa":
                _, p, data, mi, did, add_self, k = q
            elif kind == "nff":
                _, p, data, mi, did = q
            elif kind == "tfa":
                _, data, mi, did, k = q
            else:
                _, data, mi, did, node_id = q
            kw = {}
            if mi is not None:
                kw["match"] = st["matchers"][mi][0]
            if did is not None:
                kw["data_id"] = did
            args = () if data is None else (data,)
            if kind == "nfa":
                kw["add_self"] = add_self
                kw["max_results"] = k
                r = call(lambda: nodes[p].find_all(*args, **kw))
                o = [0, ids(r[1])] if r[0] == 0 else r
                cq = "unused"       # single nfa/tfa answers are rendered by their sweep
            elif kind == "nff":
                fn = nodes[p].find if p % 2 else nodes[p].find_first        # `find` is the documented alias
                r = call(lambda: fn(*args, **kw))
                o = [0, onode(r[1])] if r[0] == 0 else r
                cq = f"QNodeFindFirst {lid(nodes[p])} {c_oz(did_ix(st, dcalc(data)))} {c_oz(mi)} {c_oz(did_ix(st, did))}"
            elif kind == "tfa":
                kw["max_results"] = k
                r = call(lambda: tree.find_all(*args, **kw))
                o = [0, ids(r[1])] if r[0] == 0 else r
                if r[0] == 0 and any(r[1] is g for g in tree._nodes_by_data_id.values()):
                    st.setdefault("aliased", []).append(q)
                cq = "unused"
            else:
                if node_id is not None:
                    kw["node_id"] = node_id
                fn = tree.find if (mi or 0) % 2 else tree.find_first
                r = call(lambda: fn(*args, **kw))
                o = [0, onode(r[1])] if r[0] == 0 else r
                cq = f"QTreeFindFirst {c_oz(did_ix(st, dcalc(data)))} {c_oz(mi)} {c_oz(did_ix(st, did))} {c_oz(node_id)}"
            return o, "(" + cq + ")"

        if kind == "name":
            n = nodes[q[1]]
            r = call(lambda: n.name)
            return ([0, r[1]] if r[0] == 0 and isinstance(r[1], str) else ([1, 8] if r[0] == 0 else r)), f"(QName {lid(n)})"

        if kind == "clones":
            n = nodes[q[1]]
            r1 = call(lambda: n.is_clone())
            r2 = call(lambda: n.get_clones())
            r3 = call(lambda: n.get_clones(add_self=True))
            if r3[0] == 0 and any(r3[1] is g for g in tree._nodes_by_data_id.values()):
                st.setdefault("aliased", []).append(q)
            return ([[0, bool(r1[1])] if r1[0] == 0 else r1, [0, ids(r2[1])] if r2[0] == 0 else r2,
                     [0, ids(r3[1])] if r3[0] == 0 else r3], f"(QClones {lid(n)})")

        kq = q[1]
        kobj = self.resolve_key(st, kq)
        kterm = key_coq(kobj, None if kobj is None else calc_of(desc, kobj))
        if kterm not in st["keys"]:
            st["keys"].append(kterm)
        kc = st["keys"].index(kterm)
        if kind == "get":
            r = call(lambda: tree[kobj])
            return ([0, lid(r[1])] if r[0] == 0 else r), f"(QGet {kc})"
        if kind == "in":
            r = call(lambda: kobj in tree)
            return ([0, bool(r[1])] if r[0] == 0 else r), f"(QContains {kc})"
        if kind == "del":
            # destructive: run on an identically rebuilt tree, report the original identities
            t2, _ = build_tree(desc, st["U"])      # same data objects, new nodes
            n2 = walk(t2._root)
            assert len(n2) == len(nodes)
            k2 = self.resolve_key(st, kq, t2, n2)
            r = call(lambda: t2.__delitem__(k2))
            if r[0] == 0:
                left = {id(x) for x in walk(t2._root)}
                gone = [lid(nodes[i]) for i, x in enumerate(n2) if id(x) not in left]
                return [0, gone], f"(QDel {kc})"
            return r, f"(QDel {kc})"
        raise ValueError(q)

    # ----- oracle: the property statement, from pointers only -----------------
    def oracle(self, st, q, o):
        tree, nodes, desc = st["tree"], st["nodes"], st["desc"]
        root = tree._root
        kind = q[0]

        def ids(l):
            return [lid(x) for x in l]

        def same_did(a, b):
            return a == b and isinstance(a, str) == isinstance(b, str)

        def carrying(d):
            return [n for n in nodes if same_did(n._data_id, d)]

        def fail(msg, exp):
            # the text before the first ':' is the category the runner groups failing inputs by
            cat = {"nfa": "Node.find_all", "nff": "Node.find_first", "tfa": "Tree.find_all", "tff": "Tree.find_first",
                   "get": "tree[key]", "in": "key in tree", "del": "del tree[key]", "clones": "Node.is_clone/get_clones", "name": "Node.name / pattern search by name"}[kind]
            if kind in ("nfa", "nff", "tfa", "tff"):
                by = "match" if q[3 if kind[0] == "n" else 2] is not None else "data/data_id"
                d = q[2 if kind[0] == "n" else 1]
                i = q[4 if kind[0] == "n" else 3]
                if by != "match" and ((d is not None and not d and not isinstance(d, tuple)) or (i is not None and not i)):
                    by = "falsy data/data_id"
                cat += f"({by})"
            return f"{cat}: {msg}: query {_show(q)} got {o} expected {exp}"

        if kind in ("nfa", "nff", "tfa", "tff"):
            node_id = None
            k = None
            add_self = False
            if kind == "nfa":
                _, p, data, mi, did, add_self, k = q
            elif kind == "nff":
                _, p, data, mi, did = q
                k = 1
            elif kind == "tfa":
                _, data, mi, did, k = q
            else:
                _, data, mi, did, node_id = q
                k = 1
            on_tree = kind in ("tfa", "tff")
            # argument conflicts are refused by an assertion
            if data is not None and did is not None:
                return None if o == [1, 6] else fail("data and data_id together", [1, 6])
            eff = calc_of(desc, data) if data is not None else did
            if eff is not None and (mi is not None or node_id is not None):
                return None if o == [1, 6] else fail("data(_id) together with match/node_id", [1, 6])
            if eff is None and mi is not None and node_id is not None:
                return None if o == [1, 6] else fail("match together with node_id", [1, 6])
            if on_tree and eff is None and mi is None and node_id is None:
                return None if o == [1, 5] else fail("no criterion", [1, 5])
            if kind == "tff" and eff is None and mi is None:
                hit = [n for n in nodes if n._node_id == node_id]
                exp = [0, ids(hit[:1])]
                return None if o == exp else fail("node_id lookup", exp)
            if on_tree:
                it = walk(root)
            else:
                it = ([nodes[p]] if add_self else []) + walk(nodes[p])
            if eff is not None:
                cb = lambda n: same_did(n._data_id, eff)  # noqa: E731
            elif mi is not None:
                cb = st["matchers"][mi][2]
            else:
                cb = lambda n: n._data is None  # noqa: E731
            allm = [n for n in it if cb(n)]
            if on_tree and eff is not None:
                # index path: k distinct nodes carrying the id (all of them without a limit)
                if o[0] != 0:
                    return fail("index lookup raised", "a list")
                got = o[1]
                want = len(allm) if not k else min(k, len(allm))
                if len(got) != want or len(set(got)) != len(got) or not set(got) <= set(ids(allm)):
                    return fail("index lookup", f"{want} distinct of {ids(allm)}")
                if kind == "tfa" and q in st.get("aliased", []):
                    return fail("result is the live index list", "a new list")
                return None
            exp = allm[:k] if k else allm
            exp = [0, ids(exp)]
            return None if o == exp else fail("ordered search", exp)

        if kind == "name":
            n = nodes[q[1]]
            exp = [0, doc_name(n._data)]
            if o != exp:
                return fail("the node's name is format(data, '')", exp)
            # ... and a pattern search for that very name (escaped), tree-wide and from the node itself, finds the node
            pat = re.escape(o[1])
            for what, fn in (("tree.find_all", lambda: tree.find_all(match=pat)), ("tree.find_all((pattern, flags))", lambda: tree.find_all(match=(pat, 0))),
                             ("node.find_all(add_self)", lambda: n.find_all(match=pat, add_self=True))):
                r = call(fn)
                if r[0] != 0 or not any(x is n for x in r[1]):
                    return fail(f"node is not found by {what} for its own escaped name {pat!r}", "a result containing the node")
            return None

        if kind == "clones":
            n = nodes[q[1]]
            car = ids(carrying(n._data_id))
            others = [i for i in car if i != lid(n)]
            if o[0] != [0, len(car) > 1]:
                return fail("is_clone", [0, len(car) > 1])
            for got, want, what in ((o[1], others, "get_clones()"), (o[2], car, "get_clones(add_self=True)")):
                if got[0] != 0 or sorted(got[1]) != sorted(want):
                    return fail(what, f"the nodes {want} in any order")
            if q in st.get("aliased", []):
                return fail("get_clones(add_self=True) is the live index list", "a new list")
            return None

        kq = q[1]
        kobj = self.resolve_key(st, kq)
        if kind == "in":
            if isinstance(kobj, Node) and calc_of(desc, kobj) is None:
                exp = [1, 7]
            elif kobj is None:
                exp = [1, 5]
            else:
                exp = [0, bool(carrying(calc_of(desc, kobj)))]
            return None if o == exp else fail("membership", exp)
        # resolution of tree[key]
        if isinstance(kobj, Node):
            exp = [1, 3]
        else:
            hit = [n for n in nodes if isinstance(kobj, int) and n._node_id == kobj]
            if hit:
                exp = [0, hit[0]]
            else:
                cand = carrying(kobj) if isinstance(kobj, (int, str)) else []
                if not cand:
                    if kobj is None:
                        cand = None
                    else:
                        cand = carrying(calc_of(desc, kobj))
                if cand is None:
                    exp = [1, 5]
                elif not cand:
                    exp = [1, 4]
                elif len(cand) > 1:
                    exp = [1, 2]
                else:
                    exp = [0, cand[0]]
        if kind == "get":
            if exp[0] == 0:
                exp = [0, lid(exp[1])]
            return None if o == exp else fail("tree[key]", exp)
        if kind == "del":
            if exp[0] == 0:
                exp = [0, ids([exp[1]] + walk(exp[1]))]
                if o[0] == 0 and sorted(o[1]) == sorted(exp[1]):
                    return None
            return None if o == exp else fail("del tree[key]", exp)
        return None


def _show(q):
    out = []
    for x in q:
        if callable(x) and not isinstance(x, type):
            out.append("<callback>")
        else:
            out.append(repr(x))
    return "(" + ", ".join(out) + ")"


def _k(ks):
    return [-1 if k is None else k for k in ks]


def _label(shape, lab):
    counter = [0]

    def go(f, depth):
        out = []
        for si, t in enumerate(f):
            i = counter[0]
            counter[0] += 1
            lbl, kind, did, node_id = lab(i, depth, si, t)
            out.append([lbl, kind, did, go(t, depth + 1), node_id])
        return out

    return go(shape, 0)


def _drop_one(nodes):
    for i, n in enumerate(nodes):
        if not n[3]:
            yield nodes[:i] + nodes[i + 1:]
        else:
            yield nodes[:i] + n[3] + nodes[i + 1:]
            for sub in _drop_one(n[3]):
                yield nodes[:i] + [[n[0], n[1], n[2], sub] + n[4:]] + nodes[i + 1:]


# query - mutate - query again on ONE tree object (re-ordering and re-keying mutators only)
PHASES = [
    [[["mv", -1, -1, 0]], [["sort", False, True]]],                         # last created node becomes the first top node; then sort
    [[["sort", True, True]], [["mv", 1, -1, None], ["sortc", 0, True, False]]],
    [[["setdata", 0, 1, None, True]], [["rename", 1, "a"], ["mv", 2, 0, 0]]],
    [[["setid", 1, 7, True], ["sortc", 0, True, True]], [["mv", 0, -1, None]]],
    [[["mv", 2, -1, 0], ["mv", 1, -1, 0]]],
]

CORPUS = [
    # seed C09-10 family: name = format(data, ""), and a pattern search tests that very name
    dict(univ=["s:k", "f:1", "f:2", "u:a", "q:a", "s:a"], calc=None, typed=False, mode="full", ks=[-1, 1],
         nodes=[[0, None, None, [[1, None, None, [], None], [2, None, None, [], None], [3, None, None, [], None]], None],
                [4, None, None, [[1, None, None, [], None], [5, None, None, [], None]], None]], ops=[]),
    # D26: Tree.find_all(data, max_results=k) sliced the wrong way and returned the live index list
    dict(univ=["s:a", "s:b"], calc=None, typed=False, mode="full", ks=[-1, 1, 2],
         nodes=[[0, None, None, [[1, None, None, [], None]], None], [1, None, None, [], None],
                [0, None, "x", [[1, None, None, [], None]], None]], ops=[]),
    # D27: Node.find_all(data / data_id, max_results=k) ignored the limit
    dict(univ=["s:a", "s:b"], calc=None, typed=False, mode="full", ks=[-1, 1, 2],
         nodes=[[0, None, None, [[1, None, None, [], None], [0, None, "y", [[1, None, None, [], None]], None]], None]], ops=[]),
    # D46: Node.find_all(0) / find_all(data_id=0) / find_all("") tested truthiness
    dict(univ=["i:0", "s:", "s:a"], calc=None, typed=False, mode="full", ks=[-1, 1],
         nodes=[[2, None, None, [[0, None, None, [], None], [1, None, None, [], None], [2, None, 0, [], None]], None]], ops=[]),
]

PROP = Prop()
