"""C16 — pretty-printing renders the tree shape faithfully in every style."""
from __future__ import annotations

import build as B
import common as H
from common import Case

from nutree.common import CONNECTORS  # the style table is data of the code under test

STYLE_NAMES = list(CONNECTORS.keys())

# custom styles: 4- and 6-tuples (ASCII and non-BMP unicode), widths wa != ws, plus malformed ones
CUSTOM = [
    ["custom", ["..", "|.", "`>>", "+>>"]],                                   # wa=2 ws=3
    ["custom", ["\u3000", "\u2503", "\u2517\u2501\u27a4", "\u2523\u2501\u27a4", "\u2517\u2533\u27a4", "\u2523\u2533\u27a4"]],
    ["custom", ["\U0001f7e6", "\U0001f7e5", "\U0001f534", "\U0001f535"]],     # 1 code point each, astral plane
    ["customlist", ["a", "b", "c", "d", "e", "f"]],                          # passed as a Python list
    ["customlist", ["  ", "| ", "`-", "+-"]],                                # a 4-element list (must not be changed by format)
]
# legal custom tuples whose segments have UNEQUAL widths: decoding is not promised for them (not style_ok), but every
# line still is "segments along the ancestor flags + own segment + rendering" (general prefix oracle)
RAGGED = [
    ["custom", [" ", "| ", "`-", "+--"]],                                      # 4-tuple, non-last connector wider
    ["custom", ["  ", "| ", "`-", "+-", "`-+ ", "+-+ "]],                      # 6-tuple, compact connectors wider
    ["custom", ["", "", "L ", "M ", "L+", "M+"]],                              # zero-width ancestor segments
    ["customlist", ["\u3000\u3000", "\u2503", "\u2517", "\u2523\u2501", "\u2517\u2533\u27a4", "\u2523"]],
]
# custom tuples with an EMPTY string in every single position, equal elements, and multi-character elements of any width
# (all legal; checked by the exact-prefix oracle and against the model)
def _with_empty(base, i):
    b = list(base)
    b[i] = ""
    return b


_B6 = ["a ", "b ", "c ", "d ", "e ", "f "]
_B4 = ["a ", "b ", "c ", "d "]
EDGE = ([["custom", _with_empty(_B6, i)] for i in range(6)] + [["custom", _with_empty(_B4, i)] for i in range(4)] + [
    ["custom", ["  ", "  ", "- ", "- ", "", ""]],                    # both has-children connectors empty
    ["custom", ["", "", "", "", "", ""]], ["custom", ["", "", "", ""]],
    ["custom", ["x", "x", "x", "x", "x", "x"]],                      # all equal
    ["custom", ["  ", "| ", "`-", "+-", "`-", "+-"]],                # 6-tuple equal to its 4-tuple
    ["custom", ["<<<<", "|", "`--->", "+>", "`=+=>", "++"]],         # multi-character, all widths different
    ["customlist", ["0", "0", "0", "1", "", "0"]],                   # strings that look falsy
])
MALFORMED = [
    ["custom", []], ["custom", ["a", "b", "c"]], ["custom", ["a", "b", "c", "d", "e"]],
    ["custom", ["a", "b", "c", "d", "e", "f", "g"]], ["name", "nope"], ["name", "List"],
]
SPECIAL = [["default"], ["name", ""], ["name", "list"]]

# data objects: strings that look like connectors / contain spaces / unicode, ints, other objects
UNIV = ["s:a", "s: b", "s:\u2502 c", "s:\u251c\u2500\u2500 d", "i:7", "s:e e", "e:1", "s:`-", "t:1,2", "s:\u2570\u2500 x", "s:|", "s:+- z",
        "i:-3", "s:\U0001f333"]
REPR_MODES = ["fmt", "call", "default"]
# renderings that are empty, whitespace only, or start / end with blanks, tabs, line breaks: through the data objects
# (UNIV_WS with repr "{node.data}"), through a template without fields (""), a template / a callback that add white space
UNIV_WS = ["s:", "s: ", "s:a ", "s: a", "s:\t", "s:a\t", "s:x\n", "s:\n", "s:  ", "s:a  b ", "s:\u3000", "s:b", "s: \u2502 ", "s:\r"]
WS_MODES = ["fmt", "empty", "wsfmt", "wscall"]


def repr_arg(mode):
    if mode == "fmt":
        return "{node.data}"
    if mode == "call":
        return lambda n: f"<{n.data}>#{len(n.children)}"
    if mode == "empty":
        return ""
    if mode == "wsfmt":
        return "{node.data} \t"
    if mode == "wscall":
        return lambda n: "\t" + str(n.data) + "  "
    return None


def expected_rend(mode, typed, n):
    """what the repr argument renders for node n, computed from the data object alone"""
    if mode == "fmt":
        return f"{n._data}"
    if mode == "call":
        return f"<{n._data}>#{len(n._children or [])}"
    if mode == "empty":
        return ""
    if mode == "wsfmt":
        return f"{n._data} \t"
    if mode == "wscall":
        return "\t" + str(n._data) + "  "
    return f"{n.kind} \u2192 {n._data}" if typed else f"{n._data!r}"
TITLE_TEXT = "My \u2514 title"
JOINS = ["\n", ", ", "", "\u2502\n"]


# mutation histories applied before formatting: [op, args...]; node arguments are pre-order indices taken modulo the
# number of nodes at that moment; an operation the library refuses is skipped (the history is replayed deterministically)
OPS = ["remove", "remove_keep", "remove_children", "move", "move_top", "clear_readd", "sort", "filter", "add_leaf"]


def apply_ops(tree, ops, U, typed):
    def pick(k):
        ns = B.all_nodes(tree._root)
        return ns[k % len(ns)] if ns else None

    fresh = [0]

    def add(parent, lbl):
        kw = {"data_id": f"h{fresh[0]}"}
        fresh[0] += 1
        if typed:
            kw["kind"] = "k%d" % (fresh[0] % 2)
        return parent.add(U.objs[lbl % len(U.objs)], **kw)

    applied = 0
    for op in ops:
        try:
            name = op[0]
            n = pick(op[1]) if len(op) > 1 and name not in ("clear_readd", "filter") else None
            if name == "remove" and n is not None:
                n.remove()
            elif name == "remove_keep" and n is not None:
                n.remove(keep_children=True)
            elif name == "remove_children" and n is not None:
                n.remove_children()
            elif name == "move" and n is not None:
                t = pick(op[2])
                if t is not n:
                    n.move_to(t, before=(True if op[3] else None))
            elif name == "move_top" and n is not None:
                n.move_to(tree, before=(True if op[2] else None))
            elif name == "clear_readd":
                tree.clear()
                a = add(tree, op[1])
                for k in range(op[2]):
                    a = add(a if k % 2 == 0 else a.parent or tree, op[1] + k + 1)
            elif name == "sort":
                if n is None:
                    continue
                key = (lambda x: x.data_id) if op[4] else (lambda x: str(x.data))
                if op[1] % 3 == 0:
                    tree.sort(key=key, reverse=bool(op[2]), deep=bool(op[3]))
                else:
                    n.sort_children(key=key, reverse=bool(op[2]), deep=bool(op[3]))
            elif name == "filter":
                m, r = op[1], op[2]
                ids = {id(x): k for k, x in enumerate(B.all_nodes(tree._root))}
                tree.filter(predicate=lambda x: ids.get(id(x), 0) % m != r)
            elif name == "add_leaf" and n is not None:
                add(n, op[2])
            else:
                continue
            applied += 1
        except Exception:  # noqa: BLE001  refused operation: skipped
            pass
    return applied


RESTRUCTURE = ["move", "move_top", "remove_keep", "move", "move_top", "remove_keep", "remove", "sort", "add_leaf"]


def random_ops(rng, k, names=OPS):
    ops = []
    for _ in range(k):
        name = rng.choice(names)
        a, b = rng.randrange(1000), rng.randrange(1000)
        if name in ("remove", "remove_keep", "remove_children"):
            ops.append([name, a])
        elif name == "move":
            ops.append([name, a, b, rng.randrange(2)])
        elif name == "move_top":
            ops.append([name, a, rng.randrange(2)])
        elif name == "clear_readd":
            ops.append([name, a % 14, rng.randrange(4)])
        elif name == "sort":
            ops.append([name, a, rng.randrange(2), rng.randrange(2), rng.randrange(2)])
        elif name == "filter":
            m = rng.randint(2, 4)
            ops.append([name, m, rng.randrange(m)])
        else:
            ops.append([name, a, b % 14])
    return ops


def ptr_depth(root):
    ch = root._children or []
    return 0 if not ch else 1 + max(ptr_depth(c) for c in ch)


def style_arg(st):
    if st[0] == "default":
        return None
    if st[0] == "name":
        return st[1]
    if st[0] == "custom":
        return tuple(st[1])
    if st[0] == "customlist":
        return list(st[1])
    raise ValueError(st)


def coq_style(st):
    if st[0] == "default":
        return "StDefault"
    if st[0] == "name":
        return f"(StName {H.coq_text(st[1])})"
    return f"(StCustom {H.coq_list(H.coq_text(s) for s in st[1])})"


def segments(st):
    """The segments the oracle decodes with; None = the call has to fail with ValueError;
    'list' = list style."""
    if st[0] == "default":
        return list(CONNECTORS["round43"])     # documented default style
    if st[0] == "name":
        if st[1] == "list":
            return "list"
        if st[1] == "":
            return "any"                       # not specified by the property: only the model is compared
        segs = CONNECTORS.get(st[1])
        return None if segs is None else list(segs)
    return list(st[1]) if len(st[1]) in (4, 6) else None


class _Raiser:
    """stands for a generator whose creation already raised: the error is reported when it is consumed"""
    def __init__(self, e):
        self.e = e

    def __iter__(self):
        raise self.e


def lazily(fn):
    try:
        return fn()
    except Exception as e:  # noqa: BLE001
        return _Raiser(e)


def lines_obs(fn):
    try:
        return [0, list(fn())]
    except Exception as e:  # noqa: BLE001
        return [-1, H.err_class(e)]


def text_obs(fn):
    try:
        return [0, fn()]
    except Exception as e:  # noqa: BLE001
        return [-1, H.err_class(e)]


HM, HP = (1 << 61) - 1, 65599          # hash = polynomial mod 2^61 (bit mask HM), as CaseC16.hstep


def hash_text(h, t):
    for ch in t:
        h = (h * HP + ord(ch) + 1) & HM
    return h


def hlines(ob):
    """[0, lines] -> [0, [number of lines, hash]] (CaseC16.sx_hlines); errors unchanged"""
    if ob[0] != 0:
        return ob
    h = 7
    for ln in ob[1]:
        h = (hash_text(h, ln) * HP) & HM
    return [0, [len(ob[1]), h]]


def htext(ob):
    return ob if ob[0] != 0 else [0, [len(ob[1]), hash_text(7, ob[1])]]


def rebuild_shape(depths):
    """Pre-order depth list -> nested tuples (a forest); None if it is not the
    depth list of a forest whose roots have the depth of the first entry."""
    if not depths:
        return ()
    d0 = depths[0]
    root: list = []
    stack = [root]          # stack[k] = child list under construction at depth d0+k
    for d in depths:
        k = d - d0
        if k < 0 or k > len(stack) - 1:
            return None
        del stack[k + 1:]
        node: list = []
        stack[k].append(node)
        stack.append(node)

    def freeze(l):
        return tuple(freeze(x) for x in l)

    return freeze(root)


def real_shape(nodes_roots):
    return tuple(real_shape(n._children or []) for n in nodes_roots)


def branch(n):
    out = [n]
    for c in (n._children or []):
        out.extend(branch(c))
    return out


class Prop:
    id = "C16"
    coq_prop = "Properties/C16.v"
    case_module = "CaseC16"
    case_vo = "theories/Cases/CaseC16.vo"
    run_fn = "run16m"
    shard = 8
    rule = ("every ordered forest shape with <= N nodes (quick N=4 - the 4-node shapes alternate between two halves of the styles -, thorough N=5) with every style of the table, the default, '', 'list', 4 custom "
            "4-/6-tuples incl. astral-plane code points and 6 malformed styles; every (N+1)-node shape with a rotating sixth (quick) / third (thorough) of the styles; "
            "plus seeded random deep/wide trees of 6..24 nodes (quick 18, thorough 180); every 5th case gives all nodes ONE data object "
            "(siblings equal but not identical); 22 fixed + 16 (quick) / 110 (thorough) random MUTATION HISTORIES (remove, remove(keep_children), "
            "remove_children, move_to, clear + re-add, sort, filter, add) applied before formatting with compact styles, custom 6-tuples and "
            "ragged tuples; 8 fixed + 8 (quick) / 60 (thorough) SESSIONS on one tree object with one Python object per style: format everything, "
            "restructure above the start nodes (move_to, remove(keep_children), ...) while the caller swaps two connectors of its list styles "
            "in place, format everything again AND consume the format_iter() generators created before the restructuring (they must show "
            "the tree as it is when consumed), caller's style objects compared with a snapshot after every phase; "
            "17 custom tuples with an EMPTY string in every single position / equal / multi-character elements on every shape <= 3 nodes and "
            "two larger ones; 4 fixed + 4 (quick) / 30 (thorough) ABANDONED-GENERATOR cases (format_iter consumed for k lines for every k, "
            "dropped or kept; repr callbacks raising at the k-th call; then this tree and an unrelated tree formatted completely and the "
            "kept generators resumed); WHITE-SPACE renderings (data '', ' ', 'a ', tabs, line breaks ...; repr '' / templates and callbacks adding blanks) with the "
            "all-blank styles space1..4, blank custom tuples and others on every shape <= 3 nodes and two larger ones, lines compared "
            "byte-exactly; 4 custom tuples with UNEQUAL segment widths everywhere (exact-prefix oracle, no decoding); per (tree, style): Tree.format_iter "
            "for title in {default, False, True, text, ''}, Node.format_iter for EVERY node as start with add_self on/off, "
            "format(join=j) for the tree and every node; repr as format string, callable or the class default; plain and typed trees; "
            "data strings that themselves look like connectors.  distinct = distinct (shape, style set, repr mode, typed); "
            "non-trivial = a node at relative depth >= 2 or two siblings exist (so ancestor and last/non-last segments both occur)")
    exhaustive_note = "all forest shapes <= 3 nodes x all styles, 4 nodes x alternating halves of the styles (quick); <= 5 nodes x all styles, 6 nodes x a third of the styles (thorough)"
    assumptions = [
        "is-last-sibling is positional in the model (no following sibling); PROVED equal to the identity tests of the relationship-query model (C10: q_is_last of the located context of every member of get_parent_list(), in that order; q_is_last / q_has_children of the node) for forests with unique node identities (theorem C16_flags_are_the_identity_tests_of_the_code); uniqueness of identities is C01",
        "the rendering of a node (repr string/callable) is an input of the model; the harness computes it independently of format()",
        "tree names need no escaping in repr(): title line is Cls<'name'>",
        "to keep case terms small, Tree.format_iter(title=default/False) and Tree.format(join=) are compared with the model as full text, the other observations (titles True/text/'', every start node, system root) as (line count, 61-bit polynomial hash) computed by the same formula on both sides (trees of <= 3 nodes: everything as full text); the oracle always sees the full lines",
    ]
    manifest = dict(
        text=("Machine-checked theorems (Coq 8.16, no axioms): for ALL forests, start nodes (any depth, system root included), add_self, title "
              "settings (default/False/True/text/'') and every 4-/6-segment style, format_iter of the executable model emits [title] ++ one line "
              "per branch node in pre-order, each = prefix ++ rendering; the prefix is exactly concat(ancestor segments below the start) ++ own "
              "segment; the flags used are proved equal to the identity tests of the code (q_is_last of the located context of every member of "
              "get_parent_list(), of the node itself, q_has_children) for forests with unique node identities; for every style whose ancestor "
              "segments share one positive width and own segments another (proved for every entry of the generated CONNECTORS table by "
              "vm_compute, and available for any custom tuple) the prefix LENGTHS decode to the relative depths and the depth list decodes to "
              "the forest shape (parser round trip, unbounded), also from the joined text of format(); where segments are distinct (all table "
              "styles except space1..4) the last-sibling flags of every ancestor and of the node, and in 6-segment styles the has-children "
              "flag, are read back from the characters; list style = renderings only; errors for unknown names / malformed tuples. "
              "Tied to /repo per run by a correspondence check (vm_compute vs. implementation) and an independent decoding oracle."),
        note=("Trusted: Coq kernel + vm_compute; hand-written model theories/Forest/Format.v (tied by the correspondence only); "
              "gen_facts.py for the CONNECTORS table; harness generators/observation.  D35 (list style with title rendered the system root) "
              "is repaired by fixes/D35.diff; the model is of the repaired code."),
        technique="Coq proof about an executable Gallina model + generated-table obligations + differential correspondence check (vm_compute) + Python decoding oracle",
        design_ref="DESIGN.md section 6 (C16)",
    )

    # ----- generation
    def _desc(self, shape, styles, i, typed=False, ops=None, phases=None, abandon=False, ws=None):
        same = (i % 5 == 2)     # all nodes carry the same data object: siblings are == but not identical
        univ = UNIV_WS if ws else UNIV
        nodes = B.shape_to_nodes(shape, lambda k, d, s: ((i if same else k * 5 + i) % len(univ), ("k%d" % (k % 2)) if typed else None, f"id{k}"))
        n = B.nodes_size(nodes)
        # start nodes of Node.format_iter (pre-order indices): all of them in small trees, a spread of 7 in large ones
        # (the deepest node is added in run()); Node.format(join=) on the first and last of them
        starts = None if n <= 6 else sorted({0, n // 6, n // 3, n // 2, 2 * n // 3, 5 * n // 6, n - 1})
        return dict(typed=typed, univ=univ, nodes=nodes, name="T%d" % (i % 3), styles=styles,
                    repr=(ws or REPR_MODES[i % 3]), title=TITLE_TEXT, join=JOINS[i % len(JOINS)], starts=starts,
                    **({"ops": ops} if ops else {}), **({"phases": phases} if phases else {}),
                    **({"abandon": True} if abandon else {}))

    def descs(self, tier, rng):
        yield from CORPUS
        table = [["name", s] for s in STYLE_NAMES]
        everything = SPECIAL + table + CUSTOM + RAGGED + MALFORMED
        nfull = 4 if tier == "quick" else 5
        i = 0
        for n in range(0, nfull + 1):
            for shape in H.forests(n):
                # split the styles over two cases per shape to keep case terms small
                # (quick: the largest size alternates between the two halves from shape to shape)
                if not (tier == "quick" and n == nfull and (i // 2) % 2 == 1):
                    yield self._desc(shape, everything[0::2], i, typed=(i % 7 == 3))
                if not (tier == "quick" and n == nfull and (i // 2) % 2 == 0):
                    yield self._desc(shape, everything[1::2], i + 1, typed=(i % 7 == 5))
                i += 2
        # one size further: every shape with a rotating third of the styles
        for j, shape in enumerate(H.forests(nfull + 1)):
            step = 6 if tier == "quick" else 3
            sub = [everything[(j + step * k) % len(everything)] for k in range(len(everything) // step + 1)]
            yield self._desc(shape, sub, i, typed=(i % 7 == 3))
            i += 1
        # trees reached through mutation histories (emptied child lists, re-parented nodes, re-filled trees ...),
        # formatted with the compact styles, custom 6-tuples (uniform and ragged) and a few 4-segment styles
        hist_styles = ([["name", n] for n in STYLE_NAMES if n.endswith("c")] + [CUSTOM[1], CUSTOM[3], RAGGED[1], RAGGED[2]]
                       + [["default"], ["name", "ascii22"], ["name", "list"]])
        for j, (shape, ops) in enumerate(HIST_SEEDS):
            yield self._desc(shape, hist_styles, 3 * j, typed=(j % 5 == 4), ops=ops)
            i += 1
        for j in range(16 if tier == "quick" else 110):
            shape = H.random_shape(rng, rng.randint(3, 10), deep=rng.choice([0.3, 0.6, 0.9]))
            ops = random_ops(rng, rng.randint(1, 5))
            sub = rng.sample(hist_styles[:8], 4) + rng.sample(hist_styles[8:], 1)
            yield self._desc(shape, sub, rng.randrange(1000), typed=rng.random() < 0.2, ops=ops)
            i += 1
        # custom tuples with empty / equal / multi-character elements in every position, on every shape with <= 3 nodes and
        # two larger ones (all combinations of last / not last and with / without children occur)
        for j, shape in enumerate([sh for n in range(1, 4) for sh in H.forests(n)] + [_L2, _S1]):
            yield self._desc(shape, EDGE[j % 2::2] if tier == "quick" and j < 8 else EDGE, 3 * j + 2, typed=(j == 5))
            i += 1
        # WHITE SPACE: renderings that are empty / blank / start or end with blanks, tabs, line breaks, with every kind of style
        # incl. the all-blank ones; lines are compared byte-exactly (nothing in this module strips)
        ws_styles = [["name", "space1"], ["name", "space2"], ["name", "space3"], ["name", "space4"], ["default"], ["name", "lines32c"],
                     ["name", "ascii11"], ["custom", ["  ", "  ", "  ", "  "]], ["custom", [" ", "\t", " \t", "\t ", "  ", "\t\t"]],
                     ["custom", ["", "", "- ", "- ", "", ""]], ["name", "list"]]
        ws_shapes = [sh for n in range(1, 4) for sh in H.forests(n)] + [_L2, _S1]
        for j, shape in enumerate(ws_shapes):
            for m, wmode in enumerate(WS_MODES):
                if tier == "quick" and j < 8 and m != j % 4:
                    continue
                sub = ws_styles if tier != "quick" or j >= 8 else ws_styles[(j + m) % 2::2]
                yield self._desc(shape, sub, 7 * j + m, typed=(j == 6 and wmode != "fmt"), ws=wmode)
                i += 1
        # ABANDONED generators: format_iter() consumed for k lines (every k) and dropped or kept, repr callbacks that raise at
        # their k-th call; then the same tree AND an unrelated tree are formatted completely, the kept generators are resumed
        aband = [(_L2, None, None), (_S1, None, [[["move_top", 1, 0]]]), (_L3, [["remove_keep", 1]], [[]]), ((((((),),),),), None, None)]
        aband_styles = [["default"], ["name", "lines32c"], ["name", "ascii32"], CUSTOM[0], EDGE[10], ["name", "list"]]
        for j, (shape, pre, phases) in enumerate(aband):
            yield self._desc(shape, aband_styles[j % 2::2] if tier == "quick" else aband_styles, 3 * j, typed=(j == 2),
                             ops=pre, phases=phases, abandon=True)
            i += 1
        for j in range(4 if tier == "quick" else 30):
            shape = H.random_shape(rng, rng.randint(3, 8), deep=rng.choice([0.6, 0.9]))
            phases = [random_ops(rng, rng.randint(1, 2), RESTRUCTURE)] if rng.random() < 0.5 else None
            yield self._desc(shape, rng.sample(aband_styles, 2), rng.randrange(1000), phases=phases, abandon=True)
            i += 1
        # SESSIONS: format - restructure the same tree object (mostly above the start nodes) - format again, with the
        # generators of the previous phase consumed after the restructuring and one style object per style reused
        sess_styles = [["default"], ["name", "ascii22"], ["name", "lines32c"], ["name", "round43c"], CUSTOM[0], CUSTOM[4],
                       CUSTOM[3], RAGGED[3], ["name", "list"]]
        for j, (shape, pre, phases) in enumerate(SESSION_SEEDS):
            sub = sess_styles if tier != "quick" else [sess_styles[k] for k in (0, 2 + j % 2, 5, 6 + j % 2, 8 if j % 2 else 4)]
            yield self._desc(shape, sub, 3 * j + 1, typed=(j % 4 == 3), ops=pre, phases=phases)
            i += 1
        for j in range(8 if tier == "quick" else 60):
            shape = H.random_shape(rng, rng.randint(4, 9), deep=rng.choice([0.6, 0.9]))
            phases = [random_ops(rng, rng.randint(1, 3), RESTRUCTURE) for _ in range(rng.choice([1, 1, 2]))]
            sub = [sess_styles[0]] + rng.sample(sess_styles[1:4], 1) + rng.sample(sess_styles[4:8], 2)
            yield self._desc(shape, sub, rng.randrange(1000), typed=rng.random() < 0.25, phases=phases)
            i += 1
        nrand = 18 if tier == "quick" else 180
        for _ in range(nrand):
            n = rng.randint(6, 24)
            shape = H.random_shape(rng, n, deep=rng.choice([0.3, 0.6, 0.9]))
            sub = rng.sample(table, 3) + [rng.choice(CUSTOM), rng.choice(SPECIAL)]
            yield self._desc(shape, sub, rng.randrange(1000), typed=rng.random() < 0.2)
            i += 1

    def shrink_candidates(self, desc):
        if desc.get("abandon"):
            # a defect of this family leaves hidden state behind in the library (process-wide): in the process that found it
            # every later case fails too, so shrinking there is meaningless; the replay is the generated case itself
            return
        ops = desc.get("ops") or []
        for k in range(len(ops)):
            yield dict(desc, ops=ops[:k] + ops[k + 1:])
        phases = desc.get("phases") or []
        for k in range(len(phases)):
            if len(phases) > 1:
                yield dict(desc, phases=phases[:k] + phases[k + 1:])
            for m in range(len(phases[k])):
                yield dict(desc, phases=phases[:k] + [phases[k][:m] + phases[k][m + 1:]] + phases[k + 1:])
        if len(desc["styles"]) > 1:
            for st in desc["styles"]:
                yield dict(desc, styles=[st])
        for nodes in B.drop_one_node(desc["nodes"]):
            yield dict(desc, nodes=nodes)

    # ----- one case
    def run(self, desc) -> Case:
        """One case = one tree object and ONE Python object per style, used for a sequence of phases:
        phase 0 formats the tree built from desc['nodes'] (+ desc['ops']); every further phase (desc['phases'][k] = ops)
        first lets the caller edit its list styles in place, restructures the SAME tree, formats everything again, and
        also consumes the format_iter() generators that were created in the previous phase (late consumption: on the
        unchanged code a generator does nothing before its first next(), so it must show the tree as it is now)."""
        typed = bool(desc.get("typed"))
        U = B.make_universe(desc["univ"])
        tree = (H.TypedTree if typed else H.Tree)(desc["name"])
        B.add_nodes(tree._root, desc["nodes"], U, typed)
        n_applied = apply_ops(tree, desc.get("ops") or [], U, typed)
        mode = desc["repr"]
        rarg = repr_arg(mode)
        join = desc["join"]
        ttext = desc["title"]
        titles = [None, False, True, ttext, ""]
        cur = [[st[0]] + [list(x) if isinstance(x, list) else x for x in st[1:]] for st in desc["styles"]]
        objs = [style_arg(st) for st in cur]          # caller-owned style objects, reused for every call of the case
        phases = desc.get("phases") or []
        cls = "TypedTree" if typed else "Tree"

        coq_cases, all_obs, fail, late, other = [], [], None, None, None
        depth = max_sibs = n_nodes = 0
        for ph in range(len(phases) + 1):
            if ph > 0:
                for k, st in enumerate(cur):      # the caller swaps the last / not-last connectors of its list styles
                    if st[0] == "customlist" and len(st[1]) >= 4:
                        st[1][2], st[1][3] = st[1][3], st[1][2]
                        objs[k][2], objs[k][3] = st[1][2], st[1][3]
                n_applied += apply_ops(tree, phases[ph - 1], U, typed)
            nodes = B.all_nodes(tree._root)
            rend = {id(n): expected_rend(mode, typed, n) for n in nodes}
            snodes, jnodes = self.select(nodes, desc.get("starts"))
            kept = self.abandon(tree, nodes, snodes, objs, rarg) if desc.get("abandon") else []
            obs = [self.observe(tree, snodes, jnodes, a, rarg, titles, join) for a in objs]
            variants = [("", obs)]
            # generators that were partly consumed and kept while everything was formatted again continue where they stopped
            for k, where, head, it in kept:
                fresh = obs[k][0][0] if where == "tree" else obs[k][0][1] if where == "tree0" else obs[k][1][where][0]
                rest = lines_obs(lambda: it)
                if not fail and fresh[0] == 0 and (rest[0] != 0 or head + rest[1] != fresh[1]):
                    fail = (f"phase {ph}: a format_iter() generator ({where}) of which {len(head)} lines were consumed before the tree was "
                            f"formatted again continues with {rest!r}; the whole rendering is {fresh[1]!r} [style {cur[k]}]")
            others = []
            if desc.get("abandon"):
                # ... and an unrelated tree is formatted as if nothing had happened
                if other is None:
                    other = H.Tree("other")
                    B.add_nodes(other._root, B.shape_to_nodes(_L2, lambda k, d, s: ((k * 3 + 1) % len(desc["univ"]), None, f"o{k}")), U, False)
                o_nodes = B.all_nodes(other._root)
                o_rend = {id(n): expected_rend(mode, False, n) for n in o_nodes}
                o_sn, o_jn = self.select(o_nodes, None)
                o_obs = [self.observe(other, o_sn, o_jn, a, rarg, titles, join) for a in objs[:2]]
                for st, o in zip(cur, o_obs):
                    f = None if fail else self.oracle(other, o_sn, o_jn, o_rend, st, o, titles, join, False)
                    if f:
                        fail = f"phase {ph}: an unrelated tree formatted after abandoned format_iter() generators of this tree: {f} [style {st}]"
                others.append((other, o_nodes, o_rend, o_sn, o_jn, o_obs))
            if late is not None:
                obs_late = []
                for k, o in enumerate(obs):
                    lt = late[k]
                    if lt is None:
                        obs_late.append(o)
                        continue
                    nd = [[lines_obs(lambda: lt["nd"][id(n)][0]), lines_obs(lambda: lt["nd"][id(n)][1])]
                          if id(n) in lt["nd"] else o[1][i] for i, n in enumerate(snodes)]
                    obs_late.append([[lines_obs(lambda: it) for it in lt["tr"]], nd, o[2], o[3],
                                     [lines_obs(lambda: it) for it in lt["sr"]]])
                variants.append(("generator created before the restructuring, consumed after it: ", obs_late))
            for tag, ob in variants:
                for st, o in zip(cur, ob):
                    if fail:
                        break
                    f = self.oracle(tree, snodes, jnodes, rend, st, o, titles, join, typed)
                    if f:
                        fail = f"phase {ph}: {tag}{f} [style {st}]"
            for st, a in zip(cur, objs):          # the caller's objects must be left alone
                if not fail and st[0] in ("custom", "customlist"):
                    want = tuple(st[1]) if st[0] == "custom" else list(st[1])
                    if a != want:
                        fail = f"phase {ph}: the caller's style object {want!r} was changed by format(): it is now {a!r} [style {st}]"
            # generators for the next phase: created now, consumed after the restructuring
            if ph < len(phases):
                late = []
                for st, a in zip(cur, objs):
                    if st[0] == "customlist":
                        late.append(None)        # edited by the caller in between: not specified, not checked
                        continue
                    late.append(dict(
                        tr=[lazily(lambda: tree.format_iter(repr=rarg, style=a, title=ti)) for ti in titles],
                        nd={id(n): [lazily(lambda: n.format_iter(repr=rarg, style=a, add_self=True)),
                                    lazily(lambda: n.format_iter(repr=rarg, style=a, add_self=False))] for n in snodes},
                        sr=[lazily(lambda: tree.system_root.format_iter(repr=rarg, style=a, add_self=True)),
                            lazily(lambda: tree.system_root.format_iter(repr=rarg, style=a, add_self=False))]))
            # what is compared with the model: full text for title default/False and the joined text, hashes for the rest
            full = len(nodes) <= 3
            hl, ht = ((lambda x: x), (lambda x: x)) if full else (hlines, htext)
            rends = H.coq_list(f"({H.nid(n)}, {H.coq_text(rend[id(n)])})" for n in nodes)
            for vi, (_tag, ob) in enumerate(variants):
                # the late-consumed lines are all checked by the oracle; with the model the first two styles are compared
                nst = len(cur) if vi == 0 else min(2, len(cur))
                ob = ob[:nst]
                coq_cases.append(
                    f"(mk16 {H.coq_forest(tree._root, U)} {rends} {H.coq_text(cls)} {H.coq_text(desc['name'])} "
                    f"{H.coq_list(coq_style(s) for s in cur[:nst])} {H.coq_text(ttext)} {H.coq_text(join)} "
                    f"{H.coq_list(str(H.nid(n)) for n in snodes)} {H.coq_list(str(H.nid(n)) for n in jnodes)} {H.coq_bool(full)})")
                all_obs.append([[tr[:2] + [hl(x) for x in tr[2:]], [[hl(a), hl(b)] for a, b in nd], tj,
                                 [[ht(x), ht(y)] for x, y in nj], [hl(x) for x in sr]] for tr, nd, tj, nj, sr in ob])
            for o_tree, o_nodes, o_rend, o_sn, o_jn, o_obs in others:
                o_full = len(o_nodes) <= 3
                o_rends = H.coq_list(f"({H.nid(n)}, {H.coq_text(o_rend[id(n)])})" for n in o_nodes)
                coq_cases.append(
                    f"(mk16 {H.coq_forest(o_tree._root, U)} {o_rends} {H.coq_text('Tree')} {H.coq_text('other')} "
                    f"{H.coq_list(coq_style(s) for s in cur[:len(o_obs)])} {H.coq_text(ttext)} {H.coq_text(join)} "
                    f"{H.coq_list(str(H.nid(n)) for n in o_sn)} {H.coq_list(str(H.nid(n)) for n in o_jn)} {H.coq_bool(o_full)})")
                all_obs.append([[tr[:2] + [hlines(x) for x in tr[2:]], [[hlines(a), hlines(b)] for a, b in nd], tj,
                                 [[htext(x), htext(y)] for x, y in nj], [hlines(x) for x in sr]] for tr, nd, tj, nj, sr in o_obs])
            depth = max(depth, ptr_depth(tree._root))
            max_sibs = max([max_sibs] + [len(p._children or []) for p in [tree._root] + nodes])
            n_nodes = max(n_nodes, len(nodes))
        return Case(desc=desc, coq_input=H.coq_list(coq_cases), impl_obs=all_obs, oracle_fail=fail,
                    nontrivial=(depth >= 2 or max_sibs >= 2),
                    key=H.digest([B_shape(desc["nodes"]), desc.get("ops"), phases, desc.get("abandon"), desc["styles"], desc["repr"], typed]),
                    stats=dict(nodes=n_nodes, depth=depth, max_sibs=max_sibs, styles=len(desc["styles"]), repr=mode, typed=typed,
                               ops=len(desc.get("ops") or []) + sum(len(x) for x in phases), ops_applied=n_applied,
                               phases=len(phases) + 1))

    @staticmethod
    def abandon(tree, nodes, snodes, objs, rarg):
        """Start format_iter() generators and leave them unfinished in every possible place: after k lines for every k
        (even k: dropped; odd k: kept and returned as (style index, where, consumed lines, generator)), and through a repr
        callback that raises at its k-th call (caught here).  On the unchanged code none of this has any effect on later calls."""
        class Boom(Exception):
            pass

        def base_render(n):
            if callable(rarg):
                return rarg(n)
            return (rarg if rarg is not None else n.DEFAULT_RENDER_REPR).format(node=n)

        kept = []
        inner = [i for i, n in enumerate(snodes) if n._children][:3]
        for k_style, a in enumerate(objs):
            targets = [("tree", lambda: tree.format_iter(repr=rarg, style=a)),
                       ("tree0", lambda: tree.format_iter(repr=rarg, style=a, title=False))]
            targets += [(i, (lambda n: (lambda: n.format_iter(repr=rarg, style=a)))(snodes[i])) for i in inner]
            for where, mk in targets:
                for k in range(len(nodes) + 2):
                    head = []
                    try:
                        it = mk()
                        for _ in range(k):
                            head.append(next(it))
                    except StopIteration:
                        continue
                    except Exception:  # noqa: BLE001  (invalid style: nothing to abandon)
                        break
                    if k % 2 == 1:
                        kept.append((k_style, where, head, it))
                    else:
                        del it
            for k in range(1, len(nodes) + 1):
                calls = [0]

                def bad(n):
                    calls[0] += 1
                    if calls[0] == k:
                        raise Boom()
                    return base_render(n)

                for fn in (lambda: tree.format(repr=bad, style=a), lambda: list(tree.format_iter(repr=bad, style=a, title=False))):
                    calls[0] = 0
                    try:
                        fn()
                    except Boom:
                        pass
                    except Exception:  # noqa: BLE001
                        break
        return kept

    @staticmethod
    def select(nodes, starts):
        if starts is None:
            snodes = list(nodes)
        else:
            idx = {k for k in starts if 0 <= k < len(nodes)}
            if nodes:
                def pdepth(x):      # by pointers, not by the API under test
                    d = 0
                    while x._parent is not None:
                        x = x._parent
                        d += 1
                    return d
                deepest = max(range(len(nodes)), key=lambda k: (pdepth(nodes[k]), -k))
                idx |= {deepest} | {k for k, x in enumerate(nodes) if x is nodes[deepest]._parent}
            snodes = [nodes[k] for k in sorted(idx)]
        jnodes = snodes[:1] + snodes[-1:] if len(snodes) > 2 else list(snodes)
        return snodes, jnodes

    @staticmethod
    def observe(tree, snodes, jnodes, a, rarg, titles, join):
        tr = [lines_obs(lambda: tree.format_iter(repr=rarg, style=a, title=ti)) for ti in titles]
        nd = [[lines_obs(lambda: n.format_iter(repr=rarg, style=a, add_self=True)),
               lines_obs(lambda: n.format_iter(repr=rarg, style=a, add_self=False))] for n in snodes]
        tj = text_obs(lambda: tree.format(repr=rarg, style=a, join=join))
        nj = [[text_obs(lambda: n.format(repr=rarg, style=a, join=join)),
               text_obs(lambda: n.format(repr=rarg, style=a, join=join, add_self=False))] for n in jnodes]
        sr = [lines_obs(lambda: tree.system_root.format_iter(repr=rarg, style=a, add_self=True)),
              lines_obs(lambda: tree.system_root.format_iter(repr=rarg, style=a, add_self=False))]
        return [tr, nd, tj, nj, sr]

    # ----- the property statement, executed directly on the emitted lines and the pointer structure
    def oracle(self, tree, nodes, jnodes, rend, st, o, titles, join, typed):
        segs = segments(st)
        self._custom = st[0] in ("custom", "customlist")
        tr, nd, tj, nj, sr = o
        cls = "TypedTree" if typed else "Tree"
        trepr = f"{cls}<'{tree.name}'>"
        top = list(tree._root._children or [])

        def expect_title(ti):
            if ti is None:
                return [] if segs == "list" else [trepr]
            if ti is False:
                return []
            if ti is True:
                return [trepr]
            return [ti]

        # --- Tree.format_iter for every title setting
        for ti, ob in zip(titles, tr):
            what = f"tree.format_iter(title={ti!r})"
            roots = top
            bnodes = [x for r in roots for x in branch(r)]
            if ti == "":
                # an empty title text is outside the property statement: accept no line or an empty line
                if ob[0] == 0 and ob[1][:1] == [""] and len(ob[1]) == len(bnodes) + 1:
                    ob = [0, ob[1][1:]]
                f = self.check_lines(what, segs, ob, [], roots, bnodes, rend, None)
            else:
                # under a title line the top-level nodes carry their own connector (depth 1), without one they do not
                f = self.check_lines(what, segs, ob, expect_title(ti), roots, bnodes, rend, 1 if expect_title(ti) else 0)
            if f:
                return f
        # --- Node.format_iter for every start node
        for n, (o1, o0) in zip(nodes, nd):
            f = self.check_lines(f"node {H.nid(n)}.format_iter(add_self=True)", segs, o1, [], [n], branch(n), rend, 0)
            if f:
                return f
            kids = list(n._children or [])
            f = self.check_lines(f"node {H.nid(n)}.format_iter(add_self=False)", segs, o0, [], kids,
                                 [x for r in kids for x in branch(r)], rend, 0)
            if f:
                return f
        # --- Node.format_iter on the system root: it is never a line itself; with add_self its children carry connectors
        allnodes = [x for r in top for x in branch(r)]
        for add_self, ob in zip((True, False), sr):
            f = self.check_lines(f"system_root.format_iter(add_self={add_self})", segs, ob, [], top, allnodes, rend,
                                 1 if add_self else 0)
            if f:
                return f
        # --- format(join=j) == j.join(format_iter())
        if tj != (tr[0] if tr[0][0] != 0 else [0, join.join(tr[0][1])]):
            return f"tree.format(join): got {tj!r}, format_iter gave {tr[0]!r}"
        by_node = {id(n): pair for n, pair in zip(nodes, nd)}
        for n, js in zip(jnodes, nj):
            for add_self, j, o1 in zip((True, False), js, by_node[id(n)]):
                if j != (o1 if o1[0] != 0 else [0, join.join(o1[1])]):
                    return f"node {H.nid(n)}.format(join, add_self={add_self}): got {j!r}, format_iter gave {o1!r}"
        return None

    def check_lines(self, what, segs, ob, title_lines, roots, bnodes, rend, base):
        """ob: observed [0, lines] / [-1, err]; roots: the top nodes of the rendered branch (by pointers);
        bnodes: all nodes of the branch in pre-order (by pointers); base: the depth the prefixes of the
        roots have to decode to (0 = no connector: the start node itself, or a branch printed without its
        start node / title; 1 = connector under a title line); None = not specified."""
        if segs == "any":
            return None
        if isinstance(segs, list) and len(segs) not in (4, 6):
            return f"{what}: the style table entry has {len(segs)} segments (4 or 6 are decodable)"
        if segs is None:
            # invalid style name: always ValueError; malformed tuple: ValueError as soon as one node is rendered
            if ob == [-1, 3]:
                return None
            if ob[0] == 0 and not bnodes:
                return None      # nothing rendered: either behaviour is acceptable
            return f"{what}: invalid style accepted: {ob!r}"
        if ob[0] != 0:
            return f"{what}: raised error class {ob[1]}"
        lines = ob[1]
        exp_r = [rend[id(n)] for n in bnodes]
        if lines[:len(title_lines)] != title_lines:
            return f"{what}: title line(s) {lines[:len(title_lines)]!r}, expected {title_lines!r}"
        body = lines[len(title_lines):]
        if len(body) != len(bnodes):
            return f"{what}: line count {len(body)} for {len(bnodes)} nodes of the branch (after {len(title_lines)} title line)"
        if segs == "list":
            if body != exp_r:
                return f"{what}: list style lines {body!r}, expected the renderings {exp_r!r}"
            return None
        # pre-order of renderings; prefix = what precedes the rendering
        prefixes = []
        for ln, r in zip(body, exp_r):
            if not ln.endswith(r):
                return f"{what}: order: line {ln!r} does not end with the rendering {r!r} of the node at this pre-order position"
            prefixes.append(ln[:len(ln) - len(r)])
        s = list(segs)
        if len(s) == 4:
            s = s + [s[2], s[3]]
        # general prefix oracle, for ANY 4-/6-tuple: prefix = the style's ancestor segment for every ancestor inside the
        # printed branch (top-down, by its is-last flag) followed by the own segment (is-last, has-children), by pointers
        def is_last(x):
            return x is x._parent._children[-1]

        def want(n, top):
            chain, a = [], n
            while not any(a is r for r in roots):
                a = a._parent
                chain.append(a)
            chain.reverse()                       # ancestors inside the branch, branch root first
            own = (s[4] if is_last(n) else s[5]) if n._children else (s[2] if is_last(n) else s[3])
            if not top:
                if not chain:
                    return ""
                chain = chain[1:]
            return "".join(s[0] if is_last(a) else s[1] for a in chain) + own

        for n, p in zip(bnodes, prefixes):
            ok = [want(n, t) for t in ((True, False) if base is None else (bool(base),))]
            if p not in ok:
                return (f"{what}: prefix: node {H.nid(n)} is printed with prefix {p!r}, the segments along its ancestors' "
                        f"last-flags plus its own segment give {ok[0]!r}")
        wa, ws = len(s[0]), len(s[2])
        if not (wa > 0 and ws > 0 and len(s[1]) == wa and all(len(x) == ws for x in s[2:])):
            if self._custom:
                return None      # a custom tuple without common widths: exact prefixes checked, decoding is not promised
            return f"{what}: style segments have no common widths: {[len(x) for x in s]} - depth is not decodable"
        # decoding 1: depth from the prefix length alone
        depths = []
        for p in prefixes:
            if p == "":
                depths.append(0)
            else:
                q, r = divmod(len(p) - ws, wa)
                if len(p) < ws or r != 0:
                    return f"{what}: prefix {p!r} has a length that is no depth for widths {wa}/{ws}"
                depths.append(q + 1)
        shape = rebuild_shape(depths)
        want = real_shape(roots)
        if shape != want:
            return f"{what}: shape: depths {depths} decode to {shape!r}, the branch is {want!r}"
        if base is not None and depths and depths[0] != base:
            return f"{what}: the roots of the branch are printed at depth {depths[0]}, expected {base}"
        # decoding 2: flags from the segments, where they are distinguishable
        for n, p, d in zip(bnodes, prefixes, depths):
            if d == 0:
                continue
            chunks = [p[i * wa:(i + 1) * wa] for i in range(d - 1)]
            own = p[(d - 1) * wa:]
            # ancestors of n below the top of the rendered branch, top-down, by pointers
            anc = []
            a = n._parent
            for _ in range(d - 1):
                anc.append(a)
                a = a._parent
            anc.reverse()
            if s[0] != s[1]:
                got = [c == s[0] for c in chunks]
                wantf = [x is x._parent._children[-1] for x in anc]
                if any(c not in (s[0], s[1]) for c in chunks) or got != wantf:
                    return f"{what}: ancestor flags: node {H.nid(n)} prefix {p!r} decodes to {got}, ancestors' is-last flags are {wantf}"
            is_last = n is n._parent._children[-1]
            has_kids = bool(n._children)
            if not ({s[2], s[4]} & {s[3], s[5]}):
                if own not in s[2:] or (own in (s[2], s[4])) != is_last:
                    return f"{what}: own last-flag: node {H.nid(n)} own segment {own!r}, is_last={is_last}"
            if not ({s[2], s[3]} & {s[4], s[5]}):
                if own not in s[2:] or (own in (s[4], s[5])) != has_kids:
                    return f"{what}: has-children flag: node {H.nid(n)} own segment {own!r}, has_children={has_kids}"
        return None


def B_shape(nodes):
    return [B_shape(n[3]) for n in nodes]


# deterministic histories: every way a child list can become empty / be re-filled, nodes re-parented, order changed
_L1 = (((),),)                    # P(c)
_L2 = ((((),), ()), ())           # A(a1(a11), a2), B   (the demo of seeded/C16-4)
_L3 = (((), ()), ())              # A(a1, a2), B
HIST_SEEDS = [
    (_L1, [["remove_keep", 1]]), (_L2, [["remove_keep", 2]]), (_L1, [["remove", 1]]), (_L2, [["remove", 2]]),
    (_L1, [["remove_children", 0]]), (_L2, [["remove_children", 1]]),
    (_L1, [["move_top", 1, 0]]), (_L2, [["move", 2, 4, 0]]), (_L2, [["move", 2, 0, 1]]), (_L2, [["move_top", 2, 1]]),
    (_L1, [["filter", 2, 1]]), (_L2, [["filter", 5, 2]]),
    (_L3, [["remove_keep", 1], ["remove_keep", 1]]), (_L3, [["remove", 2], ["remove", 1]]),
    (_L2, [["clear_readd", 3, 3]]), (_L2, [["sort", 0, 1, 1, 0]]), (_L2, [["sort", 1, 1, 0, 1]]),
    (_L1, [["remove_keep", 1], ["add_leaf", 0, 5]]), (_L2, [["remove_keep", 2], ["add_leaf", 1, 7], ["remove", 2]]),
    (_L2, [["remove_keep", 1]]), (_L2, [["remove_keep", 0]]), (_L2, [["move", 1, 4, 0], ["remove_keep", 2]]),
]

# sessions: (shape, ops before the first formatting, [ops of phase 1, ops of phase 2, ...])
_S1 = ((((((),), ()), ()),), ())          # A(a1(a11(x(x1), y), a12)), B : pre-order A0 a1 1 a11 2 x3 x1 4 y5 a12 6 B7
SESSION_SEEDS = [
    (_S1, None, [[["move_top", 1, 0]]]),                         # an ancestor of the start nodes moves up
    (_S1, None, [[["remove_keep", 0]]]),                         # an ancestor is removed, its children kept
    (_S1, None, [[["move", 7, 2, 0], ["move", 5, 7, 0]]]),      # a start node gets deeper, then receives a child
    (_S1, None, [[["move", 2, 7, 0]], [["move_top", 2, 1]]]),   # moved down, then up again (two restructurings)
    (_S1, None, [[["remove_keep", 1]], [["remove_keep", 0]]]),
    (_L2, None, [[["remove_keep", 2]], [["add_leaf", 1, 3]]]),
    (_S1, [["move_top", 2, 0]], [[["move", 2, 0, 1]]]),
    (_L3, None, [[]]),                                           # nothing changes: only the caller edits its list styles
]

CORPUS = [
    # D35: list style with a title rendered the system root as a line
    dict(typed=False, univ=UNIV, nodes=[[0, None, None, [[1, None, None, []]]], [4, None, None, []]], name="T0",
         styles=[["name", "list"]], repr="fmt", title=TITLE_TEXT, join=", "),
]

PROP = Prop()

import parts  # noqa: E402
import parts_misc  # noqa: E402

parts.attach(PROP, parts_misc.PRINT)   # Tree.print (model Forest/MiscPrint.v, theorems at the end of Properties/C16.v)
