"""C06 — traversals visit each node once in documented order and obey control signals."""
from __future__ import annotations

import functools
import itertools
import random
import warnings

import build as B
import common as H
from common import Case
from nutree.common import IterMethod, SelectBranch, SkipBranch, StopTraversal

METHS = [IterMethod.PRE_ORDER, IterMethod.POST_ORDER, IterMethod.LEVEL_ORDER, IterMethod.LEVEL_ORDER_RTL,
         IterMethod.ZIGZAG, IterMethod.ZIGZAG_RTL, IterMethod.RANDOM_ORDER, IterMethod.UNORDERED]
MNAMES = ["pre", "post", "level", "level_rtl", "zigzag", "zigzag_rtl", "random", "unordered"]

# signal shapes: [constructor of the Coq type `raw`, argument]
SKIPS = [["RetSkipCls", None], ["RetSkipInst", None], ["RaiseSkipCls", None], ["RaiseSkipInst", None]]
STOPS = [["RetStopCls", None], ["RetStopInst", 7], ["RetStopInst", None], ["RaiseStopCls", None], ["RaiseStopInst", 8],
         ["RaiseStopInst", None], ["RetFalse", None], ["RetStopIterCls", None], ["RetStopIterInst", 9],
         ["RaiseStopIterCls", None], ["RaiseStopIterInst", 10], ["RaiseStopIterInst", None]]
ERRS = [["RetOther", 0], ["RetOther", 1], ["RetOther", 6], ["RaiseOther", 4], ["RaiseOther", 8]]
ALL_SHAPES = [["RetNone", None]] + SKIPS + STOPS + ERRS
OTHERS = [True, 0, 1, "x", 2.5, (), SelectBranch]          # values a callback must not return
VALUED = {"RetStopInst", "RaiseStopInst", "RetStopIterInst", "RaiseStopIterInst"}


class _Boom(Exception):
    pass


class _Broken(Exception):
    """The implementation left the domain in which observing it is safe (tree modified by a read-only call,
    runaway traversal): the case ends at once with this oracle failure."""


class _Runaway(BaseException):
    """raised from inside the callback when visit() makes far more calls than the tree has nodes"""


def label_targeted(nodes):
    """Clones in the relation 'the last child of P carries the data of the node that precedes P's branch'
    (P's previous sibling, else the previous sibling of the nearest ancestor that has one), wherever sibling
    uniqueness allows.  nodes: distinctly labelled forest description; modified copy is returned."""
    import copy
    nodes = copy.deepcopy(nodes)

    def go(forest, inherited):
        for i, nd in enumerate(forest):
            q = forest[i - 1][0] if i > 0 else inherited
            kids = nd[3]
            if kids and q is not None and all(k[0] != q for k in kids[:-1]):
                kids[-1][0] = q
            go(kids, q)

    go(nodes, None)
    return nodes


def coq_raw(shape):
    name, v = shape
    if name in VALUED:
        return f"({name} {'None' if v is None else f'(Some {H.z(v)})'})"
    if name == "RaiseOther":
        return f"(RaiseOther {v}%nat)"
    return name


def act(shape):
    """Behave as the callback of that shape (return a value or raise)."""
    name, v = shape
    if name == "RetNone":
        return None
    if name == "RetSkipCls":
        return SkipBranch
    if name == "RetSkipInst":
        return SkipBranch()
    if name == "RaiseSkipCls":
        raise SkipBranch
    if name == "RaiseSkipInst":
        raise SkipBranch(and_self=True)
    if name == "RetStopCls":
        return StopTraversal
    if name == "RetStopInst":
        return StopTraversal() if v is None else StopTraversal(v)
    if name == "RaiseStopCls":
        raise StopTraversal
    if name == "RaiseStopInst":
        raise (StopTraversal() if v is None else StopTraversal(v))
    if name == "RetFalse":
        return False
    if name == "RetStopIterCls":
        return StopIteration
    if name == "RetStopIterInst":
        return StopIteration() if v is None else StopIteration(v)
    if name == "RaiseStopIterCls":
        raise StopIteration
    if name == "RaiseStopIterInst":
        raise (StopIteration() if v is None else StopIteration(v))
    if name == "RetOther":
        return OTHERS[v]
    if name == "RaiseOther":
        raise {4: KeyError, 8: _Boom, 3: ValueError}[v]("callback fault")
    raise ValueError(name)


def classify(shape):
    """Documented meaning of a signal shape (user guide 'iteration callbacks' + docstrings)."""
    name, v = shape
    if name == "RetNone":
        return ("cont",)
    if name in ("RetSkipCls", "RetSkipInst", "RaiseSkipCls", "RaiseSkipInst"):
        return ("skip",)
    if name in ("RetStopCls", "RaiseStopCls", "RetFalse", "RetStopIterCls", "RaiseStopIterCls"):
        return ("stop", None)
    if name in VALUED:
        return ("stop", v)
    if name == "RetOther":
        return ("err", 3)
    if name == "RaiseOther":
        return ("err", v)
    raise ValueError(name)


def fires(trigger, node_id, k):
    return (trigger[0] == "node" and trigger[1] == node_id) or (trigger[0] == "call" and trigger[1] == k)


def res_obs(res):
    if res is None:
        return []
    if isinstance(res, int) and not isinstance(res, bool):
        return [res]
    return [-3, 0]


class Prop:
    id = "C06"
    coq_prop = "Properties/C06.v"
    case_module = "CaseC06"
    case_vo = "theories/Cases/CaseC06.vo"
    run_fn = "run06"
    post_variants = {"quick": 30, "thorough": 120}
    post_ops = None     # every post operation, removals included (selections are relative and clipped to the tree at hand)
    shard = 8
    rule = ("clone / equal-data labelings of every shape with 2..5 (thorough 6) nodes: one object everywhere under distinct explicit ids, "
            "same object at several depths / in cousins, value-equal distinct objects, and 'last child carries the data of the node "
            "preceding its parent's branch'; random trees: one third each distinct / positional clones / targeted clones; after EVERY "
            "iterator / visit call the tree is re-read by pointers and compared with the snapshot taken before (read-only), a second "
            "traversal follows every visit, and every traversal is cut after 10 x nodes items; "
            "one case = one tree: every ordered forest shape with <= N nodes (N=5 quick, 7 thorough; <=3 resp. <=5 nodes with every "
            "signal shape, larger ones with a rotating skip/stop/error shape; 7-node shapes: visit() from every third start node) plus "
            "seeded random deep/wide plain and typed trees up to "
            "60 (thorough 200) nodes with sampled start/signal nodes; per tree: 8 methods x every start node (and the whole tree) x "
            "add_self for iterator(), and visit() for 8 methods x add_self x every visited node as signal node x signal shapes, plus "
            "callbacks that signal at the k-th call; distinct = distinct (shape, selection); non-trivial = some skip suppressed a "
            "node or some stop cut the sequence")
    exhaustive_note = "all forest shapes <= 5 nodes (quick) / <= 7 (thorough), every start node (visit: <= 6 nodes every start, 7 nodes every third), every signal node"
    assumptions = ["identity of nodes is the allocation index recorded by a harness-side wrapper of Node.__init__",
                   "the registry order read for the UNORDERED model input is tree._node_by_id.values(); only its multiset is compared",
                   "RuntimeWarning emitted for StopIteration signals is ignored (default warning filter, not 'error')"]
    manifest = dict(
        text=("Machine-checked theorems (Coq 8.16, no axioms; every `Theorem` of coq/Properties/C06.v, counted by the runner) about an executable model of "
              "Node/Tree.iterator, Node/Tree.visit and call_traversal_cb.  For every tree, start node and add_self: each of the six ordered "
              "methods yields a permutation of the branch without repetition (UNORDERED/RANDOM: a permutation of the registry), add_self "
              "puts the start node first (last for post-order); the order of each method is characterised as a RELATION on node pairs "
              "(pre: ancestor or earlier sibling sub-tree; post: descendant or earlier sibling sub-tree; level / level_rtl / zigzag / "
              "zigzag_rtl: lexicographic on (depth, document position) with level d reversed iff rtl xor (zigzag and d odd)); the loop "
              "bound of the level iterators and of _visit_level is never reached.  visit(): a callback that never signals is called "
              "with exactly the iterator's sequence; a skip suppresses exactly the descendants of the skipping node (calls = the "
              "subsequence of the iterator order without the nodes below a call answered Skip; nothing for post-order) - for stateless "
              "skip sets and for arbitrary stateful callbacks; a stop signal or error at a call ends the traversal there: the calls "
              "are the prefix of the muted run up to and including that call and visit returns the carried value, for each of the 9 "
              "returned/raised stop shapes (StopTraversal, False, StopIteration; class or instance), all 16 raw shapes being normalised "
              "as documented; for any callback whatsoever the calls are a duplicate-free subsequence of the iterator order.  Tree.visit "
              "(the wrapper run by the check: system root, add_self=False) has the same statements against Tree.iterator: order, "
              "skip, stop at the k-th call / at a node for every shape, returned value, arbitrary callbacks, and the root is never "
              "handed to the callback.  Literal "
              "tables of the source (IterMethod values, the _iter_*/_visit_* handlers of Node, the revert/toggle flags of the level "
              "variants) are lifted on every run and must agree with the model (proof obligation).  The model is tied to /repo on every "
              "run by a correspondence check (vm_compute vs. the implementation on all forest shapes <=5 nodes (<=7 thorough), every "
              "start node, every signal node and shape, signals at the k-th call, plus random trees to 60/200 nodes) and an independent "
              "Python oracle (orders as sort keys on root paths read off the parent/child pointers; also memo pass-through, the "
              "RuntimeWarning for StopIteration signals and __iter__)."),
        note=("Trusted: Coq kernel + vm_compute; hand-written model theories/Forest/Traverse.v (tied by the correspondence only); harness "
              "generators/observation; node identity = allocation index.  The exact order of UNORDERED/RANDOM is not part of the property "
              "(compared as sorted multisets); random.shuffle is modelled as an arbitrary selection sequence.  Callbacks that mutate the "
              "tree during traversal are outside the model.  A callback returning any other value (True, 0, ...) makes visit raise "
              "ValueError - modelled as it is (the docstring of call_traversal_cb says such values are ignored).  Where the code is "
              "narrower than the English statement the theorems follow the code and say so: visit() exists for pre-, post- and "
              "level-order only (the other five methods raise NotImplementedError before any call: C06_visit_methods / "
              "C06_tree_visit_methods); Node.iterator(UNORDERED / RANDOM_ORDER) raises NotImplementedError (only Tree.iterator has "
              "them: C06_iterator_methods); a skip signal in post-order suppresses nothing (descendants were already called: "
              "C06_post_order_ignores_skip).  Outside a pure value model and therefore checked by the harness oracle only, on every "
              "case: traversals are read-only (child lists by identity, parent pointers, registry re-read after every call), two "
              "live traversals of one tree are independent, memo pass-through, the RuntimeWarning, __iter__.  Input hypotheses "
              "NoDup (ids f) and 'registry = node set' are checked per case (registry flag of run06 / reg_ok of the oracle; "
              "C06_registry_ids_suffice bridges the id-level check to the node-level hypothesis); their preservation by mutators "
              "is C01/C02's subject."),
        technique="Coq proof about an executable Gallina model + differential correspondence check (vm_compute) + Python oracle",
        design_ref="DESIGN.md section 6 (C06)",
    )

    # ----- generation
    def descs(self, tier, rng):
        quick = tier == "quick"
        nfull = 3 if quick else 5
        nmax = 5 if quick else 7
        ctr = 0
        for n in range(0, nmax + 1):
            for shape in H.forests(n):
                univ = [f"s:n{i}" for i in range(n)]
                nodes = B.shape_to_nodes(shape, lambda i, d, s: (i, None, None))
                if n <= nfull:
                    sn, sk = ALL_SHAPES, [SKIPS[ctr % 4], STOPS[ctr % len(STOPS)], ERRS[ctr % len(ERRS)]]
                else:
                    sn = [SKIPS[ctr % 4], STOPS[ctr % len(STOPS)], ERRS[ctr % len(ERRS)]]
                    sk = [SKIPS[(ctr + 1) % 4], STOPS[(ctr + 5) % len(STOPS)]]
                ctr += 1
                sel = None
                if quick and n == 5:
                    # largest quick size: visit() from every second start node (alternating with the shape counter)
                    idx = list(range(1, n + 1))
                    sel = dict(istarts=[0] + idx, vstarts=[0] + [i for i in idx if i % 2 == ctr % 2], sigs=idx, counts=[0, 2, 4])
                if n >= 7:
                    # largest exhaustive size: every start for iterator(), every third start (rotating with the
                    # shape counter) for visit(), every signal node, three call numbers
                    idx = list(range(1, n + 1))
                    sel = dict(istarts=[0] + idx, vstarts=[0] + [i for i in idx if i % 3 == ctr % 3], sigs=idx,
                               counts=[0, n // 2, n - 1])
                yield dict(typed=False, univ=univ, nodes=nodes, sn=sn, sk=sk, sel=sel)
                # the same shape with clones / equal-comparing data (Node.__eq__ compares data): lighter selection
                if 2 <= n <= (5 if quick else 6):
                    idx = list(range(1, n + 1))
                    lsel = dict(istarts=[0] + idx, vstarts=[0, 1 + ctr % n], sigs=idx, counts=[0, n // 2])
                    lsn = [SKIPS[ctr % 4], STOPS[ctr % len(STOPS)]]
                    lsk = [STOPS[(ctr + 3) % len(STOPS)]]
                    variants = [
                        # one data object everywhere (every node == every node), told apart by explicit data_ids
                        ("allsame", ["s:same"], B.shape_to_nodes(shape, lambda i, d, si: (0, None, "k%d" % i))),
                        # same object at several depths / in cousins: label depends on (sibling index, depth parity)
                        ("cyc", [f"s:c{i}" for i in range(2 * n)], B.shape_to_nodes(shape, lambda i, d, si: (2 * si + d % 2, None, None))),
                        # equal-but-distinct objects (value equality, equal hash) in the same pattern
                        ("eqobj", [f"e:{i // 2}" for i in range(2 * n)],
                         B.shape_to_nodes(shape, lambda i, d, si: (2 * si + d % 2, None, "q%d" % i))),
                    ]
                    if n == 5 and not quick:   # the two position-based labelings alternate
                        del variants[1 + ctr % 2]
                    elif n >= 5:        # largest size of the tier: one of the three in rotation (+ the targeted one)
                        variants = [variants[ctr % 3]]
                    tg = label_targeted(nodes)
                    if tg != nodes:
                        variants.append(("targeted", univ, tg))
                    for _nm, vuniv, vnodes in variants:
                        yield dict(typed=False, univ=vuniv, nodes=vnodes, sn=lsn, sk=lsk, sel=lsel)
        nrand = 18 if quick else 45
        top = 45 if quick else 200
        for j in range(nrand):
            n = rng.randint(8, top if j % 3 == 0 else max(8, top // 3))
            shape = H.random_shape(rng, n, deep=rng.choice([0.15, 0.5, 0.9]))
            typed = j % 4 == 3
            univ = [f"i:{i}" for i in range(n)]
            kind = (lambda i: ("k%d" % (i % 2)) if typed else None)  # noqa: E731
            nodes = B.shape_to_nodes(shape, lambda i, d, s: (i, kind(i), None))
            if j % 3 == 1:      # clones: same object wherever (sibling index, depth mod 3) coincide
                univ = [f"i:{i}" for i in range(3 * n)]
                nodes = B.shape_to_nodes(shape, lambda i, d, s: (3 * s + d % 3, kind(i), None))
            elif j % 3 == 2:    # clones in the 'last child = data of the preceding branch' relation
                nodes = label_targeted(nodes)
            idx = list(range(1, n + 1))
            sel = dict(istarts=[0] + (idx if n <= (14 if quick else 40) else sorted(rng.sample(idx, 12))),
                       vstarts=[0] + sorted(rng.sample(idx, 3)),
                       sigs=sorted(rng.sample(idx, 5)), counts=sorted(rng.sample(range(n), 3)))
            sn = [rng.choice(SKIPS), rng.choice(STOPS), rng.choice(ALL_SHAPES)]
            sk = [rng.choice(SKIPS), rng.choice(STOPS)]
            yield dict(typed=typed, univ=univ, nodes=nodes, sn=sn, sk=sk, sel=sel)

    def shrink_candidates(self, desc):
        if desc.get("sel") is not None:
            return
        for nodes in B.drop_one_node(desc["nodes"]):
            yield dict(desc, nodes=nodes)
        if len(desc["sn"]) > 1:
            for i in range(len(desc["sn"])):
                yield dict(desc, sn=desc["sn"][:i] + desc["sn"][i + 1:])
        if len(desc["sk"]) > 0:
            for i in range(len(desc["sk"])):
                yield dict(desc, sk=desc["sk"][:i] + desc["sk"][i + 1:])

    # ----- one case
    def run(self, desc) -> Case:
        with warnings.catch_warnings():
            warnings.simplefilter("ignore")
            return self._run(desc)

    def _run(self, desc) -> Case:
        tree, U = B.build(desc)
        nodes = B.all_nodes(tree._root)
        n = len(nodes)
        sel = desc.get("sel") or dict(istarts=list(range(0, n + 1)), vstarts=list(range(0, n + 1)),
                                      sigs=list(range(1, n + 1)), counts=list(range(0, n + 1)))
        # selections are relative (1-based pre-order index, 0 = whole tree) -> absolute node ids
        by_rel = {i + 1: nd for i, nd in enumerate(nodes)}

        def ab(i):
            return 0 if i == 0 else H.nid(by_rel[i])

        # (a history with removals may leave fewer nodes than the selection was made for)
        istarts = [ab(i) for i in sel["istarts"] if i <= n]
        vstarts = [ab(i) for i in sel["vstarts"] if i <= n]
        sigs = {ab(i) for i in sel["sigs"] if i <= n}
        counts = [k for k in sel["counts"] if k <= n]
        sn, sk = desc["sn"], desc["sk"]
        stats = dict(nodes=n, depth=B.nodes_depth(desc["nodes"]), visits=0, skip_effective=0, stop_effective=0)

        # everything the model needs is read BEFORE the first traversal
        reg = [H.nid(x) for x in tree._node_by_id.values()]
        reg_ok = sorted(reg) == sorted(H.nid(x) for x in nodes)
        nat = lambda l: H.coq_list(f"{x}%nat" for x in l)  # noqa: E731
        coq = (f"({H.coq_forest(tree._root, U)}, {nat(reg)}, Sel {nat(istarts)} {nat(vstarts)} {nat(sorted(sigs))} {nat(counts)} "
               f"{H.coq_list(coq_raw(s) for s in sn)} {H.coq_list(coq_raw(s) for s in sk)})")
        key = H.digest([desc["univ"], desc["nodes"], desc.get("sel"), desc["sn"], desc["sk"], desc.get("post")])
        try:
            return self._observe(desc, tree, U, nodes, n, istarts, vstarts, sigs, counts, sn, sk, stats, reg, reg_ok, coq, key)
        except _Broken as e:
            # the implementation corrupted the tree or ran away: no further observation is attempted
            return Case(desc=desc, coq_input=coq, impl_obs=[-9], oracle_fail=str(e), nontrivial=True, key=key, stats=stats)

    def _observe(self, desc, tree, U, nodes, n, istarts, vstarts, sigs, counts, sn, sk, stats, reg, reg_ok, coq, key):
        limit = 10 * (n + 1) + 10                     # no traversal of n nodes may yield / call more than this
        everyone = [tree._root] + nodes
        base_pre = [H.nid(x) for x in nodes]          # pre-order by pointers, taken before any traversal

        def snapshot():
            return ([(id(x._parent), tuple(id(c) for c in (x._children or ()))) for x in everyone],
                    [id(x) for x in tree._node_by_id.values()])

        snap0 = snapshot()

        def read_only(what):
            """traversals are read-only: child lists (by identity), parent pointers and the registry are as before"""
            if snapshot() != snap0:
                raise _Broken(f"read-only: {what} modified the tree (child lists / parent pointers / registry differ from "
                              f"the snapshot taken before)")

        def bounded(it, what):
            r = [H.nid(x) for x in itertools.islice(it, limit + 1)]
            if len(r) > limit:
                raise _Broken(f"{what}: yields more than {limit} nodes from a tree of {n} nodes (does not terminate / repeats nodes)")
            return r

        def it_obs(fn, what, sort=False):
            try:
                r = bounded(fn(), what)
                r = sorted(r) if sort else r
            except _Broken:
                raise
            except Exception as e:  # noqa: BLE001
                r = [-1, H.err_class(e)]
            read_only(what)
            return r

        side = dict(memo=None, warn=None, dunder_iter=None, live=None)   # behaviour outside the model, judged by the oracle only
        sentinel = []          # falsy on purpose: an empty collector is the typical memo argument

        def one_visit(call, trigger, shape, what="visit"):
            calls = []
            memos = []
            fired = []

            def cb(node, memo):
                k = len(calls)
                if k > limit:
                    raise _Runaway()
                calls.append(H.nid(node))
                memos.append(memo)
                if trigger is not None and fires(trigger, H.nid(node), k):
                    fired.append(shape[0])
                    return act(shape)
                return None

            stats["visits"] += 1
            own_memo = stats["visits"] % 2 == 0
            kw = dict(memo=sentinel) if own_memo else {}
            with warnings.catch_warnings(record=True) as wlist:
                warnings.simplefilter("always")
                try:
                    res = call(cb, **kw)
                    out = [calls, res_obs(res)]
                except _Runaway:
                    raise _Broken(f"{what}: more than {limit} callback calls on a tree of {n} nodes (does not terminate / "
                                  f"repeats nodes)") from None
                except Exception as e:  # noqa: BLE001
                    out = [calls, [-1, H.err_class(e)]]
            read_only(what)
            # ... and a traversal AFTER the visit still sees every node once (always for the plain visit, and for
            # every signalling visit on small trees)
            if trigger is None or n <= 8:
                again = bounded(tree.iterator(), f"pre-order after {what}")
                if again != base_pre:
                    raise _Broken(f"traversal after {what} yields {again}, expected {base_pre}")
            # memo: the caller's object (or one fresh dict per traversal) reaches every call
            if memos and side["memo"] is None:
                if own_memo and any(m is not sentinel for m in memos):
                    side["memo"] = f"memo: caller's memo object not passed to every call ({calls})"
                if not own_memo and (not isinstance(memos[0], dict) or any(m is not memos[0] for m in memos)):
                    side["memo"] = f"memo: default memo is not one dict per traversal ({calls})"
            # documented: a StopIteration signal is accepted but a RuntimeWarning is emitted; nothing else warns
            warned = any(issubclass(w.category, RuntimeWarning) for w in wlist)
            expect_warn = bool(fired) and "StopIter" in fired[-1]
            if warned != expect_warn and side["warn"] is None:
                side["warn"] = f"warning: RuntimeWarning emitted={warned} expected={expect_warn} for signal {shape} ({calls})"
            return out

        def visit_obs(call, what):
            b = one_visit(call, None, None, what)
            per_node = [[one_visit(call, ("node", x), r, f"{what} signal {r} at node {x}") for r in sn] for x in b[0] if x in sigs]
            per_call = [[one_visit(call, ("call", k), r, f"{what} signal {r} at call {k}") for r in sk] for k in counts if k < len(b[0])]
            for grp in per_node + per_call:
                for o in grp:
                    if o[1] == [] and len(o[0]) < len(b[0]):
                        stats["skip_effective"] += 1
                    elif o[1] != [] and len(o[0]) < len(b[0]):
                        stats["stop_effective"] += 1
            return [b, per_node, per_call]

        t_it = ([it_obs(lambda m=m: tree.iterator(m), f"tree.iterator({MNAMES[mi]})", sort=m in (IterMethod.RANDOM_ORDER, IterMethod.UNORDERED))
                 for mi, m in enumerate(METHS)] if 0 in istarts else [])
        t_vis = ([visit_obs(lambda cb, m=m, **kw: tree.visit(cb, method=m, **kw), f"tree.visit({MNAMES[mi]})")
                  for mi, m in enumerate(METHS)] if 0 in vstarts else [])
        n_it = [[[it_obs(lambda m=m, a=a, nd=nd: nd.iterator(m, add_self=a), f"node {H.nid(nd)}.iterator({MNAMES[mi]}, add_self={a})")
                  for mi, m in enumerate(METHS)] for a in (False, True)]
                for nd in nodes if H.nid(nd) in istarts]
        n_vis = [[[visit_obs(lambda cb, m=m, a=a, nd=nd, **kw: nd.visit(cb, method=m, add_self=a, **kw),
                             f"node {H.nid(nd)}.visit({MNAMES[mi]}, add_self={a})")
                   for mi, m in enumerate(METHS)] for a in (False, True)]
                 for nd in nodes if H.nid(nd) in vstarts]
        # `for n in tree` / `for n in node` (__iter__ = iterator): pre-order without the start node
        if 0 in istarts and bounded(iter(tree), "for n in tree") != t_it[0]:
            side["dunder_iter"] = "__iter__: `for n in tree` differs from tree.iterator()"
        for nd, ob in zip([x for x in nodes if H.nid(x) in istarts], n_it):
            if bounded(iter(nd), "for n in node") != ob[0][0]:
                side["dunder_iter"] = f"__iter__: `for n in node` differs from node.iterator() at {H.nid(nd)}"
        read_only("__iter__")

        # ---- two live traversals of one tree are independent: an iterator that is only partly consumed when another
        # traversal of the same tree is created / run yields, in the end, exactly what it yields when consumed in one go.
        # (global `random` is seeded from the case so that a failure replays)
        def live():
            whole = sorted(base_pre)
            random.seed(7919 * n + 31 * len(desc["univ"]) + len(str(desc["nodes"])))

            def norm(mi, r):
                return sorted(r) if mi >= 6 else r

            base = {mi: norm(mi, bounded(tree.iterator(m), f"tree.iterator({MNAMES[mi]})")) for mi, m in enumerate(METHS)}
            for mi in (6, 7):
                if base[mi] != whole:
                    return f"tree.iterator({MNAMES[mi]}) is not a permutation of the nodes: {base[mi]}"
            splits = sorted({k for k in (1, n // 2, n - 1) if 0 < k < n})
            for mi, m1 in enumerate(METHS):
                for mj, m2 in enumerate(METHS):
                    for k in splits:
                        it1 = tree.iterator(m1)
                        head = [H.nid(x) for x in itertools.islice(it1, k)]
                        second = norm(mj, bounded(tree.iterator(m2), "second live iterator"))
                        got = norm(mi, head + bounded(it1, "first live iterator"))
                        if got != base[mi]:
                            return (f"live traversals: tree.iterator({MNAMES[mi]}) consumed up to item {k}, then tree.iterator("
                                    f"{MNAMES[mj]}) run, then the rest: {head}+... gives {got}, uninterrupted {base[mi]}")
                        if second != base[mj]:
                            return (f"live traversals: tree.iterator({MNAMES[mj]}) run while tree.iterator({MNAMES[mi]}) is "
                                    f"half consumed gives {second}, alone {base[mj]}")
            # the same below one start node (ordered methods, add_self)
            starts = [x for x in nodes if x._children]
            if starts:
                nd = starts[stats["visits"] % len(starts)]
                nb = {mi: bounded(nd.iterator(METHS[mi], add_self=True), "node iterator") for mi in range(6)}
                for mi in range(6):
                    for mj in range(6):
                        it1 = nd.iterator(METHS[mi], add_self=True)
                        head = [H.nid(x) for x in itertools.islice(it1, 1)]
                        second = bounded(nd.iterator(METHS[mj], add_self=True), "second live iterator")
                        got = head + bounded(it1, "first live iterator")
                        if got != nb[mi] or second != nb[mj]:
                            return (f"live traversals below node {H.nid(nd)}: {MNAMES[mi]} interrupted by {MNAMES[mj]}: {got} / {second}, "
                                    f"uninterrupted {nb[mi]} / {nb[mj]}")
            # a traversal started inside the callback of a visit; a visit run while an iterator is half consumed
            vm = [(0, IterMethod.PRE_ORDER), (1, IterMethod.POST_ORDER), (2, IterMethod.LEVEL_ORDER)]
            for vi, vmeth in vm:
                for mj, m2 in enumerate(METHS):
                    calls, inner = [], []

                    def cb(node, memo, mj=mj, m2=m2, calls=calls, inner=inner):
                        if len(calls) > limit:
                            raise _Runaway()
                        calls.append(H.nid(node))
                        if len(calls) == max(1, n // 2):
                            inner.append(norm(mj, bounded(tree.iterator(m2), "iterator inside a visit callback")))
                            if mj < 3:
                                c2 = []
                                tree.visit(lambda nn, mm: c2.append(H.nid(nn)) if len(c2) <= limit else None, method=m2)
                                inner.append(c2)

                    try:
                        tree.visit(cb, method=vmeth)
                    except _Runaway:
                        return f"live traversals: visit({MNAMES[vi]}) does not terminate when a traversal runs inside its callback"
                    if n and (calls != base[vi] or any(r != base[mj] for r in inner)):
                        return (f"live traversals: visit({MNAMES[vi]}) with tree.iterator/visit({MNAMES[mj]}) run inside the callback "
                                f"of call {max(1, n // 2)}: calls {calls}, inner {inner}; expected {base[vi]} and {base[mj]}")
                for mi, m1 in enumerate(METHS):
                    if n < 2:
                        continue
                    it1 = tree.iterator(m1)
                    head = [H.nid(x) for x in itertools.islice(it1, 1)]
                    c2 = []
                    tree.visit(lambda nn, mm: c2.append(H.nid(nn)) if len(c2) <= limit else None, method=vmeth)
                    got = norm(mi, head + bounded(it1, "first live iterator"))
                    if got != base[mi] or c2 != base[vi]:
                        return (f"live traversals: tree.iterator({MNAMES[mi]}) interrupted by visit({MNAMES[vi]}): {got} / {c2}, "
                                f"expected {base[mi]} / {base[vi]}")
            return None

        side["live"] = live()
        read_only("interleaved traversals")
        obs = [t_it, t_vis, n_it, n_vis, reg_ok]

        fail = self.oracle(tree, nodes, istarts, vstarts, sigs, counts, sn, sk, obs, side)

        # ---- query - MUTATE - query again on the SAME tree object (stale caches / indexes): after everything above was
        # observed, the tree is restructured through the public API and every tree-level traversal is asked again and
        # judged by the same pointer-based oracle on the new structure (twice, with a different history each time).
        if fail is None and n >= 1:
            prng = random.Random(1000003 * n + len(str(desc)))
            for _round in range(2):
                ops = B.random_post(prng, max(1, len(B.all_nodes(tree._root))), len(desc["univ"]) or 1, bool(desc.get("typed")),
                                    allowed=getattr(self, "post_ops", None))
                B.apply_post(tree, U, ops, bool(desc.get("typed")))
                nodes2 = B.all_nodes(tree._root)
                lim2 = 10 * (len(nodes2) + 1) + 10

                def snap2():
                    return ([(id(x._parent), tuple(id(c) for c in (x._children or ()))) for x in [tree._root] + nodes2],
                            [id(x) for x in tree._node_by_id.values()])

                before2 = snap2()

                def again(it):
                    try:
                        r = [H.nid(x) for x in itertools.islice(it(), lim2 + 1)]
                    except Exception as e:  # noqa: BLE001
                        return [-1, H.err_class(e)]
                    if len(r) > lim2:
                        raise _Broken(f"after {ops}: a traversal yields more than {lim2} nodes from a tree of {len(nodes2)}")
                    return r

                def vis2(m):
                    c2 = []

                    def cb(node, memo):
                        if len(c2) > lim2:
                            raise _Runaway()
                        c2.append(H.nid(node))

                    try:
                        return [c2, res_obs(tree.visit(cb, method=m))]
                    except _Runaway:
                        raise _Broken(f"after {ops}: visit does not terminate") from None
                    except Exception as e:  # noqa: BLE001
                        return [c2, [-1, H.err_class(e)]]

                t_it2 = [sorted(r) if mi >= 6 and r[:1] != [-1] else r
                         for mi, r in enumerate(again(lambda m=m: tree.iterator(m)) for m in METHS)]
                t_vis2 = [[vis2(m), [], []] for m in METHS]
                if snap2() != before2:
                    fail = f"query - mutate {ops} - query again: read-only: the traversals modified the tree"
                    break
                reg2 = sorted(H.nid(x) for x in tree._node_by_id.values()) == sorted(H.nid(x) for x in nodes2)
                f2 = self.oracle(tree, nodes2, [0], [0], set(), [], sn, sk, [t_it2, t_vis2, [], [], reg2],
                                 dict(memo=None, warn=None, dunder_iter=None, live=None))
                if f2:
                    fail = f"query - mutate {ops} - query again: {f2}"
                    break
        if fail is None:
            fail = self.registry_histories(desc, tree, U)
        return Case(desc=desc, coq_input=coq, impl_obs=obs, oracle_fail=fail,
                    nontrivial=stats["skip_effective"] + stats["stop_effective"] > 0, key=key, stats=stats)

    # ----- UNORDERED / RANDOM_ORDER / get_random_node read the registry: after histories of adds and removals at every
    # registration position they must still be the reachable, live nodes (by identity; none deleted, none missing)
    @staticmethod
    def unordered_ok(tree, what):
        live = B.all_nodes(tree._root)
        want = sorted(id(x) for x in live)
        lim = 10 * (len(live) + 1) + 10

        def show(xs):
            return [("deleted:" if x._tree is None else "") + str(H.nid(x)) for x in xs]

        for m in (IterMethod.UNORDERED, IterMethod.RANDOM_ORDER):
            try:
                got = list(itertools.islice(tree.iterator(m), lim + 1))
            except Exception as e:  # noqa: BLE001
                return f"{what}: tree.iterator({m.value}) raises {type(e).__name__}"
            if sorted(id(x) for x in got) != want:
                return (f"{what}: tree.iterator({m.value}) yields {show(got)}, the reachable nodes are {show(live)}")
        pre = [id(x) for x in itertools.islice(tree.iterator(), lim + 1)]
        if pre != [id(x) for x in live]:
            return f"{what}: tree.iterator() is not the pre-order of the reachable nodes"
        if tree.count != len(live) or len(tree) != len(live):
            return f"{what}: tree.count / len(tree) = {tree.count} / {len(tree)}, reachable nodes: {len(live)}"
        if live:
            for _ in range(4):
                r = tree.get_random_node()
                if not any(r is x for x in live):
                    return f"{what}: get_random_node() returns {show([r])}, not a reachable node of {show(live)}"
        return None

    def registry_histories(self, desc, tree, U):
        typed = bool(desc.get("typed"))
        n0 = len(B.all_nodes(tree._root))
        random.seed(31 * n0 + len(str(desc["nodes"])))
        # (a) on the tree at hand: a chain of removals aimed at registration positions (next to last, first, last,
        #     middle, ...), each followed by the check; then adds, clear, add again
        hist = []
        for step in range(min(n0, 8)):
            reg = list(tree._node_by_id.values())
            if not reg:
                break
            pos = [len(reg) - 2, 0, len(reg) - 1, len(reg) // 2][step % 4] % len(reg)
            op = ["remove_keep", "remove", "remove_children", "remove_keep"][(step + n0) % 4]
            target = reg[pos]
            hist.append(f"{op}(registered #{pos} of {len(reg)})")
            try:
                if op == "remove":
                    target.remove()
                elif op == "remove_keep":
                    target.remove(keep_children=True)
                else:
                    target.remove_children()
            except Exception:  # noqa: BLE001  (refused, e.g. keep_children on typed trees or a sibling clash)
                hist[-1] += " refused"
            f = self.unordered_ok(tree, "after " + ", ".join(hist))
            if f:
                return f
        B.apply_post(tree, U, [["add", -1, 0, "a", None], ["add", 0, 1, "b", 0]], typed)
        f = self.unordered_ok(tree, "after " + ", ".join(hist) + ", add, add")
        if f:
            return f
        tree.clear()
        f = self.unordered_ok(tree, "after clear()")
        if f:
            return f
        B.apply_post(tree, U, [["add", -1, 0, "a", None], ["add", 0, 1, "b", None], ["add", -1, 2, "a", None], ["remove", 1]], typed)
        f = self.unordered_ok(tree, "after clear(), add, add, add, remove")
        if f:
            return f
        # (b) fresh builds of the same description: remove the k-th registered node, for every k on small trees
        #     (first, middle, next to last, last on larger ones), in each of the three ways; then once more
        ks = range(n0) if n0 <= 6 else sorted({0, n0 // 2, n0 - 2, n0 - 1})
        if n0 > 6:
            ops = ["remove_keep", "remove", "remove_children"][n0 % 3:][:1]
        else:
            ops = ["remove_keep", "remove", "remove_children"]
        for k in ks:
            for op in ops:
                t2, _U2 = B.build(desc)
                reg = list(t2._node_by_id.values())
                if k >= len(reg):
                    continue
                what = f"fresh build, {op}(registered #{k} of {len(reg)})"
                for rep in range(2):
                    reg = list(t2._node_by_id.values())
                    if not reg:
                        break
                    target = reg[min(k, len(reg) - 1)] if rep == 0 else reg[max(0, len(reg) - 2)]
                    try:
                        if op == "remove":
                            target.remove()
                        elif op == "remove_keep":
                            target.remove(keep_children=True)
                        else:
                            target.remove_children()
                    except Exception:  # noqa: BLE001
                        pass
                    f = self.unordered_ok(t2, what + (", then the same on the next-to-last registered" if rep else ""))
                    if f:
                        return f
        return None

    # ----- the property statement, executed on pointer structure
    def oracle(self, tree, nodes, istarts, vstarts, sigs, counts, sn, sk, obs, side):
        t_it, t_vis, n_it, n_vis, reg_ok = obs
        root = tree._root
        ids = H.nid
        order_cache = {}

        # The documented orders as sort keys on root paths (child indices read off the _parent/_children
        # pointers by identity) -- no traversal recursion here.
        def path(y, start):
            p = []
            while y is not start:
                par = y._parent
                p.append(next(i for i, c in enumerate(par._children) if c is y))
                y = par
            return p[::-1]

        def up(y, start):
            """proper ancestors of y inside the traversal, nearest first, start included"""
            out = []
            while y is not start:
                y = y._parent
                out.append(y)
            return out

        def below(start):
            """(node, path) of every proper descendant of start"""
            res = []
            for y in nodes:
                a = y
                while a is not None and a is not start:
                    a = a._parent
                if a is start and y is not start:
                    res.append((y, path(y, start)))
            return res

        def post_cmp(a, b):
            pa, pb = a[1], b[1]
            if pa[:len(pb)] == pb:          # b is an ancestor of a: descendants first
                return -1
            if pb[:len(pa)] == pa:
                return 1
            return -1 if pa < pb else 1

        def order(start, mi, add_self):
            ck = (id(start), mi, add_self)
            if ck not in order_cache:
                order_cache[ck] = order_(start, mi, add_self)
            return order_cache[ck]

        def order_(start, mi, add_self):
            br = below(start)
            if len({tuple(p) for _, p in br}) != len(br):
                raise AssertionError("oracle: paths not unique")
            if mi == 0:                      # ancestors first, then earlier sibling sub-trees
                body = sorted(br, key=lambda e: e[1])
            elif mi == 1:
                body = sorted(br, key=functools.cmp_to_key(post_cmp))
            elif mi in (2, 3, 4, 5):         # by depth; inside a level by position, reversed where documented
                rtl, zig = mi in (3, 5), mi in (4, 5)

                def key(e):
                    d = len(e[1]) - 1
                    back = rtl != (zig and d % 2 == 1)
                    return (d, [-i for i in e[1]] if back else e[1])
                body = sorted(br, key=key)
            else:
                return None
            body = [y for y, _ in body]
            if add_self:
                body = body + [start] if mi == 1 else [start] + body
            return body

        def expect_visit(start, mi, add_self, trigger, shape):
            if mi > 2:
                return [[], [-1, 5]]
            skipped, calls = set(), []
            for y in order(start, mi, add_self):
                if mi != 1 and any(id(a) in skipped for a in up(y, start)):
                    continue
                k = len(calls)
                calls.append(ids(y))
                if trigger is not None and fires(trigger, ids(y), k):
                    c = classify(shape)
                    if c[0] == "skip":
                        skipped.add(id(y))
                    elif c[0] == "stop":
                        return [calls, [] if c[1] is None else [c[1]]]
                    elif c[0] == "err":
                        return [calls, [-1, c[1]]]
            return [calls, []]

        def check_visits(label, start, add_self, got):
            for mi in range(8):
                b, per_node, per_call = got[mi]
                exp = expect_visit(start, mi, add_self, None, None)
                if b != exp:
                    return f"visit {MNAMES[mi]}: {label} no signal: got {b} expected {exp}"
                xs = [x for x in exp[0] if x in sigs]
                if len(per_node) != len(xs):
                    return f"visit {MNAMES[mi]}: {label} harness bookkeeping"
                for x, grp in zip(xs, per_node):
                    for r, o in zip(sn, grp):
                        e = expect_visit(start, mi, add_self, ("node", x), r)
                        if o != e:
                            return f"visit {MNAMES[mi]}: {label} signal {r} at node {x}: got {o} expected {e}"
                ks = [k for k in counts if k < len(exp[0])]
                for k, grp in zip(ks, per_call):
                    for r, o in zip(sk, grp):
                        e = expect_visit(start, mi, add_self, ("call", k), r)
                        if o != e:
                            return f"visit {MNAMES[mi]}: {label} signal {r} at call {k}: got {o} expected {e}"
            return None

        for k in ("memo", "warn", "dunder_iter", "live"):
            if side[k]:
                return side[k]
        if not reg_ok:
            return "registry: tree._node_by_id does not hold exactly the reachable nodes"
        if t_it:
            for mi in range(8):
                o = order(root, mi, False)
                exp = sorted(ids(x) for x in nodes) if o is None else [ids(x) for x in o]
                if t_it[mi] != exp:
                    return f"iterator {MNAMES[mi]}: whole tree: got {t_it[mi]} expected {exp}"
        if t_vis:
            f = check_visits("whole tree", root, False, t_vis)
            if f:
                return f
        for nd, ob in zip([x for x in nodes if ids(x) in istarts], n_it):
            for ai, a in enumerate((False, True)):
                for mi in range(8):
                    o = order(nd, mi, a)
                    exp = [-1, 5] if o is None else [ids(x) for x in o]
                    if ob[ai][mi] != exp:
                        return f"iterator {MNAMES[mi]}: start {ids(nd)} add_self={a}: got {ob[ai][mi]} expected {exp}"
        for nd, ob in zip([x for x in nodes if ids(x) in vstarts], n_vis):
            for ai, a in enumerate((False, True)):
                f = check_visits(f"start {ids(nd)} add_self={a}", nd, a, ob[ai])
                if f:
                    return f
        return None


PROP = Prop()
